#!/bin/bash
# MANIFEST.setup_cmd: regenerate coq/Gen from /repo, then a full .vo build of the development (offline).
set -e
cd "$(dirname "$0")"
export PYTHONHASHSEED=0 PIP_NO_INDEX=1 PYTHONDONTWRITEBYTECODE=1
/venv/bin/python tools/translate.py
/venv/bin/python - <<'PY'
import sys
sys.path.insert(0, "tools")
import vlib
with vlib.Lock():
    vlib.coq_project()
PY
cd coq
# -k: findings of the unchanged tree may legitimately leave a Findings/ file failing later; the checks report that
timeout 3000 make -j16 -k 2>&1 | tail -5
