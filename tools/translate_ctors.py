"""Second half of the translator: constructor IR, facade action lists, misc declarative code."""
import ast


def gen_ctors(mods, tables):
    return "(* placeholder *)\n", {"ctors": []}


def gen_facade(mods):
    return "(* placeholder *)\n", {"methods": []}


def gen_misc(mods):
    from translate import HEADER, coq_str, const_int, src_of
    lines = [HEADER.format(src="scsi_command.py (init_cdb), scsi.py (attach table), iscsi_device.py (status dispatch)",
                           extra=" Model.Command")]
    info = {}
    unknown = []
    # ---- SCSICommand.init_cdb: if lo <= opcode.value <= hi: cdb = bytearray(n) | raise ... else: raise
    mod = next(m for m in mods if m.stem == "scsi_command")
    fn = None
    for node in ast.walk(mod.tree):
        if isinstance(node, ast.FunctionDef) and node.name == "init_cdb":
            fn = node
    ranges, else_raises = [], False
    ok = fn is not None
    if ok:
        body = [s for s in fn.body if not (isinstance(s, ast.Expr) and isinstance(s.value, ast.Constant))]
        if not (len(body) == 2 and isinstance(body[0], ast.If) and isinstance(body[1], ast.Return)
                and isinstance(body[1].value, ast.Name)):
            ok = False
        else:
            retvar = body[1].value.id
            node = body[0]
            while True:
                t = node.test
                rng = None
                if (isinstance(t, ast.Compare) and len(t.ops) == 2 and all(isinstance(o, ast.LtE) for o in t.ops)
                        and isinstance(t.comparators[0], ast.Attribute) and t.comparators[0].attr == "value"
                        and isinstance(t.comparators[0].value, ast.Name) and t.comparators[0].value.id == fn.args.args[0].arg):
                    lo, hi = const_int(t.left), const_int(t.comparators[1])
                    if lo is not None and hi is not None and lo >= 0 and hi >= 0:
                        rng = (lo, hi)
                act = branch_action(node.body, retvar)
                if rng is None or act is None:
                    ok = False
                    unknown.append("init_cdb: " + src_of(node.test, mod.text))
                    break
                ranges.append((rng[0], rng[1], act[1]))
                if len(node.orelse) == 1 and isinstance(node.orelse[0], ast.If):
                    node = node.orelse[0]
                    continue
                if node.orelse:
                    act = branch_action(node.orelse, retvar)
                    if act is None or act[1] is not None:
                        ok = False
                        unknown.append("init_cdb else branch")
                    else:
                        else_raises = True
                break
    if not ok:
        unknown.append("init_cdb: unrecognised shape")
        ranges, else_raises = [], False
    lines.append("Definition init_cdb_ranges : list cdb_range := [" + "; ".join(
        "(%d, %d, %s)" % (lo, hi, "Some %d%%nat" % n if n is not None else "None") for lo, hi, n in ranges) + "].\n")
    lines.append("Definition init_cdb_else_raises : bool := %s.\n" % ("true" if else_raises else "false"))
    info["init_cdb"] = dict(ranges=ranges, else_raises=else_raises)
    lines.append("Definition unknown_misc : list string := [" + "; ".join(coq_str(u) for u in unknown) + "].\n")
    info["unknown"] = unknown
    return "\n".join(lines), info


def branch_action(stmts, retvar):
    """('len', n) for `retvar = bytearray(n)`, ('raise', None) for `raise ...OpcodeException`, else None"""
    from translate import const_int
    if len(stmts) != 1:
        return None
    s = stmts[0]
    if isinstance(s, ast.Assign) and len(s.targets) == 1 and isinstance(s.targets[0], ast.Name) \
            and s.targets[0].id == retvar and isinstance(s.value, ast.Call) and isinstance(s.value.func, ast.Name) \
            and s.value.func.id == "bytearray" and len(s.value.args) == 1:
        n = const_int(s.value.args[0])
        if n is not None and n >= 0:
            return ("len", n)
    if isinstance(s, ast.Raise) and s.exc is not None:
        e = s.exc.func if isinstance(s.exc, ast.Call) else s.exc
        if isinstance(e, ast.Attribute) and e.attr == "OpcodeException":
            return ("raise", None)
    return None
