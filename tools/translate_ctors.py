"""Second half of the translator: constructor IR, facade action lists, misc declarative code."""


def gen_ctors(mods, tables):
    return "(* placeholder *)\n", {"ctors": []}


def gen_facade(mods):
    return "(* placeholder *)\n", {"methods": []}


def gen_misc(mods):
    return "(* placeholder *)\n", {}
