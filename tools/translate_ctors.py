"""Second half of the translator: constructor IR, facade action lists, misc declarative code."""
import ast
import os
import re


EXN_NAMES = {"MissingBlocksizeException": "MissingBlocksize", "OpcodeException": "OpcodeException",
             "ValueError": "ValueError", "TypeError": "TypeError", "KeyError": "KeyError",
             "NotImplementedError": "NotImplementedError", "RuntimeError": "RuntimeError",
             "CommandNotImplemented": '(OtherExn "CommandNotImplemented")'}


def dotted(node):
    parts = []
    while isinstance(node, ast.Attribute):
        parts.append(node.attr)
        node = node.value
    if isinstance(node, ast.Name):
        parts.append(node.id)
        return ".".join(reversed(parts))
    return None


class CtorTranslator:
    """one __init__ -> flat guarded IR (see coq/Model/Ctor.v)"""

    def __init__(self, mod, cls, fn, enum_consts, prefix=""):
        from translate import coq_str, const_int, src_of
        self.mod, self.cls, self.fn = mod, cls, fn
        self.coq_str, self.const_int, self.src_of = coq_str, const_int, src_of
        self.enum_consts = enum_consts
        self.ntemp = 0
        self.prefix = prefix
        self.unknown = []
        self.has_out = False
        self.subst = {}
        args = fn.args
        self.self_name = args.args[0].arg
        self.op_name = args.args[1].arg if len(args.args) > 1 else None

    # ---- expressions
    def unk(self, node, what="expr"):
        src = self.src_of(node, self.mod.text)
        self.unknown.append("%s.%s: %s" % (self.mod.stem, self.cls.name, src))
        return src

    def expr(self, e):
        cs = self.coq_str
        if isinstance(e, ast.Name):
            if e.id in self.subst:
                return self.subst[e.id]
            return "EVar %s" % cs(e.id)
        if isinstance(e, ast.Constant):
            if e.value is None:
                return "ENone"
            if isinstance(e.value, bool):
                return "EConst %d" % int(e.value)
            if isinstance(e.value, int) and e.value >= 0:
                return "EConst %d" % e.value
            return "EUnknown %s" % cs(self.unk(e))
        d = dotted(e)
        if d is not None:
            parts = d.split(".")
            if parts[0] == self.self_name and parts[1:2] == ["opcode"]:
                parts = [self.op_name] + parts[2:]
            if parts[0] == self.op_name:
                if parts[1:] == ["value"]:
                    return "EOpValue"
                if len(parts) == 3 and parts[1] == "serviceaction":
                    return "ESA %s" % cs(parts[2])
            if parts == [self.self_name, "dataout"] and self.has_out:
                return "EVar %s" % cs("%dataout")
            if d in self.enum_consts:
                return "EConst %d" % self.enum_consts[d]
            return "EUnknown %s" % cs(self.unk(e))
        if isinstance(e, ast.BinOp) and isinstance(e.op, (ast.Mult, ast.Add)):
            return "(%s (%s) (%s))" % ("EMul" if isinstance(e.op, ast.Mult) else "EAdd", self.expr(e.left), self.expr(e.right))
        if isinstance(e, ast.IfExp):
            return "(EIf (%s) (%s) (%s))" % (self.cond(e.test), self.expr(e.body), self.expr(e.orelse))
        if isinstance(e, ast.Call) and not e.keywords:
            fd = dotted(e.func)
            if fd == "len" and len(e.args) == 1:
                return "(ELen (%s))" % self.expr(e.args[0])
            if fd == "bytearray" and len(e.args) == 1 and self.const_int(e.args[0]) == 0:
                return "EBytes0"
            if fd is not None and all(isinstance(a, ast.Name) for a in e.args):
                parts = fd.split(".")
                if parts[0] == self.self_name:
                    parts[0] = self.cls.name
                return "(ECall %s [%s])" % (cs(".".join(parts)), "; ".join(cs(a.id) for a in e.args))
        return "EUnknown %s" % cs(self.unk(e))

    def cond(self, t):
        if isinstance(t, ast.BoolOp):
            op = "CAnd" if isinstance(t.op, ast.And) else "COr"
            acc = self.cond(t.values[-1])
            for v in reversed(t.values[:-1]):
                acc = "(%s (%s) (%s))" % (op, self.cond(v), acc)
            return acc
        if isinstance(t, ast.UnaryOp) and isinstance(t.op, ast.Not):
            return "(CNot (%s))" % self.cond(t.operand)
        if isinstance(t, ast.Compare) and len(t.ops) == 1:
            a, b, o = t.left, t.comparators[0], t.ops[0]
            isnone = isinstance(b, ast.Constant) and b.value is None
            if isinstance(o, ast.Eq):
                return "(CEq (%s) (%s))" % (self.expr(a), self.expr(b))
            if isinstance(o, ast.NotEq):
                return "(CNot (CEq (%s) (%s)))" % (self.expr(a), self.expr(b))
            if isinstance(o, ast.Is) and isnone:
                return "(CIsNone (%s))" % self.expr(a)
            if isinstance(o, ast.IsNot) and isnone:
                return "(CNot (CIsNone (%s)))" % self.expr(a)
            return "(CUnknown %s)" % self.coq_str(self.unk(t))
        return "(CTruthy (%s))" % self.expr(t)

    # ---- statements
    def temp(self):
        self.ntemp += 1
        return "%%%sc%d" % (self.prefix, self.ntemp)

    def guard(self, path):
        return "[" + "; ".join("(%s, %s)" % (self.coq_str(t), "true" if b else "false") for t, b in path) + "]"

    def emit(self, out, path, stmt):
        out.append("(%s, %s)" % (self.guard(path), stmt))

    def stmts(self, body, path, out, classes):
        cs = self.coq_str
        for s in body:
            if isinstance(s, ast.Expr) and isinstance(s.value, ast.Constant):
                continue
            if isinstance(s, ast.Pass):
                continue
            if isinstance(s, ast.If):
                node, neg = s, []
                while True:
                    t = self.temp()
                    self.emit(out, path + neg, "SAssignC %s %s" % (cs(t), self.cond(node.test)))
                    self.stmts(node.body, path + neg + [(t, True)], out, classes)
                    neg = neg + [(t, False)]
                    if len(node.orelse) == 1 and isinstance(node.orelse[0], ast.If):
                        node = node.orelse[0]
                        continue
                    if node.orelse:
                        self.stmts(node.orelse, path + neg, out, classes)
                    break
                continue
            if isinstance(s, ast.Raise) and s.exc is not None:
                e = s.exc.func if isinstance(s.exc, ast.Call) else s.exc
                name = e.attr if isinstance(e, ast.Attribute) else (e.id if isinstance(e, ast.Name) else None)
                if name in EXN_NAMES:
                    self.emit(out, path, "SRaise %s" % EXN_NAMES[name])
                else:
                    self.emit(out, path, "SUnknown %s" % cs(self.unk(s)))
                continue
            if isinstance(s, ast.Expr) and isinstance(s.value, ast.Call):
                c = s.value
                fd = dotted(c.func)
                if fd and fd.endswith(".__init__") and c.args and isinstance(c.args[0], ast.Name) \
                        and c.args[0].id == self.self_name and not c.keywords:
                    parent = fd[:-len(".__init__")]
                    if parent == "SCSICommand" and len(c.args) == 4 and isinstance(c.args[1], ast.Name) \
                            and c.args[1].id == self.op_name:
                        self.emit(out, path, "SInit (%s) (%s)" % (self.expr(c.args[2]), self.expr(c.args[3])))
                        continue
                    if parent in classes and len(c.args) >= 2 and isinstance(c.args[1], ast.Name) \
                            and c.args[1].id == self.op_name:
                        if self.inline_parent(classes[parent], c.args[2:], path, out, classes):
                            continue
                self.emit(out, path, "SUnknown %s" % cs(self.unk(s)))
                continue
            if isinstance(s, ast.Assign) and len(s.targets) == 1:
                tg = s.targets[0]
                if isinstance(tg, ast.Name):
                    self.emit(out, path, "SAssign %s (%s)" % (cs(tg.id), self.expr(s.value)))
                    continue
                d = dotted(tg)
                if d == self.self_name + ".cdb" and isinstance(s.value, ast.Call) \
                        and dotted(s.value.func) == self.self_name + ".build_cdb" \
                        and all(k.arg is not None for k in s.value.keywords) \
                        and not any(isinstance(a, ast.Starred) for a in s.value.args):
                    kvs = "; ".join("(%s, %s)" % (cs(k.arg), self.expr(k.value)) for k in s.value.keywords)
                    self.emit(out, path, "SBuild %d%%nat [%s]" % (len(s.value.args), kvs))
                    continue
                if d == self.self_name + ".dataout":
                    self.emit(out, path, "SAssign %s (%s)" % (cs("%dataout"), self.expr(s.value)))
                    self.emit(out, path, "SSetOut (EVar %s)" % cs("%dataout"))
                    self.has_out = not path
                    continue
                if d == self.self_name + ".datain":
                    self.emit(out, path, "SSetIn (%s)" % self.expr(s.value))
                    continue
                if d and d.startswith(self.self_name + "._") and d.count(".") == 1:
                    self.emit(out, path, "SSetAttr %s (%s)" % (cs(d.split(".")[1]), self.expr(s.value)))
                    continue
            self.emit(out, path, "SUnknown %s" % cs(self.unk(s)))

    def inline_parent(self, pinfo, argnodes, path, out, classes):
        """Parent.__init__(self, opcode, e1, ...) -> p_i := e_i ; parent's body   (only self-references allowed)"""
        pfn = pinfo["fn"]
        pparams = [a.arg for a in pfn.args.args[2:]]
        if pfn.args.vararg or pfn.args.kwarg or pfn.args.kwonlyargs or len(argnodes) > len(pparams):
            return False
        ndef = len(pfn.args.defaults)
        defaults = [None] * (len(pparams) - ndef) + list(pfn.args.defaults)
        assigns = []
        for i, p in enumerate(pparams):
            node = argnodes[i] if i < len(argnodes) else defaults[i]
            if node is None:
                return False
            names = {n.id for n in ast.walk(node) if isinstance(n, ast.Name)}
            if (names & set(pparams)) - {p}:
                return False
            if not (isinstance(node, ast.Name) and node.id == p):
                assigns.append((p, node))
        # the parent's parameters are replaced by the (pure) argument expressions; the parent must not reassign them
        reassigned = {t.id for n in ast.walk(pfn) if isinstance(n, ast.Assign) for t in n.targets if isinstance(t, ast.Name)}
        if reassigned & {p for p, _ in assigns}:
            return False
        sub = CtorTranslator(pinfo["mod"], pinfo["cls"], pfn, self.enum_consts, prefix=self.prefix + pinfo["cls"].name + "_")
        sub.subst = {p: self.expr(node) for p, node in assigns}
        sub.self_name, sub.op_name = pfn.args.args[0].arg, pfn.args.args[1].arg
        if sub.self_name != self.self_name or sub.op_name != self.op_name:
            return False
        sub.stmts(pfn.body, path, out, classes)
        self.unknown += sub.unknown
        self.has_out = self.has_out or sub.has_out
        return True

    def default(self, node):
        cs = self.coq_str
        if isinstance(node, ast.Constant):
            if node.value is None:
                return "CNone"
            if isinstance(node.value, (int, bool)) and int(node.value) >= 0:
                return "CInt %d" % int(node.value)
        if isinstance(node, ast.Call) and dotted(node.func) == "bytearray" and len(node.args) == 1 \
                and self.const_int(node.args[0]) == 0:
            return "CBytes []"
        d = dotted(node)
        if d is not None and d in self.enum_consts:
            return "CInt %d" % self.enum_consts[d]
        if isinstance(node, ast.List) and not node.elts:
            return "COpaque %s" % cs("[]")
        return "COpaque %s" % cs(self.src_of(node, self.mod.text))


def collect_enum_consts(mods):
    """X = Enum(<dict name>) with int values  ->  {'X.NAME': v, 'modalias.X.NAME': v}"""
    from translate import assign_target, int_dict
    out = {}
    for mod in mods:
        dicts = {}
        for node in mod.tree.body:
            tgt, val = assign_target(node)
            if tgt and isinstance(val, ast.Dict):
                d = int_dict(val)
                if d is not None:
                    dicts[tgt] = d
            if tgt and isinstance(val, ast.Call) and isinstance(val.func, ast.Name) and val.func.id == "Enum" \
                    and len(val.args) == 1 and isinstance(val.args[0], ast.Name) and val.args[0].id in dicts:
                for k, v in dicts[val.args[0].id]:
                    out["%s.%s.%s" % (mod.stem, tgt, k)] = v
    return out


def gen_ctors(mods, tables):
    from translate import HEADER, coq_str, ident, imports_of
    tindex = {t["qual"]: t for t in tables}
    all_enum = collect_enum_consts(mods)
    # command classes: transitive subclasses of SCSICommand
    classes = {}      # local class name (per module) -> info ; keyed "stem.Class"
    byname = {}
    changed = True
    cands = []
    for mod in mods:
        for node in mod.tree.body:
            if isinstance(node, ast.ClassDef):
                cands.append((mod, node))
    known = {"SCSICommand"}
    order = []
    while changed:
        changed = False
        for mod, node in cands:
            key = "%s.%s" % (mod.stem, node.name)
            if key in classes:
                continue
            bases = [b.id for b in node.bases if isinstance(b, ast.Name)]
            if any(b in known for b in bases) and node.name != "SCSICommand":
                fn = next((m for m in node.body if isinstance(m, ast.FunctionDef) and m.name == "__init__"), None)
                classes[key] = dict(mod=mod, cls=node, fn=fn, bases=bases, key=key)
                byname.setdefault(node.name, []).append(classes[key])
                known.add(node.name)
                order.append(key)
                changed = True
    lines = [HEADER.format(src="__init__ of every SCSICommand subclass", extra=" Model.Ctor Gen.Tables")]
    unknown, infos = [], []
    for key in order:
        info = classes[key]
        mod, cls, fn = info["mod"], info["cls"], info["fn"]
        # resolve self._cdb_bits through the (single-inheritance) chain inside the same module
        bits_qual, c = None, info
        seen = 0
        while c is not None and seen < 5:
            q = "%s.%s._cdb_bits" % (c["mod"].stem, c["cls"].name)
            if q in tindex:
                bits_qual = q
                break
            nxt = None
            for b in c["bases"]:
                for cand in byname.get(b, []):
                    if cand["mod"] is c["mod"]:
                        nxt = cand
            c = nxt
            seen += 1
        # enum constants visible in this module: `from m import X` / `import m as alias`
        consts = {}
        for imp_mod, imp_name, as_name in imports_of(mod):
            stem = imp_mod.split(".")[-1]
            for k, v in all_enum.items():
                ks = k.split(".")
                if ks[0] == stem and ks[1] == imp_name:
                    consts["%s.%s" % (as_name, ks[2])] = v
                if ks[0] == imp_name:       # from pkg import module as alias
                    consts["%s.%s.%s" % (as_name, ks[1], ks[2])] = v
        for node in mod.tree.body:
            if isinstance(node, ast.Import):
                for a in node.names:
                    stem = a.name.split(".")[-1]
                    for k, v in all_enum.items():
                        ks = k.split(".")
                        if ks[0] == stem and a.asname:
                            consts["%s.%s.%s" % (a.asname, ks[1], ks[2])] = v
        cname = "C_" + ident(key.replace(".", "__"))
        if fn is None or bits_qual is None or len(fn.args.args) < 2 or fn.args.vararg or fn.args.kwonlyargs:
            unknown.append("%s: no translatable __init__ / _cdb_bits" % key)
            lines.append("Definition %s : ctor := mkCtor %s \"\" [] [] false [([], SUnknown %s)].\n" % (
                cname, coq_str(key), coq_str("no __init__")))
            infos.append(dict(key=key, coq=cname, params=[], unknown=["no init"], bits=None, kwargs=False))
            continue
        tr = CtorTranslator(mod, cls, fn, consts)
        body = []
        byname_local = {k2.split(".")[1]: v2 for k2, v2 in classes.items() if v2["mod"] is mod and v2["fn"] is not None}
        tr.stmts(fn.body, [], body, byname_local)
        pnames = [a.arg for a in fn.args.args[2:]]
        nd = len(fn.args.defaults)
        defs = [None] * (len(pnames) - nd) + list(fn.args.defaults)
        params = "; ".join("(%s, %s)" % (coq_str(p), "None" if d is None else "Some (%s)" % tr.default(d))
                           for p, d in zip(pnames, defs))
        lines.append("(* %s:%d *)" % (mod.rel, fn.lineno))
        lines.append("Definition %s : ctor := mkCtor %s %s %s\n  [%s] %s\n  [%s].\n" % (
            cname, coq_str(key), coq_str(bits_qual), tindex[bits_qual]["coq"], params,
            "true" if fn.args.kwarg else "false", ";\n   ".join(body)))
        unknown += tr.unknown
        infos.append(dict(key=key, coq=cname, params=pnames, unknown=tr.unknown, bits=bits_qual,
                          kwargs=bool(fn.args.kwarg), ndefaults=nd, file=mod.rel, cls=cls.name, stem=mod.stem))
    lines.append("Definition all_ctors : list (string * ctor) := [\n  " + ";\n  ".join(
        "(%s, %s)" % (coq_str(i["key"]), i["coq"]) for i in infos) + "].\n")
    lines.append("Definition unknown_ctor_parts : list string := [" + "; ".join(coq_str(u) for u in unknown) + "].\n")
    return "\n".join(lines), dict(ctors=infos, unknown=unknown)


def gen_facade(mods):
    """every public method of class SCSI as the list of abstract actions it performs, in program order;
    the attach decision table of __init_opcode; the documented keyword arguments of each method"""
    import re
    from translate import HEADER, coq_str, const_int, src_of, imports_of
    mod = next(m for m in mods if m.stem == "scsi" and m.rel.endswith("pyscsi/scsi.py"))
    cls = next((n for n in mod.tree.body if isinstance(n, ast.ClassDef) and n.name == "SCSI"), None)
    unknown, lines, methods = [], [HEADER.format(src=mod.rel, extra=" Model.Ctor Model.Facade")], []
    # class name -> ctor key "stem.Class" via the imports of scsi.py (incl. `import *`)
    cmap = {}
    for imp_mod, imp_name, as_name in imports_of(mod):
        stem = imp_mod.split(".")[-1]
        if imp_name == "*":
            m2 = next((m for m in mods if m.stem == stem), None)
            if m2:
                for n in m2.tree.body:
                    if isinstance(n, ast.ClassDef):
                        cmap[n.name] = "%s.%s" % (stem, n.name)
        else:
            cmap[as_name] = "%s.%s" % (stem, imp_name)
    skip = {"execute"}
    for fn in cls.body if cls else []:
        if not isinstance(fn, ast.FunctionDef) or fn.name.startswith("_") or fn.name in skip or fn.decorator_list:
            continue
        params = [a.arg for a in fn.args.args[1:]]
        nd = len(fn.args.defaults)
        defaults = [None] * (len(params) - nd) + list(fn.args.defaults)
        kwname = fn.args.kwarg.arg if fn.args.kwarg else None
        opvar = cmdvar = None
        acts = []

        def farg(node):
            if isinstance(node, ast.Name):
                if node.id == opvar:
                    return "FOpcode"
                if node.id in params:
                    return "FArg %s" % coq_str(node.id)
            if dotted(node) == "self.blocksize":
                return "FBlocksize"
            return None

        def construct(call, guard_sa=None):
            ck = cmap.get(dotted(call.func) or "")
            if ck is None:
                return None
            pos = [farg(a) for a in call.args]
            kws, star = [], False
            for k in call.keywords:
                if k.arg is None:
                    if isinstance(k.value, ast.Name) and k.value.id == kwname:
                        star = True
                        continue
                    return None
                kws.append((k.arg, farg(k.value)))
            if None in pos or any(v is None for _, v in kws):
                return None
            return "(%s, [%s], [%s], %s)" % (coq_str(ck), "; ".join(pos),
                                             "; ".join("(%s, %s)" % (coq_str(k), v) for k, v in kws), "true" if star else "false")

        body = [st for st in fn.body if not (isinstance(st, ast.Expr) and isinstance(st.value, ast.Constant))]
        for st in body:
            ok = False
            if isinstance(st, ast.Assign) and len(st.targets) == 1 and isinstance(st.targets[0], ast.Name):
                tgt, v = st.targets[0].id, st.value
                d = dotted(v)
                if d and d.startswith("self.device.opcodes.") and d.count(".") == 3:
                    opvar = tgt
                    acts.append("ALookup %s" % coq_str(d.split(".")[3]))
                    ok = True
                elif isinstance(v, ast.Call) and dotted(v.func) == "next" and len(v.args) == 1 and isinstance(v.args[0], ast.Call) \
                        and dotted(v.args[0].func) == "get_opcode" and len(v.args[0].args) == 2 \
                        and dotted(v.args[0].args[0]) == "self.device.opcodes" and isinstance(v.args[0].args[1], ast.Constant):
                    opvar = tgt
                    acts.append("ALookupSuffix %s" % coq_str(v.args[0].args[1].value))
                    ok = True
                elif isinstance(v, ast.Call):
                    c = construct(v)
                    if c is not None:
                        cmdvar = tgt
                        acts.append("AConstruct %s" % c)
                        ok = True
            elif isinstance(st, ast.If):
                # if service_action == opcode.serviceaction.X: cmd = Cls(...) elif ... else: raise ValueError(...)
                node, branches, good = st, [], True
                while True:
                    t = node.test
                    sa = None
                    if isinstance(t, ast.Compare) and len(t.ops) == 1 and isinstance(t.ops[0], ast.Eq) and isinstance(t.left, ast.Name) \
                            and t.left.id in params:
                        d = dotted(t.comparators[0]) or ""
                        if opvar and d.startswith(opvar + ".serviceaction."):
                            sa = (t.left.id, d.split(".")[2])
                    c = None
                    if len(node.body) == 1 and isinstance(node.body[0], ast.Assign) and isinstance(node.body[0].targets[0], ast.Name) \
                            and isinstance(node.body[0].value, ast.Call):
                        c = construct(node.body[0].value)
                        cmdvar = node.body[0].targets[0].id
                    if sa is None or c is None:
                        good = False
                        break
                    branches.append("(%s, %s, %s)" % (coq_str(sa[0]), coq_str(sa[1]), c))
                    if len(node.orelse) == 1 and isinstance(node.orelse[0], ast.If):
                        node = node.orelse[0]
                        continue
                    if not (len(node.orelse) == 1 and isinstance(node.orelse[0], ast.Raise) and node.orelse[0].exc is not None
                            and isinstance(node.orelse[0].exc, ast.Call) and dotted(node.orelse[0].exc.func) == "ValueError"):
                        good = False
                    break
                if good:
                    acts.append("AConstructBySA [%s]" % "; ".join(branches))
                    ok = True
            elif isinstance(st, ast.Expr) and isinstance(st.value, ast.Call):
                c = st.value
                d = dotted(c.func)
                if d == "self.execute" and len(c.args) == 1 and isinstance(c.args[0], ast.Name) and c.args[0].id == cmdvar:
                    raw = "false"
                    good = True
                    for k in c.keywords:
                        if k.arg == "en_raw_sense" and isinstance(k.value, ast.Constant) and isinstance(k.value.value, bool):
                            raw = "true" if k.value.value else "false"
                        else:
                            good = False
                    if good:
                        acts.append("AExecute %s" % raw)
                        ok = True
                elif cmdvar and d == cmdvar + ".unmarshall" and not c.args:
                    kws, star, good = [], False, True
                    for k in c.keywords:
                        if k.arg is None:
                            if isinstance(k.value, ast.Name) and k.value.id == kwname:
                                star = True
                            else:
                                good = False
                        else:
                            v = farg(k.value)
                            if v is None:
                                good = False
                            kws.append((k.arg, v))
                    if good:
                        acts.append("AUnmarshall [%s] %s" % ("; ".join("(%s, %s)" % (coq_str(k), v) for k, v in kws),
                                                             "true" if star else "false"))
                        ok = True
            elif isinstance(st, ast.Return) and isinstance(st.value, ast.Name) and st.value.id == cmdvar:
                acts.append("AReturn")
                ok = True
            if not ok:
                unknown.append("SCSI.%s: %s" % (fn.name, src_of(st, mod.text)))
                acts.append("AUnknownAction %s" % coq_str(src_of(st, mod.text)[:120]))
        doc = ast.get_docstring(fn) or ""
        doc_kwargs = []
        m = re.search(r":param kwargs:(.*?)(?=\n\s*:(?:param|return)|\Z)", doc, re.S)
        if m:
            doc_kwargs = re.findall(r"^\s*(\w+)\s*=", m.group(1), re.M)

        def dflt(n):
            if n is None:
                return "None"
            v = const_int(n)
            if v is not None and v >= 0:
                return "Some (CInt %d)" % v
            if isinstance(n, ast.Call) and dotted(n.func) == "bytearray":
                return "Some (CBytes [])"
            return "Some (COpaque %s)" % coq_str(src_of(n, mod.text)[:40])
        methods.append(dict(name=fn.name, params=params, ndefaults=nd, kwargs=bool(kwname), acts=acts, doc_kwargs=doc_kwargs))
        lines.append("Definition F_%s : fmethod := mkF %s [%s] %s\n  [%s].\n" % (
            fn.name, coq_str(fn.name), "; ".join("(%s, %s)" % (coq_str(p), dflt(d)) for p, d in zip(params, defaults)),
            "true" if kwname else "false", ";\n   ".join(acts)))
    # ---- everything else in class SCSI: only the members below, in exactly these shapes; anything else (a helper, a cache, a
    # ---- class-level attribute, a decorated method, a wrapper that does more than pass the call on) is reported as unknown
    def is_doc(st):
        return isinstance(st, ast.Expr) and isinstance(st.value, ast.Constant) and isinstance(st.value.value, str)

    def body_of(fn):
        return [st for st in fn.body if not is_doc(st)]

    def execute_passthrough(fn):
        a = fn.args
        if [x.arg for x in a.args] != ["self", "cmd", "en_raw_sense"] or a.vararg or a.kwarg or a.kwonlyargs or len(a.defaults) != 1 \
                or not (isinstance(a.defaults[0], ast.Constant) and a.defaults[0].value is False):
            return False

        def the_call(st):
            c = st.value if isinstance(st, (ast.Expr, ast.Return)) else None
            if not (isinstance(c, ast.Call) and dotted(c.func) == "self.device.execute"):
                return False
            pos = [dotted(x) for x in c.args]
            kws = {k.arg: dotted(k.value) for k in c.keywords}
            return (pos == ["cmd"] and kws == {"en_raw_sense": "en_raw_sense"}) or (pos == ["cmd", "en_raw_sense"] and not kws)
        b = body_of(fn)
        if len(b) == 1 and the_call(b[0]):
            return True
        if len(b) == 1 and isinstance(b[0], ast.Try) and not b[0].orelse and not b[0].finalbody and len(b[0].body) == 1 and the_call(b[0].body[0]) \
                and len(b[0].handlers) == 1:
            h = b[0].handlers[0]
            if dotted(h.type) == "Exception" and h.name and len(h.body) == 1 and isinstance(h.body[0], ast.Raise) and h.body[0].cause is None \
                    and (h.body[0].exc is None or dotted(h.body[0].exc) == h.name):
                return True
        return False
    method_names = {m["name"] for m in methods}
    seen_members = []
    for b in (cls.body if cls else []):
        if is_doc(b):
            continue
        if not isinstance(b, ast.FunctionDef):
            unknown.append("SCSI: class-level statement: %s" % src_of(b, mod.text)[:100])
            continue
        decos = [dotted(x) or "?" for x in b.decorator_list]
        seen_members.append(b.name)
        if b.name in method_names and not decos:
            continue
        if b.name == "blocksize" and decos in (["property"], ["blocksize.setter"]):
            continue
        if decos:
            unknown.append("SCSI.%s: decorated member (%s)" % (b.name, ", ".join(decos)))
        elif b.name in ("__init__", "__call__") or b.name.endswith("__init_opcode"):
            continue            # their stores are regenerated (facade_state_writes), the attach table below
        elif b.name == "execute":
            if not execute_passthrough(b):
                unknown.append("SCSI.execute: does more than hand the command to the device once: %s" % " ".join(src_of(b, mod.text).split())[:160])
        elif b.name == "__enter__":
            bb = body_of(b)
            if not (len(bb) == 1 and isinstance(bb[0], ast.Return) and dotted(bb[0].value) == "self"):
                unknown.append("SCSI.__enter__: %s" % " ".join(src_of(b, mod.text).split())[:120])
        elif b.name == "__exit__":
            bb = body_of(b)
            if not (len(bb) == 1 and isinstance(bb[0], ast.Expr) and isinstance(bb[0].value, ast.Call) and dotted(bb[0].value.func) == "self.device.close"
                    and not bb[0].value.args and not bb[0].value.keywords):
                unknown.append("SCSI.__exit__: %s" % " ".join(src_of(b, mod.text).split())[:120])
        else:
            unknown.append("SCSI.%s: a member that is neither a facade method nor one of the known helpers" % b.name)
    for nm in set(seen_members):
        if seen_members.count(nm) > 1 and nm != "blocksize":
            unknown.append("SCSI.%s: defined twice" % nm)
    lines.append("Definition facade_methods : list fmethod := [%s].\n" % "; ".join("F_" + m["name"] for m in methods))
    lines.append("Definition doc_kwargs : list (string * list string) := [%s].\n" % "; ".join(
        "(%s, [%s])" % (coq_str(m["name"]), "; ".join(coq_str(k) for k in m["doc_kwargs"])) for m in methods))
    # ---- attach: __init_opcode decision table  `devicetype in (codes): self.device.opcodes = <set>`
    table, attach_ok = [], False
    init = next((f for f in (cls.body if cls else []) if isinstance(f, ast.FunctionDef) and f.name.endswith("__init_opcode")), None)
    if init is not None:
        outer = [st for st in init.body if not (isinstance(st, ast.Expr) and isinstance(st.value, ast.Constant))]
        if len(outer) == 1 and isinstance(outer[0], ast.If) and not outer[0].orelse:
            inner = outer[0].body
            # self.device.devicetype = self.inquiry().result["peripheral_device_type"]
            a0 = inner[0] if inner else None
            shape0 = (isinstance(a0, ast.Assign) and dotted(a0.targets[0]) == "self.device.devicetype"
                      and isinstance(a0.value, ast.Subscript) and isinstance(a0.value.slice, ast.Constant)
                      and a0.value.slice.value == "peripheral_device_type" and isinstance(a0.value.value, ast.Attribute)
                      and a0.value.value.attr == "result" and isinstance(a0.value.value.value, ast.Call)
                      and dotted(a0.value.value.value.func) == "self.inquiry" and not a0.value.value.value.args
                      and not a0.value.value.value.keywords)
            if shape0 and len(inner) == 2 and isinstance(inner[1], ast.If):
                node, good = inner[1], True
                while True:
                    t = node.test
                    codes = None
                    if isinstance(t, ast.Compare) and len(t.ops) == 1 and isinstance(t.ops[0], ast.In) \
                            and dotted(t.left) == "self.device.devicetype" and isinstance(t.comparators[0], (ast.Tuple, ast.List)):
                        codes = [const_int(e) for e in t.comparators[0].elts]
                    tgt = None
                    if len(node.body) == 1 and isinstance(node.body[0], ast.Assign) and dotted(node.body[0].targets[0]) == "self.device.opcodes" \
                            and isinstance(node.body[0].value, ast.Name):
                        tgt = node.body[0].value.id
                    if codes is None or None in codes or tgt is None:
                        good = False
                        break
                    table.append("([%s], %s)" % ("; ".join(str(c) for c in codes), coq_str(tgt)))
                    if len(node.orelse) == 1 and isinstance(node.orelse[0], ast.If):
                        node = node.orelse[0]
                        continue
                    if node.orelse:
                        good = False
                    break
                attach_ok = good
    if not attach_ok:
        unknown.append("SCSI.__init_opcode: unrecognised shape")
        table = []
    lines.append("Definition attach_table : list (list N * string) := [%s].\n" % "; ".join(table))
    # ---- facade state: every store to an attribute of `self` in every function of the class (also dunder methods and
    # property setters), as  attribute := parameter | attribute | anything else (unknown); and what the blocksize getter returns
    def sx(node, params):
        if isinstance(node, ast.Name) and node.id in params:
            return "SxParam %s" % coq_str(node.id)
        d = dotted(node) or ""
        if d.startswith("self.") and d.count(".") == 1:
            return "SxAttr %s" % coq_str(d.split(".")[1])
        return "SxOther %s" % coq_str(src_of(node, mod.text)[:80])
    writes, getter = [], "SxOther \"no blocksize property\""
    for fn in cls.body if cls else []:
        if not isinstance(fn, ast.FunctionDef):
            continue
        params = [a.arg for a in fn.args.args[1:]]
        deco = [dotted(d) or "" for d in fn.decorator_list]
        label = fn.name + (".setter" if any(d.endswith(".setter") for d in deco) else (".getter" if "property" in deco else ""))
        ws = []
        for node in ast.walk(fn):
            tgts = []
            if isinstance(node, ast.Assign):
                tgts = [(t, node.value) for t in node.targets]
            elif isinstance(node, (ast.AugAssign, ast.AnnAssign)) and node.value is not None:
                tgts = [(node.target, node)]
            for t, v in tgts:
                d = dotted(t) or ""
                if d.startswith("self.") and d.count(".") == 1:
                    ws.append("(%s, %s)" % (coq_str(d.split(".")[1]), sx(v, params)))
            if isinstance(node, ast.Call) and (dotted(node.func) or "") in ("setattr", "self.__dict__.update", "self.__setattr__", "object.__setattr__"):
                ws.append("(\"?\", SxOther %s)" % coq_str(src_of(node, mod.text)[:80]))
        if ws:
            writes.append("(%s, [%s])" % (coq_str(label), "; ".join(ws)))
        if fn.name == "blocksize" and "property" in deco:
            body = [st for st in fn.body if not (isinstance(st, ast.Expr) and isinstance(st.value, ast.Constant))]
            if len(body) == 1 and isinstance(body[0], ast.Return) and body[0].value is not None:
                getter = sx(body[0].value, params)
            else:
                getter = "SxOther %s" % coq_str("; ".join(src_of(st, mod.text) for st in body)[:80])
    lines.append("Definition facade_state_writes : list (string * list (string * sx)) := [\n  %s].\n" % ";\n  ".join(writes))
    lines.append("Definition facade_blocksize_get : sx := %s.\n" % getter)
    lines.append("Definition unknown_facade : list string := [" + "; ".join(coq_str(u) for u in unknown) + "].\n")
    return "\n".join(lines), dict(methods=methods, attach_table=table, unknown=unknown)


def gen_loops(mods):
    """every loop of the response / sense decoders: the loop variable and how much of it one iteration consumes"""
    from translate import HEADER, coq_str, const_int, src_of
    loops, fors, unknown = [], [], []

    def classify(k, env, guards):
        """stride expression -> Coq term of type stride"""
        c = const_int(k)
        if c is not None:
            return "SConst %d" % c
        if isinstance(k, ast.BinOp) and isinstance(k.op, ast.Add):
            for a, b in ((k.left, k.right), (k.right, k.left)):
                cb = const_int(b)
                if cb is not None and cb >= 0:
                    return "SAddConst %d" % cb        # e + c with e read from the buffer (non-negative)
        if isinstance(k, ast.Name):
            if k.id in guards:
                return "SGuarded %s" % coq_str(k.id)   # the loop condition requires it to be non-zero
            if k.id in env:
                return classify(env[k.id], {}, guards) if not isinstance(env[k.id], ast.Name) else "SData %s" % coq_str(k.id)
            return "SData %s" % coq_str(k.id)
        return "SData %s" % coq_str(ast.unparse(k)[:60])

    for mod in mods:
        if not (mod.stem.startswith("scsi_cdb_") or mod.stem == "scsi_sense"):
            continue
        for cls in [n for n in mod.tree.body if isinstance(n, ast.ClassDef)]:
            for fn in [f for f in cls.body if isinstance(f, ast.FunctionDef)]:
                if not (fn.name.startswith("unmarshall") or fn.name in ("__init__", "__str__", "print_data", "_describe_ascq") and mod.stem == "scsi_sense"):
                    continue
                where = "%s.%s.%s" % (mod.stem, cls.name, fn.name)
                # local definitions x = <expr> (last one wins; good enough to resolve `_bc = data[3] + 4`)
                env = {}
                for node in ast.walk(fn):
                    if isinstance(node, ast.Assign) and len(node.targets) == 1 and isinstance(node.targets[0], ast.Name):
                        env[node.targets[0].id] = node.value
                for node in ast.walk(fn):
                    if isinstance(node, ast.While):
                        t = node.test
                        conj = t.values if isinstance(t, ast.BoolOp) and isinstance(t.op, ast.And) else [t]
                        lv, guards = None, set()
                        for cnd in conj:
                            if isinstance(cnd, ast.Call) and dotted(cnd.func) == "len" and len(cnd.args) == 1 and isinstance(cnd.args[0], ast.Name):
                                lv = cnd.args[0].id
                            elif isinstance(cnd, ast.Name):
                                guards.add(cnd.id)
                        if lv is None:
                            unknown.append("%s: while %s" % (where, ast.unparse(t)[:60]))
                            loops.append("(%s, %s, SUnknown)" % (coq_str(where), coq_str(ast.unparse(t)[:60])))
                            continue
                        # unconditional advances  lv = lv[K:]  directly in the loop body
                        strides = []
                        skipped = False      # a `continue` reachable before the advance starts the next iteration without consuming

                        def has_continue(n):
                            if isinstance(n, ast.Continue):
                                return True
                            if isinstance(n, (ast.While, ast.For, ast.FunctionDef, ast.Lambda)):
                                return False     # belongs to an inner loop
                            return any(has_continue(c) for c in ast.iter_child_nodes(n))

                        for st in node.body:
                            if has_continue(st):
                                skipped = True
                            if skipped:
                                continue
                            if isinstance(st, ast.Assign) and len(st.targets) == 1 and isinstance(st.targets[0], ast.Name) \
                                    and st.targets[0].id == lv and isinstance(st.value, ast.Subscript) \
                                    and isinstance(st.value.value, ast.Name) and st.value.value.id == lv \
                                    and isinstance(st.value.slice, ast.Slice) and st.value.slice.upper is None \
                                    and st.value.slice.step is None and st.value.slice.lower is not None:
                                strides.append(classify(st.value.slice.lower, env, guards))
                        # any other assignment to the loop variable (re-slicing from elsewhere) defeats the argument
                        other = 0
                        for sub in ast.walk(node):
                            if isinstance(sub, ast.Assign) and any(isinstance(tg, ast.Name) and tg.id == lv for tg in sub.targets):
                                v = sub.value
                                if not (isinstance(v, ast.Subscript) and isinstance(v.value, ast.Name) and v.value.id == lv
                                        and isinstance(v.slice, ast.Slice) and v.slice.upper is None and v.slice.lower is not None):
                                    other += 1
                        best = "SNone"
                        for sdesc in strides:
                            if sdesc.startswith("SConst") and int(sdesc.split()[1]) >= 1:
                                best = sdesc
                                break
                            if sdesc.startswith("SAddConst") and int(sdesc.split()[1]) >= 1:
                                best = sdesc
                                break
                            if sdesc.startswith("SGuarded"):
                                best = sdesc
                                break
                            best = sdesc
                        if other:
                            best = "SUnknown"
                        if skipped and not (best.startswith("SConst") and int(best.split()[1]) >= 1
                                            or best.startswith("SAddConst") and int(best.split()[1]) >= 1 or best.startswith("SGuarded")):
                            best = "SUnknown"
                            unknown.append("%s: while over %s has a `continue` before the buffer is advanced" % (where, lv))
                        loops.append("(%s, %s, %s)" % (coq_str(where), coq_str(lv), best))
                    if isinstance(node, ast.For):
                        it = node.iter
                        kind = "other"
                        if isinstance(it, ast.Subscript) or isinstance(it, ast.Name):
                            kind = "buffer"
                        elif isinstance(it, ast.Call) and dotted(it.func) == "range":
                            kind = "range"
                        elif isinstance(it, ast.Call) and isinstance(it.func, ast.Attribute) and it.func.attr in ("items", "keys", "values"):
                            kind = "dict"
                        fors.append("(%s, %s)" % (coq_str(where), coq_str(kind)))
                        if kind == "other":
                            unknown.append("%s: for ... in %s" % (where, ast.unparse(it)[:60]))
    lines = [HEADER.format(src="every unmarshall* function of scsi_cdb_*.py and the sense decoder (loop skeletons)", extra=" Model.Loops")]
    lines.append("Definition loops : list (string * string * stride) := [\n  %s].\n" % ";\n  ".join(loops))
    lines.append("Definition for_loops : list (string * string) := [%s].\n" % "; ".join(fors))
    lines.append("Definition unknown_loops : list string := [%s].\n" % "; ".join(coq_str(u) for u in unknown))
    return "\n".join(lines), dict(loops=loops, fors=fors, unknown=unknown)


def gen_parsers(mods, tables=()):
    """the response decoders that are plain applications of decode_bits, and the fixed-stride descriptor lists:
    which tables, which page codes, which header bytes / offsets / strides the code uses (fail-closed: a decoder that
    is expected to have one of these shapes and does not is listed in unknown_parsers)"""
    from translate import HEADER, coq_str, const_int
    whole, lists, unknown = [], [], []
    inq = dict(pre=[], std=[], vpd_pre=[], trunc="", flat=[], other=[])
    disc = []

    def enum_dict(stem, name):
        for m in mods:
            if m.stem == stem:
                for n in m.tree.body:
                    if isinstance(n, ast.Assign) and len(n.targets) == 1 and isinstance(n.targets[0], ast.Name) \
                            and n.targets[0].id == name and isinstance(n.value, ast.Dict):
                        return {k.value: const_int(v) for k, v in zip(n.value.keys, n.value.values) if isinstance(k, ast.Constant)}
        return {}

    VPD = enum_dict("scsi_enum_inquiry", "_vpds")
    DIDT = enum_dict("scsi_enum_readdiscinformation", "disc_information_data_type")

    def decode_call(st, clsqual, buf="data", res="result"):
        """decode_bits(<buf>, cls.<T>, <res>) -> table qual or None"""
        if isinstance(st, ast.Expr) and isinstance(st.value, ast.Call) and dotted(st.value.func) in ("decode_bits", "convert.decode_bits"):
            a = st.value.args
            if len(a) == 3 and isinstance(a[0], ast.Name) and a[0].id == buf and isinstance(a[2], ast.Name) and a[2].id == res \
                    and isinstance(a[1], ast.Attribute) and isinstance(a[1].value, ast.Name) and a[1].value.id == "cls":
                return "%s.%s" % (clsqual, a[1].attr)
        return None

    def is_return(st, res="result"):
        return isinstance(st, ast.Return) and isinstance(st.value, ast.Name) and st.value.id == res

    def strip_doc(body):
        return [b for b in body if not (isinstance(b, ast.Expr) and isinstance(b.value, ast.Constant) and isinstance(b.value.value, str))]

    for mod in mods:
        if not mod.stem.startswith("scsi_cdb_"):
            continue
        for cls in [n for n in mod.tree.body if isinstance(n, ast.ClassDef)]:
            clsqual = "%s.%s" % (mod.stem, cls.name)
            for fn in [f for f in cls.body if isinstance(f, ast.FunctionDef) and f.name == "unmarshall_datain"]:
                where = "%s.unmarshall_datain" % clsqual
                body = strip_doc(fn.body)
                # --- whole-buffer decoders: result = {}; decode_bits(data, cls.T, result)+; return result
                if len(body) >= 3 and isinstance(body[0], ast.Assign) and isinstance(body[0].value, ast.Dict) and not body[0].value.keys \
                        and is_return(body[-1]) and all(decode_call(b, clsqual) for b in body[1:-1]):
                    whole.append((where, [decode_call(b, clsqual) for b in body[1:-1]]))
                    continue
                # --- fixed-stride lists:  X = data[S : scsi_ba_to_int(data[a:b]) + B]   while len(X): ... X = X[K:]
                env = {}
                for node in ast.walk(fn):
                    if isinstance(node, ast.Assign) and len(node.targets) == 1 and isinstance(node.targets[0], ast.Name):
                        env.setdefault(node.targets[0].id, []).append(node.value)
                loops = [n for n in fn.body if isinstance(n, ast.While)]
                if len(loops) == 1 and not any(isinstance(n, ast.While) for n in ast.walk(loops[0]) if n is not loops[0]):
                    lp = loops[0]
                    t = lp.test
                    if isinstance(t, ast.Call) and dotted(t.func) == "len" and isinstance(t.args[0], ast.Name):
                        lv = t.args[0].id
                        inits = [v for v in env.get(lv, []) if isinstance(v, ast.Subscript) and isinstance(v.value, ast.Name)
                                 and v.value.id == "data" and isinstance(v.slice, ast.Slice) and v.slice.upper is not None and v.slice.lower is not None]
                        advs = [st.value for st in lp.body if isinstance(st, ast.Assign) and isinstance(st.targets[0], ast.Name) and st.targets[0].id == lv
                                and isinstance(st.value, ast.Subscript) and isinstance(st.value.value, ast.Name) and st.value.value.id == lv
                                and isinstance(st.value.slice, ast.Slice) and st.value.slice.upper is None]
                        strides = [const_int(a.slice.lower) for a in advs]
                        n_assign = sum(1 for n in ast.walk(lp) if isinstance(n, ast.Assign) and any(isinstance(tg, ast.Name) and tg.id == lv for tg in n.targets))
                        if len(inits) == 1 and len(advs) == 1 and n_assign == 1 and strides[0] is not None:
                            S = const_int(inits[0].slice.lower)
                            up = inits[0].slice.upper
                            lenexpr, B = None, None
                            if isinstance(up, ast.BinOp) and isinstance(up.op, ast.Add):
                                for x, y in ((up.left, up.right), (up.right, up.left)):
                                    if const_int(y) is not None:
                                        lenexpr, B = x, const_int(y)
                            if isinstance(lenexpr, ast.Name) and len(env.get(lenexpr.id, [])) == 1:
                                lenexpr = env[lenexpr.id][0]
                            ab = None
                            if isinstance(lenexpr, ast.Call) and dotted(lenexpr.func) in ("scsi_ba_to_int", "convert.scsi_ba_to_int") \
                                    and isinstance(lenexpr.args[0], ast.Subscript) and isinstance(lenexpr.args[0].value, ast.Name) \
                                    and lenexpr.args[0].value.id == "data" and isinstance(lenexpr.args[0].slice, ast.Slice):
                                sl = lenexpr.args[0].slice
                                a0 = 0 if sl.lower is None else const_int(sl.lower)
                                b0 = const_int(sl.upper) if sl.upper is not None else None
                                if a0 is not None and b0 is not None:
                                    ab = (a0, b0)
                            tabs = [decode_call(st, clsqual, buf=None, res=None) for st in lp.body] if False else []
                            for st in lp.body:
                                if isinstance(st, ast.Expr) and isinstance(st.value, ast.Call) and dotted(st.value.func) in ("decode_bits", "convert.decode_bits"):
                                    a = st.value.args
                                    if isinstance(a[1], ast.Attribute) and isinstance(a[1].value, ast.Name) and a[1].value.id == "cls":
                                        tabs.append("%s.%s" % (clsqual, a[1].attr))
                            if S is not None and B is not None and ab is not None:
                                lists.append((where, S, ab[0], ab[1], B, strides[0], tabs[0] if tabs else ""))
                                continue
                # --- INQUIRY: dispatch on evpd / page code
                if clsqual == "scsi_cdb_inquiry.Inquiry":
                    phase = "pre"
                    for st in body[1:]:
                        t = decode_call(st, clsqual)
                        if t and phase == "pre":
                            inq["pre"].append(t)
                        elif isinstance(st, ast.If) and ast.unparse(st.test) == "evpd == 0":
                            ib = st.body
                            if all(decode_call(b, clsqual) for b in ib[:-1]) and is_return(ib[-1]):
                                inq["std"] = [decode_call(b, clsqual) for b in ib[:-1]]
                            else:
                                unknown.append("%s: evpd == 0 branch" % where)
                            phase = "vpd"
                        elif t and phase == "vpd":
                            inq["vpd_pre"].append(t)
                        elif isinstance(st, ast.Assign) and isinstance(st.targets[0], ast.Name) and st.targets[0].id == "data" and phase == "vpd":
                            inq["trunc"] = ast.unparse(st.value)
                        elif isinstance(st, ast.If) and phase == "vpd":
                            m = re.match(r"result\['page_code'\] == cls\.VPD\.(\w+)$", ast.unparse(st.test))
                            if not m or m.group(1) not in VPD:
                                unknown.append("%s: if %s" % (where, ast.unparse(st.test)[:50]))
                                continue
                            ib = st.body
                            if len(ib) == 2 and decode_call(ib[0], clsqual) and is_return(ib[1]):
                                inq["flat"].append((VPD[m.group(1)], decode_call(ib[0], clsqual)))
                            else:
                                inq["other"].append((VPD[m.group(1)], m.group(1)))
                        else:
                            unknown.append("%s: %s" % (where, ast.unparse(st)[:50]))
                    continue
                # --- READ DISC INFORMATION: dispatch on data[2] >> 5
                if clsqual == "scsi_cdb_readdiscinformation.ReadDiscInformation":
                    for st in body[1:]:
                        if isinstance(st, ast.If):
                            m = re.match(r"data\[2\] >> 5 == cls\.DISC_INFORMATION_DATA_TYPE\.(\w+)$", ast.unparse(st.test))
                            if m and m.group(1) in DIDT and decode_call(st.body[0], clsqual):
                                disc.append((DIDT[m.group(1)], decode_call(st.body[0], clsqual)))
                            else:
                                unknown.append("%s: if %s" % (where, ast.unparse(st.test)[:50]))
                    continue
    # --- lists of self-describing descriptors:  while len(X): ...; X = X[<fixed> + <length field of the descriptor>:]
    tmap = {t["qual"]: dict(t["entries"]) for t in tables}
    var_lists = []
    for mod in mods:
        if not mod.stem.startswith("scsi_cdb_"):
            continue
        for cls in [n for n in mod.tree.body if isinstance(n, ast.ClassDef)]:
            clsqual = "%s.%s" % (mod.stem, cls.name)
            for fn in [f for f in cls.body if isinstance(f, ast.FunctionDef) and f.name == "unmarshall_datain"]:
                where = "%s.unmarshall_datain" % clsqual
                env = {}
                for node in ast.walk(fn):
                    if isinstance(node, ast.Assign) and len(node.targets) == 1 and isinstance(node.targets[0], ast.Name):
                        env.setdefault(node.targets[0].id, []).append(node.value)
                for lp in [n for n in ast.walk(fn) if isinstance(n, ast.While)]:
                    t = lp.test
                    if not (isinstance(t, ast.Call) and dotted(t.func) == "len" and isinstance(t.args[0], ast.Name)):
                        continue
                    lv = t.args[0].id
                    # every advance of the loop variable in this loop (not in nested loops)
                    advs = []

                    def collect(stmts):
                        for st in stmts:
                            if isinstance(st, (ast.While, ast.For)):
                                continue
                            if isinstance(st, ast.Assign) and isinstance(st.targets[0], ast.Name) and st.targets[0].id == lv \
                                    and isinstance(st.value, ast.Subscript) and isinstance(st.value.value, ast.Name) and st.value.value.id == lv \
                                    and isinstance(st.value.slice, ast.Slice) and st.value.slice.upper is None and st.value.slice.lower is not None:
                                advs.append(st.value.slice.lower)
                            for sub in ("body", "orelse"):
                                if hasattr(st, sub) and isinstance(getattr(st, sub), list):
                                    collect(getattr(st, sub))
                    collect(lp.body)
                    if not advs:
                        continue
                    # decode_bits(lv, cls.T, dictvar) calls in the loop: dictvar -> table
                    dtab = {}
                    for node in ast.walk(lp):
                        if isinstance(node, ast.Call) and dotted(node.func) in ("decode_bits", "convert.decode_bits") and len(node.args) == 3 \
                                and isinstance(node.args[0], ast.Name) and node.args[0].id == lv and isinstance(node.args[2], ast.Name) \
                                and isinstance(node.args[1], ast.Attribute) and isinstance(node.args[1].value, ast.Name) and node.args[1].value.id == "cls":
                            dtab[node.args[2].id] = "%s.%s" % (clsqual, node.args[1].attr)

                    def terms(e, depth=0):
                        """-> (constant part, [field (a, b)]) or None"""
                        c = const_int(e)
                        if c is not None:
                            return c, []
                        if isinstance(e, ast.BinOp) and isinstance(e.op, ast.Add):
                            l, r = terms(e.left, depth), terms(e.right, depth)
                            if l is None or r is None:
                                return None
                            return l[0] + r[0], l[1] + r[1]
                        if isinstance(e, ast.Subscript) and isinstance(e.value, ast.Name) and e.value.id == lv and not isinstance(e.slice, ast.Slice) \
                                and const_int(e.slice) is not None:
                            return 0, [(const_int(e.slice), const_int(e.slice) + 1)]
                        if isinstance(e, ast.Call) and dotted(e.func) in ("scsi_ba_to_int", "convert.scsi_ba_to_int") and len(e.args) == 1:
                            a0 = e.args[0]
                            if isinstance(a0, ast.Subscript) and isinstance(a0.value, ast.Name) and a0.value.id == lv and isinstance(a0.slice, ast.Slice) \
                                    and a0.slice.upper is not None and const_int(a0.slice.upper) is not None:
                                lo = 0 if a0.slice.lower is None else const_int(a0.slice.lower)
                                if lo is not None:
                                    return 0, [(lo, const_int(a0.slice.upper))]
                            return terms(a0, depth) if isinstance(a0, ast.Subscript) and isinstance(a0.value, ast.Name) and a0.value.id in dtab else None
                        if isinstance(e, ast.Subscript) and isinstance(e.value, ast.Name) and e.value.id in dtab and isinstance(e.slice, ast.Constant):
                            ent = tmap.get(dtab[e.value.id], {}).get(e.slice.value)
                            if ent and ent[0] == "mask":
                                m, o = ent[1], ent[2]
                                nb = (m.bit_length() + 7) // 8
                                if m == (1 << (8 * nb)) - 1:
                                    return 0, [(o, o + nb)]
                            return None
                        if isinstance(e, ast.Name) and depth < 3:
                            vals = [v for v in env.get(e.id, [])]
                            inloop = [n.value for n in ast.walk(lp) if isinstance(n, ast.Assign) and isinstance(n.targets[0], ast.Name) and n.targets[0].id == e.id]
                            if len(inloop) == 1:
                                return terms(inloop[0], depth + 1)
                            if len(vals) == 1:
                                return terms(vals[0], depth + 1)
                        return None
                    tot_c, tot_f, ok = 0, [], True
                    for a in advs:
                        r = terms(a)
                        if r is None:
                            ok = False
                            break
                        tot_c += r[0]
                        tot_f += r[1]
                    if ok and len(tot_f) == 1:
                        var_lists.append((where, lv, tot_c, tot_f[0][0], tot_f[0][1]))
    sl = lambda xs: "[%s]" % "; ".join(coq_str(x) for x in xs)
    lines = [HEADER.format(src="the unmarshall_datain functions of scsi_cdb_*.py (decoder skeletons)", extra=" Model.Parser Model.VarList")]
    lines.append("Definition whole_parsers : list (string * list string) := [\n  %s].\n" % ";\n  ".join("(%s, %s)" % (coq_str(w), sl(t)) for w, t in whole))
    lines.append("Definition list_parsers : list (string * (list_params * string)) := [\n  %s].\n" % ";\n  ".join(
        "(%s, (mkLP %d %d %d %d %d, %s))" % (coq_str(w), S, a, b, B, k, coq_str(t)) for (w, S, a, b, B, k, t) in lists))
    lines.append("Definition inquiry_pre : list string := %s.\nDefinition inquiry_std : list string := %s.\nDefinition inquiry_vpd_pre : list string := %s.\n"
                 "Definition inquiry_vpd_trunc : string := %s.\n" % (sl(inq["pre"]), sl(inq["std"]), sl(inq["vpd_pre"]), coq_str(inq["trunc"])))
    lines.append("Definition inquiry_vpd_flat : list (N * string) := [%s].\n" % "; ".join("(%d, %s)" % (v, coq_str(t)) for v, t in inq["flat"]))
    lines.append("Definition inquiry_vpd_other : list (N * string) := [%s].\n" % "; ".join("(%d, %s)" % (v, coq_str(t)) for v, t in inq["other"]))
    lines.append("Definition disc_info_dispatch : list (N * string) := [%s].\n" % "; ".join("(%d, %s)" % (v, coq_str(t)) for v, t in disc))
    lines.append("(* decoder, loop variable, descriptor = fixed bytes + value of its own length field at [a, b) *)")
    lines.append("Definition var_lists : list (string * string * vparams) := [\n  %s].\n" % ";\n  ".join(
        "(%s, %s, mkVP %d %d %d)" % (coq_str(w), coq_str(v), c, a, b) for (w, v, c, a, b) in var_lists))
    lines.append("Definition unknown_parsers : list string := %s.\n" % sl(unknown))
    return "\n".join(lines), dict(whole=whole, lists=lists, inquiry=inq, disc=disc, unknown=unknown, var_lists=var_lists)


def gen_builders(mods):
    """what the builders of parameter data store into length fields:  X[a:b] = scsi_int_to_ba(len(X) - c, n)  /  X[i] = len(X) - c
    and the padding helper _pad4_len as an arithmetic expression"""
    from translate import HEADER, coq_str, const_int
    stores, unknown = [], []
    pad = None

    def iexp(e, env):
        """integer expression over the variable n = len(s)"""
        if isinstance(e, ast.Constant) and isinstance(e.value, int):
            return str(e.value)
        if isinstance(e, ast.Name) and e.id in env:
            return env[e.id]
        if isinstance(e, ast.Call) and dotted(e.func) == "len":
            return "n"
        if isinstance(e, ast.BinOp):
            a, b = iexp(e.left, env), iexp(e.right, env)
            if a is None or b is None:
                return None
            op = {ast.Add: "+", ast.Sub: "-", ast.Mod: "mod", ast.Mult: "*"}.get(type(e.op))
            return "(%s %s %s)" % (a, op, b) if op else None
        return None

    for mod in mods:
        if not mod.stem.startswith("scsi_cdb_"):
            continue
        for node in mod.tree.body:
            if isinstance(node, ast.FunctionDef) and node.name == "_pad4_len":
                env, expr = {}, None
                body = [b for b in node.body if not (isinstance(b, ast.Expr) and isinstance(b.value, ast.Constant))]
                ok = True
                conds = []
                for st in body:
                    if isinstance(st, ast.Assign) and isinstance(st.targets[0], ast.Name):
                        env[st.targets[0].id] = iexp(st.value, env)
                    elif isinstance(st, ast.If) and isinstance(st.test, ast.Name) and len(st.body) == 1 and isinstance(st.body[0], ast.Return) and not st.orelse:
                        conds.append((env.get(st.test.id), iexp(st.body[0].value, env)))
                    elif isinstance(st, ast.Return):
                        expr = iexp(st.value, env)
                    else:
                        ok = False
                if ok and expr and all(c and v for c, v in conds):
                    for c, v in reversed(conds):
                        expr = "(if %s =? 0 then %s else %s)" % (c, expr, v)
                    pad = expr
                else:
                    unknown.append("%s._pad4_len" % mod.stem)
        for cls in [n for n in mod.tree.body if isinstance(n, ast.ClassDef)]:
            for fn in [f for f in cls.body if isinstance(f, ast.FunctionDef) and f.name.startswith("marshall")]:
                where = "%s.%s.%s" % (mod.stem, cls.name, fn.name)
                for st in ast.walk(fn):
                    if not (isinstance(st, ast.Assign) and len(st.targets) == 1 and isinstance(st.targets[0], ast.Subscript)
                            and isinstance(st.targets[0].value, ast.Name)):
                        continue
                    buf = st.targets[0].value.id
                    v = st.value
                    if isinstance(v, ast.Call) and dotted(v.func) in ("scsi_int_to_ba", "convert.scsi_int_to_ba") and len(v.args) == 2:
                        v, width = v.args[0], const_int(v.args[1])
                    else:
                        width = 1
                    if not (isinstance(v, ast.BinOp) and isinstance(v.op, ast.Sub) and isinstance(v.left, ast.Call) and dotted(v.left.func) == "len"
                            and isinstance(v.left.args[0], ast.Name) and v.left.args[0].id == buf and const_int(v.right) is not None):
                        continue
                    sl = st.targets[0].slice
                    if isinstance(sl, ast.Slice):
                        a = 0 if sl.lower is None else const_int(sl.lower)
                        b = const_int(sl.upper) if sl.upper is not None else None
                    else:
                        a = const_int(sl)
                        b = a + 1 if a is not None else None
                    if a is None or b is None or width != b - a:
                        unknown.append("%s: %s" % (where, ast.unparse(st)[:60]))
                        continue
                    stores.append((where, a, b, const_int(v.right)))
    # ---- tables used in both directions by the same class, and the size of the buffer they are encoded into
    enum_maps = {}
    for m in mods:
        if m.stem == "scsi_enum_modesense":
            for n in m.tree.body:
                if isinstance(n, ast.Assign) and isinstance(n.targets[0], ast.Name) and isinstance(n.value, ast.Dict) \
                        and n.targets[0].id in ("modepage6bits", "modepage10bits"):
                    enum_maps["MODESENSE6" if n.targets[0].id == "modepage6bits" else "MODESENSE10"] = {
                        k.value: "scsi_enum_modesense.%s" % v.id for k, v in zip(n.value.keys, n.value.values) if isinstance(v, ast.Name)}

    def table_of(node, clsqual):
        if isinstance(node, ast.Attribute) and isinstance(node.value, ast.Name) and node.value.id == "cls":
            return "%s.%s" % (clsqual, node.attr)
        if isinstance(node, ast.Attribute) and isinstance(node.value, ast.Attribute) and isinstance(node.value.value, ast.Name) \
                and node.value.value.id == "cls" and node.value.attr in enum_maps:
            return enum_maps[node.value.attr].get(node.attr)
        return None

    enc_sites, dec_sites = [], []
    for mod in mods:
        if not mod.stem.startswith("scsi_cdb_"):
            continue
        for cls in [n for n in mod.tree.body if isinstance(n, ast.ClassDef)]:
            clsqual = "%s.%s" % (mod.stem, cls.name)
            for fn in [f for f in cls.body if isinstance(f, ast.FunctionDef)]:
                if fn.name.startswith("unmarshall"):
                    for node in ast.walk(fn):
                        if isinstance(node, ast.Call) and dotted(node.func) in ("decode_bits", "convert.decode_bits") and len(node.args) == 3:
                            t = table_of(node.args[1], clsqual)
                            if t:
                                dec_sites.append((clsqual, t))
                if fn.name.startswith("marshall"):
                    def walk(stmts, lens):
                        for st in stmts:
                            if isinstance(st, ast.Assign) and len(st.targets) == 1 and isinstance(st.targets[0], ast.Name):
                                v = st.value
                                if isinstance(v, ast.Call) and dotted(v.func) == "bytearray" and len(v.args) == 1 and const_int(v.args[0]) is not None:
                                    lens[st.targets[0].id] = const_int(v.args[0])
                                elif isinstance(v, ast.Call) and dotted(v.func) == "bytearray" and len(v.args) == 1 and isinstance(v.args[0], ast.BinOp) \
                                        and isinstance(v.args[0].op, ast.Add) and const_int(v.args[0].left) is not None:
                                    lens[st.targets[0].id] = const_int(v.args[0].left)      # bytearray(c + <non-negative>): at least c bytes
                                else:
                                    lens[st.targets[0].id] = None
                            elif isinstance(st, ast.AugAssign) and isinstance(st.target, ast.Name) and isinstance(st.op, ast.Add):
                                v = st.value
                                cur = lens.get(st.target.id)
                                if cur is not None and isinstance(v, ast.Call) and dotted(v.func) == "bytearray" and len(v.args) == 1 and const_int(v.args[0]) is not None:
                                    lens[st.target.id] = cur + const_int(v.args[0])
                                else:
                                    lens[st.target.id] = None
                            elif isinstance(st, ast.Expr) and isinstance(st.value, ast.Call) and dotted(st.value.func) in ("encode_dict", "convert.encode_dict") \
                                    and len(st.value.args) == 3 and isinstance(st.value.args[2], ast.Name):
                                t = table_of(st.value.args[1], clsqual)
                                if t:
                                    enc_sites.append((clsqual, t, lens.get(st.value.args[2].id)))
                            for sub in ("body", "orelse"):
                                if hasattr(st, sub) and isinstance(getattr(st, sub), list) and not isinstance(st, ast.FunctionDef):
                                    walk(getattr(st, sub), dict(lens))       # a branch does not change what the code after it sees
                    walk(fn.body, {})
    decs = set(dec_sites)
    paired, unsized = [], []
    for (c, t, n) in enc_sites:
        if (c, t) in decs:
            if n is None:
                unsized.append("%s %s" % (c, t))
            elif (t, n) not in paired:
                paired.append((t, n))
    lines = [HEADER.format(src="the marshall* functions of scsi_cdb_*.py (length-field stores) and _pad4_len", extra="")]
    lines.append("(* tables a class both encodes (into a buffer of the given size) and decodes *)")
    lines.append("Definition paired_tables : list (string * nat) := [\n  %s].\n" % ";\n  ".join("(%s, %d%%nat)" % (coq_str(t), n) for t, n in paired))
    lines.append("Definition unsized_pairs : list string := [%s].\n" % "; ".join(coq_str(u) for u in sorted(set(unsized))))
    lines.append("(* builder, first byte of the field, one past its last byte, c:  the field is set to len(buffer) - c *)")
    lines.append("Definition length_stores : list (string * (nat * nat * nat)) := [\n  %s].\n" % ";\n  ".join(
        "(%s, (%d%%nat, %d%%nat, %d%%nat))" % (coq_str(w), a, b, c) for w, a, b, c in sorted(set(stores))))
    lines.append("Definition pad4_len (n : N) : N := %s.\n" % (pad or "0"))
    lines.append("Definition unknown_builders : list string := [%s].\n" % "; ".join(coq_str(u) for u in unknown + ([] if pad else ["_pad4_len"])))
    return "\n".join(lines), dict(stores=sorted(set(stores)), pad=pad, unknown=unknown, paired=paired, unsized=sorted(set(unsized)))


def gen_footprint(mods):
    """whole-scan of the command modules for run-time writes to state shared between command objects:
    attributes of class objects, module globals, and the caller's own dict/list arguments"""
    from translate import HEADER, coq_str, src_of
    shared, params = [], []
    classnames = set()
    for m in mods:
        for n in m.tree.body:
            if isinstance(n, ast.ClassDef):
                classnames.add(n.name)
    MUT = {"update", "append", "extend", "pop", "clear", "setdefault", "insert", "remove", "popitem", "sort", "reverse"}
    for mod in mods:
        helper_only = False
        if not (mod.stem == "scsi_command" or mod.stem.startswith("scsi_cdb_")):
            if "/utils/" not in mod.rel.replace(os.sep, "/"):
                continue
            helper_only = True     # the codec helpers: their out-parameters are their contract; only state that outlives a call is flagged

        def scan(fn, owner, helper_only=helper_only):
            pnames = {a.arg for a in fn.args.args + fn.args.kwonlyargs if a.arg not in ("self", "cls")}
            if fn.args.vararg:
                pnames.add(fn.args.vararg.arg)
            if fn.args.kwarg:
                pnames.add(fn.args.kwarg.arg)
            alias = set(pnames)
            local = set()
            where = "%s.%s%s" % (mod.stem, (owner + ".") if owner else "", fn.name)
            for node in ast.walk(fn):
                if isinstance(node, ast.Assign) and len(node.targets) == 1 and isinstance(node.targets[0], ast.Name):
                    local.add(node.targets[0].id)
                    if isinstance(node.value, ast.Name) and node.value.id in alias:
                        alias.add(node.targets[0].id)            # x = param  (an alias, not a copy)
            for node in ast.walk(fn):
                if isinstance(node, ast.Global):
                    shared.append("%s: global %s" % (where, ", ".join(node.names)))
                if helper_only:
                    continue
                tgts = []
                if isinstance(node, ast.Assign):
                    tgts = node.targets
                elif isinstance(node, (ast.AugAssign, ast.AnnAssign)):
                    tgts = [node.target]
                elif isinstance(node, ast.Delete):
                    tgts = node.targets
                for t in tgts:
                    if isinstance(t, ast.Attribute):
                        base = t.value
                        if isinstance(base, ast.Name) and (base.id in classnames or base.id == "cls"):
                            shared.append("%s: %s" % (where, src_of(node, mod.text).split("\n")[0][:90]))
                        if isinstance(base, ast.Call) and dotted(base.func) == "type":
                            shared.append("%s: %s" % (where, src_of(node, mod.text).split("\n")[0][:90]))
                    if isinstance(t, ast.Subscript) and isinstance(t.value, ast.Name) and not isinstance(t.slice, ast.Slice):
                        # (slice assignment fills a byte buffer the library itself allocated; item assignment changes a dict/list)
                        if t.value.id in alias:
                            params.append("%s: %s" % (where, src_of(node, mod.text).split("\n")[0][:90]))
                        elif t.value.id not in local and t.value.id not in ("self",):
                            shared.append("%s: %s" % (where, src_of(node, mod.text).split("\n")[0][:90]))
                    if isinstance(t, ast.Subscript) and isinstance(t.value, ast.Attribute) and isinstance(t.value.value, ast.Name) \
                            and (t.value.value.id in classnames or t.value.value.id == "cls"):
                        shared.append("%s: %s" % (where, src_of(node, mod.text).split("\n")[0][:90]))
                if isinstance(node, ast.Call):
                    d = dotted(node.func)
                    if d == "setattr" and node.args and isinstance(node.args[0], ast.Name) \
                            and (node.args[0].id in classnames or node.args[0].id == "cls"):
                        shared.append("%s: %s" % (where, src_of(node, mod.text)[:90]))
                    if isinstance(node.func, ast.Attribute) and node.func.attr in MUT and isinstance(node.func.value, ast.Name):
                        if node.func.value.id in pnames:
                            params.append("%s: %s" % (where, src_of(node, mod.text).split("\n")[0][:90]))
            for d in fn.decorator_list:
                dn = dotted(d.func if isinstance(d, ast.Call) else d) or ""
                if dn.split(".")[-1] in ("lru_cache", "cache", "cached_property", "memoize"):
                    shared.append("%s: @%s   (results are shared between all callers)" % (where, dn))
            # a mutable default argument that is changed in place is state shared by every later call
            pos_args = fn.args.args
            mdef = set()
            for a, d in list(zip(pos_args[len(pos_args) - len(fn.args.defaults):], fn.args.defaults)) + \
                    [(a, d) for a, d in zip(fn.args.kwonlyargs, fn.args.kw_defaults) if d is not None]:
                if isinstance(d, (ast.List, ast.Dict, ast.Set)) or (isinstance(d, ast.Call) and dotted(d.func) in ("bytearray", "list", "dict", "set")):
                    mdef.add(a.arg)
            for node in ast.walk(fn):
                if isinstance(node, ast.AugAssign) and isinstance(node.target, ast.Name) and node.target.id in alias:
                    line = "%s: %s" % (where, src_of(node, mod.text).split("\n")[0][:90])
                    if node.target.id in mdef:
                        shared.append(line + "   (mutable default argument changed in place)")
                    else:
                        params.append(line)
                if isinstance(node, ast.Call) and isinstance(node.func, ast.Attribute) and node.func.attr in MUT \
                        and isinstance(node.func.value, ast.Name) and node.func.value.id in mdef:
                    shared.append("%s: %s   (mutable default argument changed in place)" % (where, src_of(node, mod.text).split("\n")[0][:90]))
                if isinstance(node, (ast.Assign, ast.Delete)):
                    for t in node.targets:
                        if isinstance(t, ast.Subscript) and isinstance(t.value, ast.Name) and t.value.id in mdef:
                            shared.append("%s: %s   (mutable default argument changed in place)" % (where, src_of(node, mod.text).split("\n")[0][:90]))

        for node in mod.tree.body:
            if isinstance(node, ast.FunctionDef):
                scan(node, "")
            if isinstance(node, ast.ClassDef):
                for f in node.body:
                    if isinstance(f, ast.FunctionDef):
                        scan(f, node.name)
        if helper_only:
            continue
        # ---- class-level mutable objects (one object for ALL instances) that are changed in place at run time through any receiver
        # ---- (self.X.update(..), self.X[k] = v, cls.X.append(..)): state shared between command objects
        for cnode in mod.tree.body:
            if not isinstance(cnode, ast.ClassDef):
                continue
            cmut = set()
            for st in cnode.body:
                tg = st.targets if isinstance(st, ast.Assign) else ([st.target] if isinstance(st, ast.AnnAssign) and st.value is not None else [])
                v = getattr(st, "value", None)
                if tg and (isinstance(v, (ast.Dict, ast.List, ast.Set, ast.ListComp, ast.DictComp, ast.SetComp))
                           or (isinstance(v, ast.Call) and dotted(v.func) in ("dict", "list", "set", "bytearray", "collections.OrderedDict",
                                                                                 "OrderedDict", "defaultdict", "collections.defaultdict"))):
                    for t in tg:
                        if isinstance(t, ast.Name):
                            cmut.add(t.id)
            rebound = set()     # instance attributes of the same name bound afresh in __init__ hide the class-level object
            for f in cnode.body:
                if isinstance(f, ast.FunctionDef) and f.name == "__init__":
                    for n2 in ast.walk(f):
                        if isinstance(n2, ast.Assign):
                            for t in n2.targets:
                                if isinstance(t, ast.Attribute) and dotted(t.value) == "self":
                                    rebound.add(t.attr)
            cmut -= rebound
            if not cmut:
                continue
            for f in cnode.body:
                if not isinstance(f, ast.FunctionDef):
                    continue
                where = "%s.%s.%s" % (mod.stem, cnode.name, f.name)
                for n2 in ast.walk(f):
                    hit = None
                    if isinstance(n2, ast.Call) and isinstance(n2.func, ast.Attribute) and n2.func.attr in MUT \
                            and isinstance(n2.func.value, ast.Attribute) and n2.func.value.attr in cmut:
                        hit = n2
                    tg = n2.targets if isinstance(n2, (ast.Assign, ast.Delete)) else ([n2.target] if isinstance(n2, ast.AugAssign) else [])
                    for t in tg:
                        if isinstance(t, ast.Subscript) and isinstance(t.value, ast.Attribute) and t.value.attr in cmut:
                            hit = n2
                        if isinstance(n2, ast.AugAssign) and isinstance(t, ast.Attribute) and t.attr in cmut:
                            hit = n2
                    if hit is not None:
                        shared.append("%s: %s   (class-level object shared by all instances, changed in place)" % (
                            where, src_of(hit, mod.text).split("\n")[0][:90]))
        # ---- a command class that replaces one of the base class's own methods / properties: the models of SCSICommand (encode, decode,
        # ---- unmarshall, buffers) no longer describe that class
        if mod.stem != "scsi_command":
            base_api = {"unmarshall", "marshall_cdb", "unmarshall_cdb", "build_cdb", "init_cdb", "print_cdb", "cdb", "datain", "dataout", "result",
                        "opcode", "pagecode", "sense", "raw_sense_data", "__repr__", "__getattr__", "__getattribute__", "__setattr__"}
            for cnode in mod.tree.body:
                if isinstance(cnode, ast.ClassDef) and cnode.bases:
                    for f in cnode.body:
                        if isinstance(f, ast.FunctionDef) and f.name in base_api:
                            shared.append("%s.%s.%s: overrides a method of SCSICommand" % (mod.stem, cnode.name, f.name))
    # a helper that mutates its parameter is harmless when every call site hands it a fresh copy
    # (n = dict(...), n = x.copy(), n = {...} in the calling function)
    def fresh_at_all_call_sites(fname, pidx):
        sites = 0
        for mod in mods:
            for fn in ast.walk(mod.tree):
                if not isinstance(fn, ast.FunctionDef):
                    continue
                fresh_names = set()
                for node in ast.walk(fn):
                    if isinstance(node, ast.Assign) and len(node.targets) == 1 and isinstance(node.targets[0], ast.Name):
                        v = node.value
                        if isinstance(v, ast.Dict) or (isinstance(v, ast.Call) and (dotted(v.func) in ("dict", "copy.deepcopy", "copy.copy", "list")
                                                       or (isinstance(v.func, ast.Attribute) and v.func.attr == "copy"))):
                            fresh_names.add(node.targets[0].id)
                for node in ast.walk(fn):
                    if isinstance(node, ast.Call) and isinstance(node.func, ast.Attribute) and node.func.attr == fname:
                        sites += 1
                        if pidx >= len(node.args) or not (isinstance(node.args[pidx], ast.Name) and node.args[pidx].id in fresh_names):
                            return False
        return sites > 0
    kept = []
    for entry in params:
        where, stmt = entry.split(": ", 1)
        fname = where.split(".")[-1]
        target = stmt.split("[")[0].split(".")[0].strip()
        idx = None
        for mod in mods:
            for fn in ast.walk(mod.tree):
                if isinstance(fn, ast.FunctionDef) and fn.name == fname:
                    names = [a.arg for a in fn.args.args if a.arg not in ("self", "cls")]
                    if target in names:
                        idx = names.index(target)
        if idx is not None and fresh_at_all_call_sites(fname, idx):
            continue
        kept.append(entry)
    params = kept
    lines = [HEADER.format(src="scsi_command.py and every scsi_cdb_*.py (footprint scan)", extra="")]
    lines.append("Definition shared_writes : list string := [%s].\n" % ";\n  ".join(coq_str(x) for x in shared))
    lines.append("Definition param_mutations : list string := [%s].\n" % ";\n  ".join(coq_str(x) for x in params))
    return "\n".join(lines), dict(shared_writes=shared, param_mutations=params)


EXPECTED_COMMAND_METHODS = {
    "__init__": ("self, opcode, dataout_alloclen, datain_alloclen", """
SCSICommand.init_cdb(opcode)
self.dataout = bytearray(dataout_alloclen)
self.datain = bytearray(datain_alloclen)
self.result = {}
self.page_code = None
self.opcode = opcode
"""),
    "__repr__": ("self", "return self.__class__.__name__"),
    "print_cdb": ("self", """
for b in self._cdb:
    print("0x%02X " % b)
"""),
    "marshall_cdb": ("cls, cdb", """
result = cls.init_cdb(cdb["opcode"])
encode_dict(cdb, cls._cdb_bits, result)
return result
"""),
    "unmarshall_cdb": ("cls, cdb", """
result = {}
decode_bits(cdb, cls._cdb_bits, result)
return result
"""),
    "build_cdb": ("self, **kwargs", """
cdb = {key: kwargs[key] for key in kwargs.keys()}
return self.marshall_cdb(cdb)
"""),
    "unmarshall": ("self, **kwargs", """
try:
    if getattr(self, "unmarshall_datain"):
        self.result = self.unmarshall_datain(self.datain, **kwargs)
except AttributeError:
    raise NotImplementedError("%s has no method to unmarshall datain data" % self)
"""),
}
COMMAND_DECORATORS = {"marshall_cdb": ["classmethod"], "unmarshall_cdb": ["classmethod"], "init_cdb": ["staticmethod"]}
COMMAND_PROPERTIES = {"result", "cdb", "datain", "dataout", "sense", "raw_sense_data", "pagecode", "opcode", "page_code"}



# class Enum (pyscsi/utils/enum.py) is hand-modelled (Model/Enum.v); what is regenerated is the filter of `keys`.  Every other member must have
# exactly the text the model was written for, and the metaclass must have no further member (a __getattr__ / __getattribute__ / __call__
# would change what a lookup of a name returns without changing any table)
EXPECTED_ENUM_METHODS = {
    "__new__": ("cls, *args: Any, **kwargs: Any", """
tmp: Dict[str, Any] = {}
if len(args) == 1 and type(args[0]).__name__ == "dict":
    tmp.update(args[0])
elif kwargs:
    tmp.update(**kwargs)
else:
    raise NotSupportedArgumentError(
        "use either as dict or provide keyword arguments"
    )
return super().__new__(cls, cls.__name__, (), tmp)
"""),
    "__init__": ("cls, *args: Any, **kwargs: Any", """
super().__init__(cls.__name__, args, kwargs)
"""),
    "__getitem__": ("cls, value: str", """
for key in cls.keys:
    if getattr(cls, key) == value:
        return key
return ""
"""),
    "add": ("cls, key: str, value: Any", """
if key in cls.keys:
    raise KeyError(f"key {key} already exist")
setattr(cls, key, value)
"""),
    "remove": ("cls, key: str", """
try:
    delattr(cls, key)
except (AttributeError, KeyError) as ex:
    raise KeyError(f"Key {ex} not found") from ex
"""),
}


def enum_class_inventory(mod):
    """-> list of everything in class Enum that is not exactly what Model/Enum.v models"""
    from translate import src_of
    unknown = []
    classes = [n for n in mod.tree.body if isinstance(n, ast.ClassDef)]
    cls = next((n for n in classes if n.name == "Enum"), None)
    if cls is None:
        return ["class Enum not found"]
    if [dotted(b) for b in cls.bases] != ["type"] or cls.keywords or cls.decorator_list:
        unknown.append("Enum: bases / keywords / decorators %s" % " ".join(src_of(cls, mod.text).split())[:80])

    def norm(args, body):
        t = ast.parse("def f(%s):\n%s" % (args, "\n".join("    " + ln for ln in body.strip("\n").split("\n"))))
        return ast.dump(t.body[0].args), [ast.dump(x) for x in t.body[0].body]
    seen = set()
    for b in cls.body:
        if isinstance(b, ast.Expr) and isinstance(b.value, ast.Constant) and isinstance(b.value.value, str):
            continue
        if not isinstance(b, ast.FunctionDef):
            unknown.append("Enum: class-level statement %s" % " ".join(src_of(b, mod.text).split())[:100])
            continue
        decos = [dotted(d.func if isinstance(d, ast.Call) else d) or "?" for d in b.decorator_list]
        body = [st for st in b.body if not (isinstance(st, ast.Expr) and isinstance(st.value, ast.Constant) and isinstance(st.value.value, str))]
        if b.name in seen:
            unknown.append("Enum.%s: defined twice" % b.name)
        seen.add(b.name)
        if b.name == "keys":
            if decos != ["property"] or [a.arg for a in b.args.args] != ["cls"]:
                unknown.append("Enum.keys: decorators / parameters %s" % decos)
            continue                # its filter is regenerated (enum_keys_filter)
        exp = EXPECTED_ENUM_METHODS.get(b.name)
        if exp is None:
            unknown.append("Enum.%s: a member Model/Enum.v does not know" % b.name)
            continue
        if decos:
            unknown.append("Enum.%s: decorators %s" % (b.name, decos))
            continue
        eargs, ebody = norm(*exp)
        if ast.dump(b.args) != eargs or [ast.dump(x) for x in body] != ebody:
            unknown.append("Enum.%s: not the text Model/Enum.v was written for: %s" % (b.name, " ".join(src_of(b, mod.text).split())[:110]))
    for name in list(EXPECTED_ENUM_METHODS) + ["keys"]:
        if name not in seen:
            unknown.append("Enum.%s: missing" % name)
    # nothing else in the module may touch the class after its definition
    for n in mod.tree.body:
        if n is cls or isinstance(n, (ast.Import, ast.ImportFrom)):
            continue
        if isinstance(n, ast.Expr) and isinstance(n.value, ast.Constant):
            continue
        unknown.append("enum.py: module-level statement %s" % " ".join(src_of(n, mod.text).split())[:100])
    return unknown


def command_base_inventory(mod):
    """-> list of everything in class SCSICommand that is not exactly what Model/Command.v models"""
    from translate import src_of
    unknown = []
    cls = next((n for n in mod.tree.body if isinstance(n, ast.ClassDef) and n.name == "SCSICommand"), None)
    if cls is None:
        return ["class SCSICommand not found"]

    def norm(args, body):
        t = ast.parse("def f(%s):\n%s" % (args, "\n".join("    " + ln for ln in body.strip("\n").split("\n"))))
        return ast.dump(t.body[0].args), [ast.dump(x) for x in t.body[0].body]
    seen = {}
    for b in cls.body:
        if isinstance(b, ast.Expr) and isinstance(b.value, ast.Constant) and isinstance(b.value.value, str):
            continue
        if isinstance(b, ast.Assign) or (isinstance(b, ast.AnnAssign) and b.value is not None):
            v = b.value
            tgts = b.targets if isinstance(b, ast.Assign) else [b.target]
            if isinstance(v, ast.Constant) and (v.value is None or isinstance(v.value, (int, str, bool, bytes))) and all(isinstance(t, ast.Name) for t in tgts):
                continue            # an immutable class-level default
            if isinstance(v, ast.Dict) and not v.keys and all(isinstance(t, ast.Name) and t.id == "_cdb_bits" for t in tgts):
                continue            # the empty layout of the base class (never written at run time: Gen/Footprint.v)
            unknown.append("SCSICommand: class-level object %s" % " ".join(src_of(b, mod.text).split())[:100])
            continue
        if not isinstance(b, ast.FunctionDef):
            unknown.append("SCSICommand: class-level statement %s" % " ".join(src_of(b, mod.text).split())[:100])
            continue
        decos = [dotted(d.func if isinstance(d, ast.Call) else d) or "?" for d in b.decorator_list]
        body = [st for st in b.body if not (isinstance(st, ast.Expr) and isinstance(st.value, ast.Constant) and isinstance(st.value.value, str))]
        seen[b.name] = seen.get(b.name, 0) + 1
        if b.name == "init_cdb":
            if decos != ["staticmethod"]:
                unknown.append("SCSICommand.init_cdb: decorators %s" % decos)
            continue                # its range table is regenerated and compared with SAM (C14)
        if b.name in COMMAND_PROPERTIES and decos == ["property"]:
            ok = len(body) == 1 and isinstance(body[0], ast.Return) and isinstance(body[0].value, ast.Attribute) and dotted(body[0].value.value) == "self" \
                and body[0].value.attr.startswith("_")
            if not ok:
                unknown.append("SCSICommand.%s (getter): %s" % (b.name, " ".join(src_of(b, mod.text).split())[:100]))
            continue
        if b.name in COMMAND_PROPERTIES and len(decos) == 1 and decos[0].endswith(".setter"):
            ok = len(body) == 1 and isinstance(body[0], ast.Assign) and len(body[0].targets) == 1 and isinstance(body[0].targets[0], ast.Attribute) \
                and dotted(body[0].targets[0].value) == "self" and body[0].targets[0].attr.startswith("_") and isinstance(body[0].value, ast.Name) \
                and [a.arg for a in b.args.args] == ["self", body[0].value.id]
            if not ok:
                unknown.append("SCSICommand.%s (setter): %s" % (b.name, " ".join(src_of(b, mod.text).split())[:100]))
            continue
        exp = EXPECTED_COMMAND_METHODS.get(b.name)
        if exp is None:
            unknown.append("SCSICommand.%s: a member Model/Command.v does not know" % b.name)
            continue
        if decos != COMMAND_DECORATORS.get(b.name, []):
            unknown.append("SCSICommand.%s: decorators %s" % (b.name, decos))
            continue
        eargs, ebody = norm(*exp)
        if ast.dump(b.args) != eargs or [ast.dump(x) for x in body] != ebody:
            unknown.append("SCSICommand.%s: not the text Model/Command.v was written for: %s" % (b.name, " ".join(src_of(b, mod.text).split())[:110]))
    for name in EXPECTED_COMMAND_METHODS:
        if name not in seen:
            unknown.append("SCSICommand.%s: missing" % name)
    return unknown


def gen_misc(mods):
    from translate import HEADER, coq_str, const_int, src_of
    lines = [HEADER.format(src="scsi_command.py (init_cdb), scsi.py (attach table), iscsi_device.py (status dispatch)",
                           extra=" Model.Command Model.Enum Model.Exec Model.Device Model.Sx Model.SenseStep Gen.Tables")]
    info = {}
    unknown = []
    # ---- SCSICommand.init_cdb: if lo <= opcode.value <= hi: cdb = bytearray(n) | raise ... else: raise
    mod = next(m for m in mods if m.stem == "scsi_command")
    mod_cmd = mod
    fn = None
    for node in ast.walk(mod.tree):
        if isinstance(node, ast.FunctionDef) and node.name == "init_cdb":
            fn = node
    ranges, else_raises = [], False
    ok = fn is not None
    if ok:
        body = [s for s in fn.body if not (isinstance(s, ast.Expr) and isinstance(s.value, ast.Constant))]
        # optional first statement:  value = getattr(opcode, "value", opcode)   (accepts an OpCode object or its value)
        valvar = None
        if body and isinstance(body[0], ast.Assign) and len(body[0].targets) == 1 and isinstance(body[0].targets[0], ast.Name) \
                and isinstance(body[0].value, ast.Call) and dotted(body[0].value.func) == "getattr" and len(body[0].value.args) == 3 \
                and isinstance(body[0].value.args[0], ast.Name) and body[0].value.args[0].id == fn.args.args[0].arg \
                and isinstance(body[0].value.args[1], ast.Constant) and body[0].value.args[1].value == "value" \
                and isinstance(body[0].value.args[2], ast.Name) and body[0].value.args[2].id == fn.args.args[0].arg:
            valvar = body[0].targets[0].id
            body = body[1:]
        if not (len(body) == 2 and isinstance(body[0], ast.If) and isinstance(body[1], ast.Return)
                and isinstance(body[1].value, ast.Name)):
            ok = False
        else:
            retvar = body[1].value.id
            node = body[0]
            while True:
                t = node.test
                rng = None
                mid = t.comparators[0] if isinstance(t, ast.Compare) and t.comparators else None
                is_value = (isinstance(mid, ast.Attribute) and mid.attr == "value" and isinstance(mid.value, ast.Name)
                            and mid.value.id == fn.args.args[0].arg) or (valvar is not None and isinstance(mid, ast.Name) and mid.id == valvar)
                if isinstance(t, ast.Compare) and len(t.ops) == 2 and all(isinstance(o, ast.LtE) for o in t.ops) and is_value:
                    lo, hi = const_int(t.left), const_int(t.comparators[1])
                    if lo is not None and hi is not None and lo >= 0 and hi >= 0:
                        rng = (lo, hi)
                act = branch_action(node.body, retvar)
                if rng is None or act is None:
                    ok = False
                    unknown.append("init_cdb: " + src_of(node.test, mod.text))
                    break
                ranges.append((rng[0], rng[1], act[1]))
                if len(node.orelse) == 1 and isinstance(node.orelse[0], ast.If):
                    node = node.orelse[0]
                    continue
                if node.orelse:
                    act = branch_action(node.orelse, retvar)
                    if act is None or act[1] is not None:
                        ok = False
                        unknown.append("init_cdb else branch")
                    else:
                        else_raises = True
                break
    if not ok:
        unknown.append("init_cdb: unrecognised shape")
        ranges, else_raises = [], False
    lines.append("Definition init_cdb_ranges : list cdb_range := [" + "; ".join(
        "(%d, %d, %s)" % (lo, hi, "Some %d%%nat" % n if n is not None else "None") for lo, hi, n in ranges) + "].\n")
    lines.append("Definition init_cdb_else_raises : bool := %s.\n" % ("true" if else_raises else "false"))
    info["init_cdb"] = dict(ranges=ranges, else_raises=else_raises)
    # ---- Enum.keys: the filter of the list comprehension over vars(cls).items()
    emod = next(m for m in mods if m.rel.endswith("utils/enum.py"))
    filt = None
    for node in ast.walk(emod.tree):
        if isinstance(node, ast.FunctionDef) and node.name == "keys":
            for sub in ast.walk(node):
                if isinstance(sub, ast.ListComp) and len(sub.generators) == 1:
                    g = sub.generators[0]
                    it = g.iter
                    ok_iter = (isinstance(it, ast.Call) and isinstance(it.func, ast.Attribute) and it.func.attr == "items"
                               and isinstance(it.func.value, ast.Call) and isinstance(it.func.value.func, ast.Name)
                               and it.func.value.func.id == "vars")
                    if ok_iter and isinstance(g.target, ast.Tuple) and len(g.target.elts) == 2 \
                            and isinstance(sub.elt, ast.Name) and sub.elt.id == g.target.elts[0].id:
                        kname, vname = g.target.elts[0].id, g.target.elts[1].id
                        conds = [enum_filter(c, kname, vname, emod.text, unknown) for c in g.ifs]
                        filt = "FTrue"
                        for c in conds:
                            filt = c if filt == "FTrue" else "(FAnd %s %s)" % (filt, c)
    if filt is None:
        unknown.append("Enum.keys: unrecognised shape")
        filt = "(FUnknown \"keys\")"
    lines.append("Definition enum_keys_filter : fexpr := %s.\n" % filt)
    info["enum_keys_filter"] = filt
    en_unknown = enum_class_inventory(emod)
    lines.append("Definition enum_class_unknown : list string := [%s].\n" % "; ".join(coq_str(u[:150]) for u in en_unknown))
    info["enum_class_unknown"] = en_unknown
    # ---- ISCSIDevice.execute status dispatch, SCSIDevice.execute CheckConditionError handler
    imod = next(m for m in mods if m.stem == "iscsi_device")
    dmod = next(m for m in mods if m.stem == "scsi_device")
    prog, final, iunk = exec_iscsi(imod)
    handler, hunk = exec_sgio(dmod)
    unknown += iunk + hunk
    lines.append("Definition iscsi_status_prog : iscsi_prog := [\n  %s].\n" % ";\n  ".join(
        "(%s, [%s])" % (coq_str(n), "; ".join(acts)) for n, acts in prog))
    lines.append("Definition iscsi_final : option exn := %s.\n" % final)
    lines.append("Definition sgio_cc_handler : list gact := [%s].\n" % "; ".join(handler))
    xf, dirn, lenn = getattr(exec_iscsi, "xfer", ([], None, None))
    lines.append("(* ISCSIDevice.execute before the status dispatch: direction / expected transfer length, Task and command arguments *)")
    lines.append("Definition iscsi_xfer_prog : list xstep := [\n  %s].\n" % ";\n  ".join(xf))
    lines.append("Definition iscsi_xfer_vars : string * string := (%s, %s).\n" % (coq_str(dirn or "?"), coq_str(lenn or "?")))
    sg = [n for n in ast.walk(dmod.tree) if isinstance(n, ast.Call) and dotted(n.func) == "sgio.execute"]
    lines.append("Definition sgio_execute_args : list (list string) := [%s].\n" % "; ".join(
        "[%s]" % "; ".join(coq_str(src_of(a, dmod.text)) for a in c.args) for c in sg))
    # every store either execute() performs on the command object it was handed: (function, attribute, "rebind" | "content" | "other")
    stores = []
    for m2, cname in ((dmod, "SCSIDevice"), (imod, "ISCSIDevice")):
        for node in m2.tree.body:
            if isinstance(node, ast.ClassDef) and node.name == cname:
                fn = next((x for x in node.body if isinstance(x, ast.FunctionDef) and x.name == "execute"), None)
                if fn is None or len(fn.args.args) < 2:
                    stores.append((cname, "?", "other"))
                    continue
                cn = fn.args.args[1].arg
                for n in ast.walk(fn):
                    tg = []
                    if isinstance(n, ast.Assign):
                        tg = list(n.targets)
                    elif isinstance(n, (ast.AugAssign, ast.AnnAssign)):
                        tg = [n.target]
                    elif isinstance(n, ast.Delete):
                        tg = list(n.targets)
                    elif isinstance(n, ast.Call) and (dotted(n.func) or "") in ("setattr", "delattr") and n.args \
                            and isinstance(n.args[0], ast.Name) and n.args[0].id == cn:
                        stores.append((cname, "?", "other"))
                    elif isinstance(n, ast.Call) and isinstance(n.func, ast.Attribute) and isinstance(n.func.value, ast.Attribute) \
                            and isinstance(n.func.value.value, ast.Name) and n.func.value.value.id == cn \
                            and n.func.attr in ("extend", "append", "clear", "pop", "insert", "remove", "reverse", "__init__"):
                        stores.append((cname, n.func.value.attr, "resize"))
                    for t in tg:
                        for t1 in (t.elts if isinstance(t, (ast.Tuple, ast.List)) else [t]):
                            if isinstance(t1, ast.Attribute) and isinstance(t1.value, ast.Name) and t1.value.id == cn:
                                stores.append((cname, t1.attr, "rebind"))
                            elif isinstance(t1, ast.Subscript) and isinstance(t1.value, ast.Attribute) \
                                    and isinstance(t1.value.value, ast.Name) and t1.value.value.id == cn:
                                stores.append((cname, t1.value.attr, "resize" if isinstance(t1.slice, ast.Slice) else "content"))
                            elif isinstance(t1, ast.Name) and t1.id == cn:
                                stores.append((cname, "?", "other"))
    lines.append("(* every store the two execute() functions perform on the command object they were handed *)")
    lines.append("Definition exec_cmd_stores : list (string * string * string) := [%s].\n" % "; ".join(
        "(%s, %s, %s)" % (coq_str(a), coq_str(b), coq_str(c)) for a, b, c in stores))
    info["exec_cmd_stores"] = stores
    info["iscsi_prog"] = [[n, acts] for n, acts in prog]
    info["sgio_handler"] = handler
    # ---- SCSIDevice replug handling
    rl, runk, rinfo = replug_tables(mods)
    lines += rl
    unknown += runk
    info["replug"] = rinfo
    # ---- init_device prefix dispatch and the constructor guards of the two device classes
    idl, idunk, idinfo = init_device_tables(mods)
    lines += idl
    unknown += idunk
    info["init_device"] = idinfo
    # ---- SCSICheckCondition.__init__ / __str__ / _describe_ascq
    sinfo, slines, sunk = sense_class(mods)
    lines += slines
    unknown += sunk
    info["sense_class"] = sinfo
    # ---- class SCSICommand: its codec methods are hand-modelled (Model/Command.v); they must have exactly the text the model was written
    # ---- for, and the class nothing else that could carry state from one command to another (anything else is reported as unknown)
    cb_unknown = command_base_inventory(mod_cmd)
    lines.append("Definition command_base_unknown : list string := [%s].\n" % "; ".join(coq_str(u[:150]) for u in cb_unknown))
    info["command_base_unknown"] = cb_unknown
    lines.append("Definition unknown_misc : list string := [" + "; ".join(coq_str(u) for u in unknown) + "].\n")
    info["unknown"] = unknown
    return "\n".join(lines), info


def replug_tables(mods):
    """the shape of SCSIDevice.execute's replug prologue, _is_replugged, open, close, __exit__"""
    from translate import src_of
    mod = next(m for m in mods if m.stem == "scsi_device")
    cls = next((n for n in mod.tree.body if isinstance(n, ast.ClassDef) and n.name == "SCSIDevice"), None)
    fns = {f.name: f for f in cls.body if isinstance(f, ast.FunctionDef)} if cls else {}
    unknown, lines, info = [], [], {}

    def body_of(fn):
        return [st for st in fn.body if not (isinstance(st, ast.Expr) and isinstance(st.value, ast.Constant))]

    def is_call(st, name):
        return isinstance(st, ast.Expr) and isinstance(st.value, ast.Call) and dotted(st.value.func) == name and not st.value.args
    kind = "PUnknown"
    ex = fns.get("execute")
    if ex:
        b = body_of(ex)
        pro = b[:-1]          # everything before the final try: sgio.execute(...)
        if not pro:
            kind = "PNone"
        elif len(pro) == 1 and isinstance(pro[0], ast.If) and not pro[0].orelse:
            t = pro[0].test
            cond_ok = (isinstance(t, ast.BoolOp) and isinstance(t.op, ast.And) and len(t.values) == 2
                       and dotted(t.values[0]) == "self._detect_replugged" and isinstance(t.values[1], ast.Call)
                       and dotted(t.values[1].func) == "self._is_replugged")
            ib = pro[0].body
            if cond_ok and len(ib) == 1 and isinstance(ib[0], ast.Try) and not ib[0].handlers and not ib[0].orelse \
                    and len(ib[0].body) == 1 and is_call(ib[0].body[0], "self.close") \
                    and len(ib[0].finalbody) == 1 and is_call(ib[0].finalbody[0], "self.open"):
                kind = "PTryCloseFinallyOpen"
            elif cond_ok and len(ib) == 2 and is_call(ib[0], "self.close") and is_call(ib[1], "self.open"):
                kind = "PCloseOpen"
            elif cond_ok and len(ib) == 1 and is_call(ib[0], "self.open"):
                kind = "POpenOnly"
    if kind == "PUnknown":
        unknown.append("SCSIDevice.execute: unrecognised replug prologue")
    # _is_replugged: ino = get_inode(self._file_name); return ino != self._ino
    cmp_ne = False
    ir = fns.get("_is_replugged")
    if ir:
        b = body_of(ir)
        if len(b) == 2 and isinstance(b[0], ast.Assign) and isinstance(b[0].value, ast.Call) and dotted(b[0].value.func) == "get_inode" \
                and dotted(b[0].value.args[0]) == "self._file_name" and isinstance(b[1], ast.Return) and isinstance(b[1].value, ast.Compare) \
                and len(b[1].value.ops) == 1 and isinstance(b[1].value.ops[0], ast.NotEq):
            names = {dotted(b[1].value.left), dotted(b[1].value.comparators[0])}
            cmp_ne = names == {b[0].targets[0].id, "self._ino"}
    if not cmp_ne:
        unknown.append("SCSIDevice._is_replugged: unrecognised shape")
    # open: self._file = open(self._file_name, ...); self._ino = get_inode(self._file_name)
    open_ok = False
    op = fns.get("open")
    if op:
        b = body_of(op)
        open_ok = (len(b) == 2 and isinstance(b[0], ast.Assign) and dotted(b[0].targets[0]) == "self._file"
                   and isinstance(b[0].value, ast.Call) and dotted(b[0].value.func) == "open"
                   and dotted(b[0].value.args[0]) == "self._file_name"
                   and isinstance(b[1], ast.Assign) and dotted(b[1].targets[0]) == "self._ino"
                   and isinstance(b[1].value, ast.Call) and dotted(b[1].value.func) == "get_inode")
    if not open_ok:
        unknown.append("SCSIDevice.open: unrecognised shape")
    close_ok = False
    cl = fns.get("close")
    if cl:
        b = body_of(cl)
        close_ok = len(b) == 1 and is_call(b[0], "self._file.close")
    if not close_ok:
        unknown.append("SCSIDevice.close: unrecognised shape")
    exit_ok = False
    xt = fns.get("__exit__")
    if xt:
        b = body_of(xt)
        exit_ok = len(b) == 1 and is_call(b[0], "self.close")
    if not exit_ok:
        unknown.append("SCSIDevice.__exit__: unrecognised shape")
    lines.append("Definition replug_prologue : prologue := %s.\n" % kind)
    lines.append("Definition replug_shapes_ok : bool := %s.\n" % ("true" if (cmp_ne and open_ok and close_ok and exit_ok) else "false"))
    info.update(kind=kind, cmp_ne=cmp_ne, open_ok=open_ok, close_ok=close_ok, exit_ok=exit_ok)
    return lines, unknown, info


def prefix_test(t, var):
    """`var[:n] == "lit"`  ->  (n, lit)"""
    from translate import const_int
    if isinstance(t, ast.Compare) and len(t.ops) == 1 and isinstance(t.ops[0], ast.Eq) and isinstance(t.left, ast.Subscript) \
            and isinstance(t.left.value, ast.Name) and t.left.value.id == var and isinstance(t.left.slice, ast.Slice) \
            and t.left.slice.lower is None and t.left.slice.step is None and isinstance(t.comparators[0], ast.Constant) \
            and isinstance(t.comparators[0].value, str):
        n = const_int(t.left.slice.upper)
        if n is not None and n >= 0:
            return n, t.comparators[0].value
    return None


def init_device_tables(mods):
    from translate import coq_str, src_of
    lines, unknown, info = [], [], {}
    umod = next(m for m in mods if m.rel.endswith("utils/__init__.py"))
    fn = next((n for n in umod.tree.body if isinstance(n, ast.FunctionDef) and n.name == "init_device"), None)
    rows, final_raises = [], False
    if fn is None:
        unknown.append("init_device not found")
    else:
        devv = fn.args.args[0].arg
        body = [st for st in fn.body if not (isinstance(st, ast.Expr) and isinstance(st.value, ast.Constant))]
        if len(body) == 2 and isinstance(body[0], ast.If) and isinstance(body[1], ast.Return):
            node = body[0]
            while True:
                pt = prefix_test(node.test, devv)
                cls_name, args = None, None
                for st in node.body:
                    if isinstance(st, ast.Assign) and isinstance(st.value, ast.Call) and isinstance(st.value.func, ast.Name) \
                            and all(isinstance(a, ast.Name) for a in st.value.args) and not st.value.keywords:
                        cls_name, args = st.value.func.id, [a.id for a in st.value.args]
                    elif isinstance(st, ast.ImportFrom):
                        pass
                    else:
                        pt = None
                if pt is None or cls_name is None or args[:1] != [devv]:
                    unknown.append("init_device branch: " + src_of(node.test, umod.text))
                else:
                    rows.append("(%d%%nat, %s, %s)" % (pt[0], coq_str(pt[1]), coq_str(cls_name)))
                if len(node.orelse) == 1 and isinstance(node.orelse[0], ast.If):
                    node = node.orelse[0]
                    continue
                if len(node.orelse) == 1 and isinstance(node.orelse[0], ast.Raise) and isinstance(node.orelse[0].exc, ast.Call) \
                        and dotted(node.orelse[0].exc.func) == "NotImplementedError":
                    final_raises = True
                break
        else:
            unknown.append("init_device: unrecognised shape")
    lines.append("Definition init_device_rows : list (nat * string * string) := [%s].\n" % "; ".join(rows))
    lines.append("Definition init_device_else_raises : bool := %s.\n" % ("true" if final_raises else "false"))
    # device class guards:  if _has_X and device[:n] == "lit": self.open(...) else: raise NotImplementedError(...)
    for stem, cname, flag, dname in (("scsi_device", "SCSIDevice", "_has_sgio", "scsi_device_guard"),
                                     ("iscsi_device", "ISCSIDevice", "_has_iscsi", "iscsi_device_guard")):
        mod = next(m for m in mods if m.stem == stem)
        cls = next((n for n in mod.tree.body if isinstance(n, ast.ClassDef) and n.name == cname), None)
        init = next((f for f in cls.body if isinstance(f, ast.FunctionDef) and f.name == "__init__"), None) if cls else None
        g = None
        if init is not None:
            devv = init.args.args[1].arg
            last = init.body[-1]
            if isinstance(last, ast.If) and isinstance(last.test, ast.BoolOp) and isinstance(last.test.op, ast.And) \
                    and len(last.test.values) == 2 and isinstance(last.test.values[0], ast.Name) and last.test.values[0].id == flag:
                pt = prefix_test(last.test.values[1], devv)
                opens = len(last.body) == 1 and isinstance(last.body[0], ast.Expr) and isinstance(last.body[0].value, ast.Call) \
                    and dotted(last.body[0].value.func) == "self.open"
                raises = len(last.orelse) == 1 and isinstance(last.orelse[0], ast.Raise) and isinstance(last.orelse[0].exc, ast.Call) \
                    and dotted(last.orelse[0].exc.func) == "NotImplementedError"
                # nothing before the guard may open a file or a connection
                early = any(isinstance(c, ast.Call) and (dotted(c.func) or "").split(".")[-1] in ("open", "connect", "Context", "URL")
                            for st in init.body[:-1] for c in ast.walk(st))
                if pt and opens and raises and not early:
                    g = pt
            # the flag is set by  try: import X; flag = True  except ImportError: flag = False
            ok_flag = False
            for node in mod.tree.body:
                if isinstance(node, ast.Try) and len(node.handlers) == 1 and dotted(node.handlers[0].type) == "ImportError":
                    sets_true = any(isinstance(b, ast.Assign) and dotted(b.targets[0]) == flag and isinstance(b.value, ast.Constant)
                                    and b.value.value is True for b in node.body)
                    sets_false = any(isinstance(b, ast.Assign) and dotted(b.targets[0]) == flag and isinstance(b.value, ast.Constant)
                                     and b.value.value is False for b in node.handlers[0].body)
                    imports = any(isinstance(b, ast.Import) for b in node.body)
                    ok_flag = sets_true and sets_false and imports
            if not ok_flag:
                g = None
        if g is None:
            unknown.append("%s.__init__: unrecognised guard" % cname)
            lines.append("Definition %s : option (nat * string) := None.\n" % dname)
        else:
            lines.append("Definition %s : option (nat * string) := Some (%d%%nat, %s).\n" % (dname, g[0], coq_str(g[1])))
        info[dname] = g
        # how the requested name reaches the binding: every store of the class to an attribute of self, and the expression
        # the binding is opened on (builtins open(<arg0>) in SCSIDevice.open, iscsi.URL(ctx, <arg1>) in ISCSIDevice.open)
        def sx(node, params):
            if isinstance(node, ast.Name) and node.id in params:
                return "SxParam %s" % coq_str(node.id)
            d = dotted(node) or ""
            if d.startswith("self.") and d.count(".") == 1:
                return "SxAttr %s" % coq_str(d.split(".")[1])
            return "SxOther %s" % coq_str(src_of(node, mod.text)[:80])
        stores, target = [], "SxOther \"not found\""
        for f in (cls.body if cls else []):
            if not isinstance(f, ast.FunctionDef):
                continue
            params = [a.arg for a in f.args.args[1:]]
            for n in ast.walk(f):
                tg = []
                if isinstance(n, ast.Assign):
                    tg = [(t, n.value) for t in n.targets]
                elif isinstance(n, (ast.AugAssign, ast.AnnAssign)) and n.value is not None:
                    tg = [(n.target, n)]
                for t, v in tg:
                    d = dotted(t) or ""
                    if d.startswith("self.") and d.count(".") == 1:
                        stores.append("(%s, %s, %s)" % (coq_str(f.name), coq_str(d.split(".")[1]), sx(v, params)))
                if isinstance(n, ast.Call) and (dotted(n.func) or "") in ("setattr", "self.__dict__.update", "object.__setattr__"):
                    stores.append("(%s, \"?\", SxOther %s)" % (coq_str(f.name), coq_str(src_of(n, mod.text)[:60])))
                if f.name == "open" and isinstance(n, ast.Call):
                    fnn = dotted(n.func) or ""
                    if cname == "SCSIDevice" and fnn == "open" and n.args:
                        target = sx(n.args[0], params)
                    if cname == "ISCSIDevice" and fnn == "iscsi.URL" and len(n.args) >= 2:
                        target = sx(n.args[1], params)
        lines.append("Definition %s_name_flow : list (string * string * sx) * sx := ([%s], %s).\n" % (
            stem, "; ".join(stores), target))
    info["rows"] = rows
    return lines, unknown, info


def sense_class(mods):
    """the format dispatch of SCSICheckCondition.__init__ and the lookup forms of __str__ / _describe_ascq"""
    from translate import coq_str, const_int, src_of, ident
    mod = next(m for m in mods if m.stem == "scsi_sense")
    unknown, lines = [], []
    consts = {}
    for node in mod.tree.body:
        if isinstance(node, ast.Assign) and len(node.targets) == 1 and isinstance(node.targets[0], ast.Name):
            v = const_int(node.value)
            if v is not None:
                consts[node.targets[0].id] = v
    cls = next((n for n in mod.tree.body if isinstance(n, ast.ClassDef) and n.name == "SCSICheckCondition"), None)
    fns = {m.name: m for m in cls.body if isinstance(m, ast.FunctionDef)} if cls else {}
    # staticmethod unmarshall_X(data): decode_bits(data, SCSICheckCondition.<table>, result)
    tbl_of = {}
    for name, fn in fns.items():
        for sub in ast.walk(fn):
            if isinstance(sub, ast.Call) and isinstance(sub.func, ast.Name) and sub.func.id == "decode_bits" and len(sub.args) == 3:
                d = dotted(sub.args[1])
                if d and d.startswith("SCSICheckCondition."):
                    tbl_of[name] = "T_" + ident("scsi_sense__SCSICheckCondition__" + d.split(".")[1])
    dispatch, init_asc, init_ascq = [], "None", "None"
    init = fns.get("__init__")
    if init is None:
        unknown.append("SCSICheckCondition.__init__ missing")
    else:
        for st in init.body:
            if isinstance(st, ast.Assign) and len(st.targets) == 1 and dotted(st.targets[0]) in ("self.asc", "self.ascq"):
                v = const_int(st.value)
                if v is None:
                    unknown.append("sense __init__: " + src_of(st, mod.text))
                elif dotted(st.targets[0]) == "self.asc":
                    init_asc = "(Some %d)" % v
                else:
                    init_ascq = "(Some %d)" % v
            if isinstance(st, ast.If):
                node = st
                while True:
                    codes = None
                    t = node.test
                    if isinstance(t, ast.Compare) and len(t.ops) == 1 and dotted(t.left) == "self.response_code":
                        c = t.comparators[0]
                        if isinstance(t.ops[0], ast.Eq) and isinstance(c, ast.Name) and c.id in consts:
                            codes = [consts[c.id]]
                        elif isinstance(t.ops[0], ast.In) and isinstance(c, (ast.Tuple, ast.List)) \
                                and all(isinstance(e, ast.Name) and e.id in consts for e in c.elts):
                            codes = [consts[e.id] for e in c.elts]
                    tbl, asck, ascqk, ok = None, None, None, codes is not None
                    for b in node.body:
                        if isinstance(b, ast.Assign) and len(b.targets) == 1:
                            tg = dotted(b.targets[0])
                            if tg == "self.data" and isinstance(b.value, ast.Call) and dotted(b.value.func) \
                                    and dotted(b.value.func).startswith("self.") and dotted(b.value.func).split(".")[1] in tbl_of:
                                tbl = tbl_of[dotted(b.value.func).split(".")[1]]
                                continue
                            if tg in ("self.asc", "self.ascq") and isinstance(b.value, ast.Subscript) \
                                    and dotted(b.value.value) == "self.data" and isinstance(b.value.slice, ast.Constant):
                                if tg == "self.asc":
                                    asck = b.value.slice.value
                                else:
                                    ascqk = b.value.slice.value
                                continue
                        ok = False
                    if not ok or tbl is None or asck is None or ascqk is None:
                        unknown.append("sense __init__ branch: " + src_of(node.test, mod.text))
                    else:
                        dispatch.append("([%s], %s, %s, %s)" % ("; ".join(str(c) for c in codes), tbl, coq_str(asck), coq_str(ascqk)))
                    if len(node.orelse) == 1 and isinstance(node.orelse[0], ast.If):
                        node = node.orelse[0]
                        continue
                    if node.orelse:
                        unknown.append("sense __init__: else branch")
                    break
    # __str__: optional guard `if "sense_key" not in self.data: return ...`; key text lookup strict or .get(default)
    guard, key_default, ascq_default = "false", "None", "None"

    def lookup_form(node, dname):
        """('strict'|default text|None)  for  dname[...]  /  dname.get(..., "text")"""
        for sub in ast.walk(node):
            if isinstance(sub, ast.Subscript) and isinstance(sub.value, ast.Name) and sub.value.id == dname:
                return "strict"
            if isinstance(sub, ast.Call) and dotted(sub.func) == dname + ".get" and len(sub.args) == 2 \
                    and isinstance(sub.args[1], ast.Constant) and isinstance(sub.args[1].value, str):
                return sub.args[1].value
        return None
    st = fns.get("__str__")
    if st is None:
        unknown.append("SCSICheckCondition.__str__ missing")
    else:
        for b in st.body:
            if isinstance(b, ast.If) and isinstance(b.test, ast.Compare) and len(b.test.ops) == 1 \
                    and isinstance(b.test.ops[0], ast.NotIn) and isinstance(b.test.left, ast.Constant) \
                    and b.test.left.value == "sense_key" and dotted(b.test.comparators[0]) == "self.data" \
                    and len(b.body) == 1 and isinstance(b.body[0], ast.Return):
                guard = "true"
        f = lookup_form(st, "sense_key_dict")
        if f is None:
            unknown.append("__str__: no sense_key_dict lookup")
        elif f != "strict":
            key_default = "(Some %s)" % coq_str(f)
    da = fns.get("_describe_ascq")
    steps = []
    if da is None:
        unknown.append("_describe_ascq missing")
    else:
        f = lookup_form(da, "sense_ascq_dict")
        if f is None:
            unknown.append("_describe_ascq: no sense_ascq_dict lookup")
        elif f != "strict":
            ascq_default = "(Some %s)" % coq_str(f)
        # the ORDER of the tests matters (an assigned code whose qualifier lies in the vendor specific range): the body as a list of steps
        def is_key(n):      # self._ascq()
            return isinstance(n, ast.Call) and dotted(n.func) == "self._ascq" and not n.args and not n.keywords

        def text_of(st):
            if isinstance(st, ast.Return) and isinstance(st.value, ast.Constant) and isinstance(st.value.value, str):
                return st.value.value
            return None
        body = [b for b in da.body if not (isinstance(b, ast.Expr) and isinstance(b.value, ast.Constant))]
        for b in body:
            step = None
            if isinstance(b, ast.If) and not b.orelse and len(b.body) == 1 and isinstance(b.test, ast.Compare) and len(b.test.ops) == 1 \
                    and isinstance(b.test.ops[0], ast.In):
                lhs, rhs = b.test.left, b.test.comparators[0]
                if is_key(lhs) and dotted(rhs) == "sense_ascq_dict" and isinstance(b.body[0], ast.Return) and isinstance(b.body[0].value, ast.Subscript) \
                        and dotted(b.body[0].value.value) == "sense_ascq_dict" and is_key(b.body[0].value.slice):
                    step = "AInTable"
                elif dotted(lhs) == "self.asc" and dotted(rhs) == "vendor_specific_sense_asc" and text_of(b.body[0]) is not None:
                    step = "AVendorAsc %s" % coq_str(text_of(b.body[0]))
                elif dotted(lhs) == "self.ascq" and dotted(rhs) == "vendor_specific_sense_ascq" and text_of(b.body[0]) is not None:
                    step = "AVendorAscq %s" % coq_str(text_of(b.body[0]))
            elif isinstance(b, ast.Return):
                v = b.value
                if text_of(b) is not None:
                    step = "AText %s" % coq_str(text_of(b))
                elif isinstance(v, ast.Call) and dotted(v.func) == "sense_ascq_dict.get" and len(v.args) == 2 and is_key(v.args[0]) \
                        and isinstance(v.args[1], ast.Constant) and isinstance(v.args[1].value, str):
                    step = "AGetDefault %s" % coq_str(v.args[1].value)
                elif isinstance(v, ast.Subscript) and dotted(v.value) == "sense_ascq_dict" and is_key(v.slice):
                    step = "AStrict"
            if step is None:
                unknown.append("_describe_ascq: %s" % " ".join(src_of(b, mod.text).split())[:100])
                step = "AUnknownStep"
            steps.append(step)
    lines.append("Definition sense_ascq_steps : list ascq_step := [%s].\n" % "; ".join(steps))
    lines.append("Definition sense_dispatch : list (list N * layout * string * string) := [%s].\n" % "; ".join(dispatch))
    lines.append("Definition sense_init_asc : option N := %s.\nDefinition sense_init_ascq : option N := %s.\n" % (init_asc, init_ascq))
    lines.append("Definition sense_str_guard : bool := %s.\n" % guard)
    lines.append("Definition sense_key_default : option string := %s.\nDefinition sense_ascq_default : option string := %s.\n" % (key_default, ascq_default))
    return dict(dispatch=dispatch, guard=guard, key_default=key_default, ascq_default=ascq_default), lines, unknown


EXEC_EXN = {"ReservationConflict": "ReservationConflict", "TaskAborted": "TaskAborted", "BusyStatus": "BusyStatus",
            "TaskSetFull": "TaskSetFull", "ACAActive": "ACAActive", "ConditionsMet": "ConditionsMet",
            "RuntimeError": "RuntimeError", "ValueError": "ValueError", "OSError": "OSError"}


def sense_expr(node, cmdn, taskn, errn):
    d = dotted(node)
    if d == cmdn + ".sense":
        return "XCmdSense"
    if taskn and d == taskn + ".raw_sense":
        return "XTaskSense"
    if errn and d == errn + ".sense":
        return "XErrSense"
    return None


def exec_acts(stmts, guard, cmdn, taskn, errn, rawn, text, unknown, out):
    """flatten statements into guarded acts; nested ifs only on en_raw_sense / not cmd.sense, one level"""
    from translate import coq_str, src_of
    for s in stmts:
        if isinstance(s, ast.Pass) or (isinstance(s, ast.Expr) and isinstance(s.value, ast.Constant)):
            continue
        # try: <assign> except AttributeError: pass
        if isinstance(s, ast.Try) and len(s.handlers) == 1 and not s.orelse and not s.finalbody \
                and isinstance(s.handlers[0].type, ast.Name) and s.handlers[0].type.id == "AttributeError" \
                and all(isinstance(b, ast.Pass) for b in s.handlers[0].body):
            exec_acts(s.body, guard, cmdn, taskn, errn, rawn, text, unknown, out)
            continue
        if isinstance(s, ast.If) and guard == "GAlways":
            t = s.test
            g = None
            if isinstance(t, ast.Name) and t.id == rawn:
                g, ge = "GRaw true", "GRaw false"
            elif isinstance(t, ast.UnaryOp) and isinstance(t.op, ast.Not) and isinstance(t.operand, ast.Name) and t.operand.id == rawn:
                g, ge = "GRaw false", "GRaw true"
            elif isinstance(t, ast.UnaryOp) and isinstance(t.op, ast.Not) and dotted(t.operand) == cmdn + ".sense" and not s.orelse:
                g, ge = "GNoSense", None
            if g is not None:
                # a raise/return inside a guarded branch must not let the other branch's acts run afterwards: the flat
                # encoding is exact because each act re-tests its own guard and guards never change within one execute()
                # except GNoSense, which we only accept for a single assignment to cmd.sense
                if g == "GNoSense":
                    inner = []
                    exec_acts(s.body, g, cmdn, taskn, errn, rawn, text, unknown, inner)
                    if len(inner) != 1 or "ASet LCmdSense" not in inner[0]:
                        unknown.append("execute: " + src_of(s, text))
                        out.append("(GAlways, AUnknownAct %s)" % coq_str(src_of(s, text)))
                    else:
                        out += inner
                else:
                    exec_acts(s.body, g, cmdn, taskn, errn, rawn, text, unknown, out)
                    if s.orelse:
                        exec_acts(s.orelse, ge, cmdn, taskn, errn, rawn, text, unknown, out)
                continue
        if isinstance(s, ast.Assign) and len(s.targets) == 1:
            dst = dotted(s.targets[0])
            src = sense_expr(s.value, cmdn, taskn, errn)
            loc = {cmdn + ".sense": "LCmdSense", cmdn + ".raw_sense_data": "LRaw"}.get(dst)
            if loc and src:
                out.append("(%s, ASet %s %s)" % (guard, loc, src))
                continue
        if isinstance(s, ast.Return) and s.value is None:
            out.append("(%s, AReturn)" % guard)
            continue
        call = s.exc if isinstance(s, ast.Raise) else (s.value if isinstance(s, ast.Expr) else None)
        if isinstance(call, ast.Call) and dotted(call.func) == "self.CheckCondition" and len(call.args) == 1 and not call.keywords:
            src = sense_expr(call.args[0], cmdn, taskn, errn)
            if src:
                out.append("(%s, %s %s)" % (guard, "ARaiseCC" if isinstance(s, ast.Raise) else "AConstructCC", src))
                continue
        if isinstance(s, ast.Raise) and s.exc is not None:
            e = s.exc.func if isinstance(s.exc, ast.Call) else s.exc
            if isinstance(s.exc, ast.Call) and s.exc.args:
                e = None
            name = None
            if isinstance(e, ast.Attribute) and isinstance(e.value, ast.Name) and e.value.id == "self":
                name = e.attr
            elif isinstance(e, ast.Name):
                name = e.id
            if name in EXEC_EXN:
                out.append("(%s, ARaise %s)" % (guard, EXEC_EXN[name]))
                continue
        unknown.append("execute: " + src_of(s, text))
        out.append("(%s, AUnknownAct %s)" % (guard, coq_str(src_of(s, text))))


def exec_iscsi(mod):
    from translate import src_of, coq_str
    unknown, prog, final = [], [], "None"
    fn = None
    for node in ast.walk(mod.tree):
        if isinstance(node, ast.ClassDef) and node.name == "ISCSIDevice":
            fn = next((m for m in node.body if isinstance(m, ast.FunctionDef) and m.name == "execute"), None)
    if fn is None or len(fn.args.args) < 3:
        return [], "None", ["ISCSIDevice.execute not found"]
    cmdn, rawn = fn.args.args[1].arg, fn.args.args[2].arg
    body = [s for s in fn.body if not (isinstance(s, ast.Expr) and isinstance(s.value, ast.Constant))]
    # everything up to and including  self._iscsi.command(...)  is the transfer set-up (C03); find the task variable
    idx, taskn = None, None
    for i, s in enumerate(body):
        if isinstance(s, ast.Expr) and isinstance(s.value, ast.Call) and dotted(s.value.func) == "self._iscsi.command" \
                and len(s.value.args) >= 2 and isinstance(s.value.args[1], ast.Name):
            idx, taskn = i, s.value.args[1].id
    if idx is None:
        return [], "None", ["ISCSIDevice.execute: no self._iscsi.command(...) call"]
    # ---- the transfer set-up: direction and expected transfer length from the buffer lengths
    xfer = []

    def lenof(e):
        """len(cmd.<buf>) -> buf"""
        if isinstance(e, ast.Call) and dotted(e.func) == "len" and len(e.args) == 1 and dotted(e.args[0]) in (cmdn + ".datain", cmdn + ".dataout"):
            return dotted(e.args[0]).split(".")[1]
        return None
    dirn = lenn = None
    for s in body[:idx + 1]:
        txt = src_of(s, mod.text)
        if isinstance(s, ast.Assign) and len(s.targets) == 1 and isinstance(s.targets[0], ast.Name):
            tgt = s.targets[0].id
            d = dotted(s.value) or ""
            if d.startswith("iscsi.SCSI_XFER_") and dirn in (None, tgt):
                dirn = tgt
                xfer.append("XSetDir %s" % coq_str(d.split(".")[1]))
                continue
            if isinstance(s.value, ast.Constant) and s.value.value == 0 and lenn in (None, tgt):
                lenn = tgt
                xfer.append("XSetLen0")
                continue
            if isinstance(s.value, ast.Call) and dotted(s.value.func) == "iscsi.Task":
                xfer.append("XTask [%s]" % "; ".join(coq_str(src_of(a, mod.text)) for a in s.value.args))
                continue
        if isinstance(s, ast.If) and not s.orelse and lenof(s.test) and len(s.body) == 2 and dirn and lenn:
            a, b2 = s.body
            if isinstance(a, ast.Assign) and isinstance(a.targets[0], ast.Name) and a.targets[0].id == dirn and (dotted(a.value) or "").startswith("iscsi.SCSI_XFER_") \
                    and isinstance(b2, ast.Assign) and isinstance(b2.targets[0], ast.Name) and b2.targets[0].id == lenn and lenof(b2.value):
                xfer.append("XIfLen %s %s %s" % (coq_str(lenof(s.test)), coq_str(dotted(a.value).split(".")[1]), coq_str(lenof(b2.value))))
                continue
        if s is body[idx]:
            xfer.append("XCommand [%s]" % "; ".join(coq_str(src_of(a, mod.text)) for a in s.value.args))
            continue
        unknown.append("ISCSIDevice.execute (transfer set-up): " + txt[:80])
        xfer.append("XUnknownStep %s" % coq_str(txt[:80]))
    exec_iscsi.xfer = (xfer, dirn, lenn)
    for s in body[idx + 1:]:
        if isinstance(s, ast.If) and not s.orelse and isinstance(s.test, ast.Compare) and len(s.test.ops) == 1 \
                and isinstance(s.test.ops[0], ast.Eq) and dotted(s.test.left) == taskn + ".status":
            d = dotted(s.test.comparators[0]) or ""
            parts = d.split(".")
            if len(parts) >= 2 and parts[-2] == "SCSI_STATUS":
                acts = []
                exec_acts(s.body, "GAlways", cmdn, taskn, None, rawn, mod.text, unknown, acts)
                prog.append((parts[-1], acts))
                continue
        if s is body[-1] and isinstance(s, ast.Raise) and s.exc is not None:
            e = s.exc.func if isinstance(s.exc, ast.Call) else s.exc
            name = e.id if isinstance(e, ast.Name) else None
            if name in EXEC_EXN:
                final = "(Some %s)" % EXEC_EXN[name]
                continue
        if s is body[-1] and isinstance(s, ast.Return) and s.value is None:
            final = "None"
            continue
        unknown.append("ISCSIDevice.execute: " + src_of(s, mod.text))
        prog.append(("<unknown>", ["(GAlways, AUnknownAct %s)" % coq_str(src_of(s, mod.text))]))
    return prog, final, unknown


def exec_sgio(mod):
    from translate import src_of, coq_str
    unknown = []
    fn = None
    for node in ast.walk(mod.tree):
        if isinstance(node, ast.ClassDef) and node.name == "SCSIDevice":
            fn = next((m for m in node.body if isinstance(m, ast.FunctionDef) and m.name == "execute"), None)
    if fn is None or len(fn.args.args) < 3:
        return [], ["SCSIDevice.execute not found"]
    cmdn, rawn = fn.args.args[1].arg, fn.args.args[2].arg
    body = [s for s in fn.body if not (isinstance(s, ast.Expr) and isinstance(s.value, ast.Constant))]
    tries = [s for s in body if isinstance(s, ast.Try) and any(
        isinstance(b, ast.Expr) and isinstance(b.value, ast.Call) and dotted(b.value.func) == "sgio.execute" for b in s.body)]
    if len(tries) != 1 or body[-1] is not tries[0]:
        return ["(GAlways, AUnknownAct \"execute\")"], ["SCSIDevice.execute: expected the function to end with try: sgio.execute(...)"]
    t = tries[0]
    if len(t.body) != 1 or t.orelse or t.finalbody or len(t.handlers) != 1 or dotted(t.handlers[0].type) != "sgio.CheckConditionError" \
            or not t.handlers[0].name:
        return ["(GAlways, AUnknownAct \"handler\")"], ["SCSIDevice.execute: unrecognised try/except around sgio.execute"]
    acts = []
    exec_acts(t.handlers[0].body, "GAlways", cmdn, None, t.handlers[0].name, rawn, mod.text, unknown, acts)
    return acts, unknown


def enum_filter(t, kname, vname, text, unknown):
    from translate import coq_str, src_of
    if isinstance(t, ast.BoolOp):
        op = "FAnd" if isinstance(t.op, ast.And) else "FOr"
        acc = enum_filter(t.values[-1], kname, vname, text, unknown)
        for v in reversed(t.values[:-1]):
            acc = "(%s %s %s)" % (op, enum_filter(v, kname, vname, text, unknown), acc)
        return acc
    if isinstance(t, ast.UnaryOp) and isinstance(t.op, ast.Not):
        return "(FNot %s)" % enum_filter(t.operand, kname, vname, text, unknown)
    if isinstance(t, ast.Call) and isinstance(t.func, ast.Name) and t.func.id == "callable" and len(t.args) == 1 \
            and isinstance(t.args[0], ast.Name) and t.args[0].id == vname:
        return "FCallable"
    if isinstance(t, ast.Call) and isinstance(t.func, ast.Attribute) and t.func.attr == "startswith" \
            and isinstance(t.func.value, ast.Name) and t.func.value.id == kname and len(t.args) == 1 \
            and isinstance(t.args[0], ast.Constant) and t.args[0].value == "__":
        return "FDunder"
    if isinstance(t, ast.Compare) and len(t.ops) == 1 and isinstance(t.comparators[0], ast.Constant) \
            and t.comparators[0].value == "method" and isinstance(t.left, ast.Attribute) and t.left.attr == "__name__" \
            and isinstance(t.left.value, ast.Call) and isinstance(t.left.value.func, ast.Name) and t.left.value.func.id == "type" \
            and len(t.left.value.args) == 1 and isinstance(t.left.value.args[0], ast.Name) and t.left.value.args[0].id == vname:
        if isinstance(t.ops[0], ast.NotEq):
            return "(FNot FIsMethod)"
        if isinstance(t.ops[0], ast.Eq):
            return "FIsMethod"
    unknown.append("Enum.keys filter: " + src_of(t, text))
    return "(FUnknown %s)" % coq_str(src_of(t, text))


def branch_action(stmts, retvar):
    """('len', n) for `retvar = bytearray(n)`, ('raise', None) for `raise ...OpcodeException`, else None"""
    from translate import const_int
    if len(stmts) != 1:
        return None
    s = stmts[0]
    if isinstance(s, ast.Assign) and len(s.targets) == 1 and isinstance(s.targets[0], ast.Name) \
            and s.targets[0].id == retvar and isinstance(s.value, ast.Call) and isinstance(s.value.func, ast.Name) \
            and s.value.func.id == "bytearray" and len(s.value.args) == 1:
        n = const_int(s.value.args[0])
        if n is not None and n >= 0:
            return ("len", n)
    if isinstance(s, ast.Raise) and s.exc is not None:
        e = s.exc.func if isinstance(s.exc, ast.Call) else s.exc
        if isinstance(e, ast.Attribute) and e.attr == "OpcodeException":
            return ("raise", None)
    return None
