"""Shared machinery of the runner: paths, subprocess helpers, Coq build / evaluation,
Coq literal printers, evidence and violation reporting, known findings."""
import fcntl
import glob
import hashlib
import json
import os
import re
import subprocess
import sys
import time

VERIF = os.path.dirname(os.path.dirname(os.path.abspath(__file__)))
COQ = os.path.join(VERIF, "coq")
TOOLS = os.path.join(VERIF, "tools")
REPO = os.environ.get("VERIF_REPO", "/repo")
PY = "/venv/bin/python"
GUARD = "ROSJAT_PYTHON_SCSI_VERIF"
NCPU = 16

COQ_DIRS = ["Base", "Model", "Gen", "Spec", "Proofs", "Properties", "Findings"]

TRUSTED_BASE = [
    "Coq 8.16.1 kernel incl. its vm_compute conversion (coqc; native_compute not used)",
    "tools/translate.py + tools/translate_ctors.py (Python ast -> coq/Gen/*.v), cross-checked by runtime reflection (tools/reflect_tables.py) and by the constructor correspondence",
    "correspondence harness tools/corr/*.py: generators, canonicalisation of results, generated Corr/cases_*.v, convention that Coq prints the list of mismatching case indices",
    "coq/Spec/*.v: hand transcription of SAM-5 / SPC-4 / SBC-3 / SMC-3 / MMC-6 / SAT-3 layouts and the T10 operation-code list (written without access to the documents)",
    "CPython semantics of int / bytearray / slice / dict as transcribed in coq/Base and coq/Model (modelled, not verified)",
]


def impl_env(extra_path=None):
    env = dict(os.environ)
    paths = [REPO]
    if extra_path:
        paths = list(extra_path) + paths
    env["PYTHONPATH"] = ":".join(paths)
    env["PYTHONHASHSEED"] = "0"
    env["PIP_NO_INDEX"] = "1"
    env[GUARD] = "1"
    env["PYTHONDONTWRITEBYTECODE"] = "1"
    return env


def sh(cmd, timeout=600, cwd=None, env=None, inp=None):
    t0 = time.time()
    try:
        p = subprocess.run(cmd, cwd=cwd, env=env, input=inp, stdout=subprocess.PIPE, stderr=subprocess.STDOUT,
                           timeout=timeout, text=True, shell=isinstance(cmd, str))
        return p.returncode, p.stdout, time.time() - t0
    except subprocess.TimeoutExpired as e:
        out = e.stdout if isinstance(e.stdout, str) else (e.stdout or b"").decode("utf-8", "replace")
        return 124, (out or "") + "\n[timeout after %ss]" % timeout, time.time() - t0


def run_impl(script, payload, timeout=600, extra_path=None, args=()):
    """run tools/corr/<script> under the repository's interpreter with JSON in / JSON out"""
    rc, out, _ = sh([PY, os.path.join(TOOLS, script)] + list(args), timeout=timeout, env=impl_env(extra_path),
                    inp=json.dumps(payload))
    if rc != 0:
        raise RuntimeError("impl driver %s failed rc=%s:\n%s" % (script, rc, out[-4000:]))
    # last line is the JSON document
    line = out.strip().split("\n")[-1]
    return json.loads(line)


# ---------------------------------------------------------------------------------------------
# Coq build


class Lock:
    def __init__(self):
        self.f = None

    def __enter__(self):
        self.f = open(os.path.join(VERIF, ".lock"), "w")
        fcntl.flock(self.f, fcntl.LOCK_EX)
        return self

    def __exit__(self, *a):
        fcntl.flock(self.f, fcntl.LOCK_UN)
        self.f.close()


def translate():
    rc, out, dt = sh([PY, os.path.join(TOOLS, "translate.py")], timeout=120, env=impl_env())
    if rc != 0:
        raise RuntimeError("translator failed:\n" + out)
    return json.load(open(os.path.join(COQ, "Gen", "summary.json"))), out.strip()


def coq_project():
    files = []
    for d in COQ_DIRS:
        files += sorted(glob.glob(os.path.join(COQ, d, "**", "*.v"), recursive=True))
    rel = [os.path.relpath(f, COQ) for f in files]
    content = "-Q . PS\n-arg -w -arg -notation-overridden,-deprecated-hint-without-locality,-deprecated-instance-without-locality,-unused-pattern-matching-variable\n" + "\n".join(rel) + "\n"
    path = os.path.join(COQ, "_CoqProject")
    old = open(path).read() if os.path.exists(path) else None
    if old != content or not os.path.exists(os.path.join(COQ, "Makefile")):
        open(path, "w").write(content)
        rc, out, _ = sh(["coq_makefile", "-f", "_CoqProject", "-o", "Makefile"], cwd=COQ, timeout=60)
        if rc != 0:
            raise RuntimeError("coq_makefile failed:\n" + out)
    return rel


def coq_make(targets, timeout=700):
    """full .vo build of the given targets (relative .vo paths); returns (ok, log)"""
    coq_project()
    rc, out, dt = sh(["make", "-j%d" % NCPU, "-k"] + list(targets), cwd=COQ, timeout=timeout)
    return rc == 0, out, dt


def coq_failed_files(log):
    """names of .v files whose compilation failed, from a make log"""
    bad = []
    for m in re.finditer(r'File "\./([^"]+\.v)", line (\d+)', log):
        if m.group(1) not in bad:
            bad.append(m.group(1))
    return bad


def coq_first_error(log, limit=1500):
    i = log.find("Error")
    j = log.rfind('File "', 0, i if i >= 0 else len(log))
    if i < 0:
        return log[-limit:]
    return log[max(j, 0):i + limit]


def coqc_text(name, text, timeout=600):
    """compile a scratch file coq/Corr/<name>.v and return (rc, stdout)"""
    d = os.path.join(COQ, "Corr")
    os.makedirs(d, exist_ok=True)
    p = os.path.join(d, name + ".v")
    open(p, "w").write(text)
    rc, out, dt = sh("ulimit -s unlimited 2>/dev/null; exec timeout %d coqc -Q . PS -w none Corr/%s.v" % (timeout, name),
                     cwd=COQ, timeout=timeout + 30)
    for ext in (".v", ".vo", ".vok", ".vos", ".glob"):
        try:
            os.remove(os.path.join(d, name + ext))
        except OSError:
            pass
    try:
        os.remove(os.path.join(d, "." + name + ".aux"))
    except OSError:
        pass
    return rc, out


def coqc_many(named_texts, timeout=600):
    """compile several scratch files in parallel; returns {name: (rc, out)}"""
    from concurrent.futures import ThreadPoolExecutor
    with ThreadPoolExecutor(max_workers=NCPU) as ex:
        futs = {n: ex.submit(coqc_text, n, t, timeout) for n, t in named_texts}
        return {n: f.result() for n, f in futs.items()}


def parse_eval_list(out):
    """parse the LAST '= [..] : list N' printed by Eval vm_compute -> list of ints, or None"""
    flat = re.sub(r"\s+", " ", out)
    ms = re.findall(r"= (\[[^\]]*\]|nil) ?: list N", flat)
    if not ms:
        return None
    body = ms[-1]
    if body in ("nil", "[]"):
        return []
    return [int(x) for x in re.findall(r"\d+", body)]


# ---------------------------------------------------------------------------------------------
# Coq literal printers


def cstr(s):
    out = []
    for ch in s:
        if ch == '"':
            out.append('""')
        elif 32 <= ord(ch) < 127:
            out.append(ch)
        else:
            out.append("?")
    return '"' + "".join(out) + '"'


def cbytes(b):
    return "[" + ";".join(str(x) for x in b) + "]"


def cnat(n):
    return "%d%%nat" % n


def cbool(b):
    return "true" if b else "false"


def clist(items):
    return "[" + "; ".join(items) + "]"


def coption(x, f=str):
    return "None" if x is None else "(Some %s)" % f(x)


EXN_MAP = {
    "KeyError": "KeyError", "IndexError": "IndexError", "ValueError": "ValueError", "TypeError": "TypeError",
    "AttributeError": "AttributeError", "NotImplementedError": "NotImplementedError",
    "MissingBlocksizeException": "MissingBlocksize", "OpcodeException": "OpcodeException",
    "StopIteration": "StopIteration", "RuntimeError": "RuntimeError", "OSError": "OSError",
    "FileNotFoundError": "OSError", "ConditionsMet": "ConditionsMet", "BusyStatus": "BusyStatus",
    "ReservationConflict": "ReservationConflict", "TaskSetFull": "TaskSetFull", "ACAActive": "ACAActive",
    "TaskAborted": "TaskAborted", "Diverges": "Diverges", "CheckCondition": "(CheckConditionE [])",
}


def cexn(name):
    return EXN_MAP.get(name, "(OtherExn %s)" % cstr(name))


# ---------------------------------------------------------------------------------------------
# evidence / violations / known findings


def load_known():
    p = os.path.join(VERIF, "known_findings.json")
    if not os.path.exists(p):
        return []
    return json.load(open(p)).get("findings", [])


class Report:
    """collects obligations, correspondence suites, violations and known findings of one check run"""

    def __init__(self, pid, tier, seed):
        self.pid, self.tier, self.seed = pid, tier, seed
        self.t0 = time.time()
        self.obligations = []       # (name, ok, detail)
        self.suites = []            # dict(name, cases, mismatches, distinct, samples, distribution)
        self.violations = []        # dict(what, replay)
        self.known_hits = []        # strings
        self.assumptions = []
        self.print_assumptions = {}
        self.samples = []
        self.extra = {}
        self.level = "proof"
        self.checker_cmd = "make -C coq Properties/%s.vo (coqc 8.16.1, full .vo build) + coqc Corr/cases_*.v (vm_compute)" % pid

    def oblig(self, name, ok, detail=""):
        self.obligations.append((name, bool(ok), detail))

    def suite(self, name, cases, mismatches, distinct=None, samples=None, distribution=None):
        self.suites.append(dict(name=name, cases=cases, mismatches=mismatches,
                                distinct=distinct if distinct is not None else cases,
                                distribution=distribution or {}))
        if samples:
            self.samples += samples[:3]
        self.oblig("correspondence:" + name, mismatches == 0, "%d cases, %d mismatches" % (cases, mismatches))

    def violation(self, what, replay_obj, found_input):
        os.makedirs(os.path.join(VERIF, "replays"), exist_ok=True)
        blob = json.dumps(replay_obj, sort_keys=True, default=str)
        h = hashlib.sha1(blob.encode()).hexdigest()[:10]
        path = os.path.join(VERIF, "replays", "%s-%s.json" % (self.pid, h))
        replay_obj = dict(replay_obj)
        replay_obj.setdefault("property", self.pid)
        replay_obj.setdefault("what", what)
        replay_obj["replay_cmd"] = "./check %s --replay %s" % (self.pid, path)
        replay_obj["failing_input_found"] = bool(found_input)
        with open(path, "w") as f:
            json.dump(replay_obj, f, indent=1, sort_keys=True, default=str)
        self.violations.append(dict(what=what, replay=path, found=bool(found_input)))

    def known(self, what):
        self.known_hits.append(what)

    def finish(self):
        wall = time.time() - self.t0
        nob = len(self.obligations)
        ndis = sum(1 for _, ok, _ in self.obligations if ok)
        evals = sum(s["cases"] for s in self.suites)
        distinct = sum(s["distinct"] for s in self.suites)
        cov = dict(
            obligations=max(nob, 1), discharged=ndis if not self.violations else min(ndis, max(nob - 1, 0)),
            checker_cmd=self.checker_cmd, trusted_base=TRUSTED_BASE + self.assumptions,
            evaluations=max(evals, 1), distinct_nontrivial=max(distinct, 2) if evals else 2,
            rule="correspondence cases are generated from one PRNG seeded by VERIF_SEED (structured mostly-valid "
                 "stream + malformed stream + boundary lattice); a case is counted once per distinct canonical "
                 "input; trivial = empty input",
            samples=(self.samples or [o[0] for o in self.obligations])[:8],
            obligation_list=[dict(name=n, ok=ok, detail=d[:300]) for n, ok, d in self.obligations],
            correspondence_suites=self.suites,
            print_assumptions=self.print_assumptions,
            known_findings_reproduced=self.known_hits,
        )
        cov.update(self.extra)
        ev = dict(property_id=self.pid, tier=self.tier, seed=self.seed, level=self.level, coverage=cov,
                  assumptions=TRUSTED_BASE + self.assumptions, wall_s=round(wall, 2), violations=len(self.violations))
        os.makedirs(os.path.join(VERIF, "evidence"), exist_ok=True)
        with open(os.path.join(VERIF, "evidence", "%s.json" % self.pid), "w") as f:
            json.dump(ev, f, indent=1, sort_keys=True, default=str)
        for k in self.known_hits:
            print("KNOWN-FINDING: property=%s %s" % (self.pid, k))
        for v in self.violations:
            print("VIOLATION property=%s replay=%s%s" % (self.pid, v["replay"],
                                                        "" if v["found"] else " no-failing-input-found"))
        print("%s %s: %d/%d obligations, %d correspondence cases, %d violation(s), %.1fs" % (
            self.pid, self.tier, ndis, nob, evals, len(self.violations), wall))
        return 1 if self.violations else 0


def build_property(rep, pid, extra_targets=()):
    """build Properties/<pid>.vo (+extras); record obligations; return (ok, log)"""
    targets = ["Properties/%s.vo" % pid] + list(extra_targets)
    with Lock():
        ok, log, dt = coq_make(targets)
    pa = re.findall(r"(?s)(Closed under the global context|Axioms:.*?)(?=\n\S|\Z)", log)
    src = os.path.join(COQ, "Properties", "%s.v" % pid)
    thms = re.findall(r"^(?:Theorem|Corollary)\s+(\w+)", open(src).read(), re.M) if os.path.exists(src) else []
    rep.extra["theorems"] = thms
    rep.extra["build_s"] = round(dt, 1)
    if ok:
        for t in thms:
            rep.oblig("theorem:" + t, True, "Qed")
    else:
        bad = coq_failed_files(log)
        rep.extra["failed_files"] = bad
        rep.oblig("build:Properties/%s.vo" % pid, False, coq_first_error(log))
    return ok, log


def print_assumptions(rep, pid):
    """re-run Print Assumptions for every theorem of Properties/<pid>.v and record the output"""
    thms = rep.extra.get("theorems", [])
    if not thms:
        return True
    text = "From PS Require Import Properties.%s.\n" % pid + "".join("Print Assumptions %s.\n" % t for t in thms)
    rc, out = coqc_text("pa_%s" % pid, text, timeout=300)
    chunks = re.split(r"\n(?=Closed under|Axioms:)", "\n" + out)
    closed = out.count("Closed under the global context")
    rep.print_assumptions = {"theorems": thms, "closed": closed, "raw": out.strip()[-1500:]}
    ok = rc == 0 and closed == len(thms)
    rep.oblig("print_assumptions:all %d theorems closed under the global context" % len(thms), ok, out[-400:])
    return ok


def grep_gate(rep):
    """no Axiom/Parameter/Admitted/admit/... anywhere in the development"""
    pat = re.compile(r"\b(Admitted|admit|Axiom|Axioms|Parameter|Parameters|Conjecture|Abort All|Unset Guard Checking|"
                     r"bypass_check|Unset Positivity|Unset Universe Checking|Admit Obligations|give_up)\b")
    hits = []
    for d in COQ_DIRS:
        for f in glob.glob(os.path.join(COQ, d, "**", "*.v"), recursive=True):
            txt = re.sub(r"\(\*.*?\*\)", "", open(f).read(), flags=re.S)
            for m in pat.finditer(txt):
                hits.append("%s: %s" % (os.path.relpath(f, COQ), m.group(0)))
    rep.oblig("grep-gate: no Axiom/Parameter/Admitted/admit/guard switches", not hits, "; ".join(hits[:10]))
    return not hits


# ---------------------------------------------------------------------------------------------
# translator validation by runtime reflection

_REFL = {}


def reflect():
    if "r" not in _REFL:
        rc, out, _ = sh([PY, os.path.join(TOOLS, "reflect_tables.py")], timeout=120, env=impl_env())
        if rc != 0:
            raise RuntimeError("reflection failed:\n" + out[-3000:])
        _REFL["r"] = json.loads(out.strip().split("\n")[-1])
    return _REFL["r"]


def reflect_after_use():
    """the same dump taken after the library was used (attach to every device type, every facade method once)"""
    if "u" not in _REFL:
        rc, out, _ = sh([PY, os.path.join(TOOLS, "reflect_tables.py"), "--after-use"], timeout=300, env=impl_env([os.path.join(TOOLS, "stubs")]))
        if rc != 0:
            raise RuntimeError("reflection (after use) failed:\n" + out[-3000:])
        _REFL["u"] = json.loads(out.strip().split("\n")[-1])
    return _REFL["u"]


def validate_translator(rep, summary, parts=("tables", "opcodes", "sense", "init_cdb")):
    """compare what the translator extracted by `ast` with what the imported package really holds"""
    r = reflect()
    diffs = []
    n = 0
    if "tables" in parts:
        tq = {t["qual"]: t["entries"] for t in summary["tables"]}
        for k, v in r["tables"].items():
            n += 1
            if k not in tq:
                diffs.append("table %s exists at run time but was not translated" % k)
            elif [[a, list(b)] for a, b in tq[k]] != v:
                diffs.append("table %s: translated entries differ from the run-time object" % k)
        for k in tq:
            if k not in r["tables"]:
                diffs.append("table %s translated but absent at run time" % k)
    if "opcodes" in parts:
        o = summary["opcodes"]
        for s in ("spc", "sbc", "ssc", "smc", "mmc"):
            src = o["enums"].get(s)
            tr = [[e[0], e[1], e[2], [list(x) for x in e[3]]] for e in o["op_dicts"].get(src, [])]
            n += len(tr)
            if tr != r["opcodes"][s]:
                diffs.append("opcode set %s: translated entries differ from the run-time Enum" % s)
        st = o["int_dicts"].get(o["enums"].get("SCSI_STATUS"), [])
        if [list(x) for x in st] != r["status"]:
            diffs.append("SCSI_STATUS differs from the run-time Enum")
    if "sense" in parts:
        t = summary["sense"]
        if t["consts"] != r["sense"]["consts"]:
            diffs.append("SENSE_FORMAT constants differ")
        if [list(x) for x in t["sense_key_dict"]] != r["sense"]["sense_key_dict"]:
            diffs.append("sense_key_dict differs")
        if t["n_ascq"] != r["sense"]["n_ascq"]:
            diffs.append("sense_ascq_dict size differs")
        if {k: list(v) for k, v in t["ranges"].items()} != r["sense"]["ranges"]:
            diffs.append("vendor specific ranges differ")
        n += t["n_ascq"] + len(t["sense_key_dict"])
    rep.oblig("translator validated by reflection (%s): %d objects compared" % ("+".join(parts), n), not diffs,
              "; ".join(diffs[:8]))
    rep.extra.setdefault("translator_validation", {})["objects_compared"] = n
    if r["import_errors"]:
        rep.oblig("every module imports", False, json.dumps(r["import_errors"]))
    return diffs


def parse_spec_pairs(relpath, defname):
    """parse `Definition <defname> ... := [ ("NAME", h X Y | N); ... ].` from a Spec .v file -> dict"""
    txt = open(os.path.join(COQ, relpath)).read()
    txt = re.sub(r"\(\*.*?\*\)", "", txt, flags=re.S)
    m = re.search(r"Definition %s\b.*?:=\s*\[(.*?)\]\." % re.escape(defname), txt, re.S)
    hexd = dict(xA=10, xB=11, xC=12, xD=13, xE=14, xF=15)
    out = {}
    for name, val in re.findall(r'\("([^"]+)",\s*(h \w+ \w+|\d+)\)', m.group(1)):
        if val.startswith("h "):
            _, a, b = val.split()
            v = hexd.get(a, None) if a in hexd else int(a)
            w = hexd.get(b, None) if b in hexd else int(b)
            out[name] = v * 16 + w
        else:
            out[name] = int(val)
    return out
