"""Implementation-side oracle for the constructor properties (C01/C02/C03/C17): probes the real
constructors and re-checks the property with a Python transcription of the same Spec (dumped from
coq/Spec/CdbFormats.v by Coq itself), so that a wrong *model* cannot fabricate a violation of the
*code* and a broken proof obligation can be turned into a concrete failing input."""
import json
import os
import random
import re

import vlib

SPEC_DUMP = """From Coq Require Import String NArith List.
Import ListNotations.
From PS Require Import Spec.CdbFormats.
Open Scope string_scope.
Definition tag (s : src) : string :=
  match s with
  | Arg x => "Arg:" ++ x | Opcode => "Opcode" | SAct n => "SAct:" ++ n
  | Const _ => "Const" | ParamListLen => "ParamListLen" | Fn f x => "Fn:" ++ f ++ ":" ++ x end.
Definition cst (s : src) : N := match s with Const n => n | _ => 0%N end.
Eval vm_compute in (map (fun ks => (fst ks, N.of_nat (sp_len (snd ks)),
   map (fun sf => (tag (sf_src sf), cst (sf_src sf), sf_byte sf, sf_msb sf, sf_width sf)) (sp_fields (snd ks)))) cdb_specs).
"""

_SPECS = {}


def specs():
    """{class key: dict(len=n, fields=[dict(src, const, byte, msb, width)])} as Coq prints Spec/CdbFormats.v"""
    if _SPECS:
        return _SPECS
    with vlib.Lock():
        ok, log, _ = vlib.coq_make(["Spec/CdbFormats.vo"])
    rc, out = vlib.coqc_text("spec_dump", SPEC_DUMP)
    flat = re.sub(r"\s+", " ", out)
    for m in re.finditer(r'\("([\w.]+)", (\d+)(?:%N)?, \[(.*?)\]\)(?=; \("|\] :)', flat):
        key, n, body = m.group(1), int(m.group(2)), m.group(3)
        fields = []
        for f in re.finditer(r'\("([^"]+)", (\d+)(?:%N)?, (\d+)(?:%N)?, (\d+)(?:%N)?, (\d+)(?:%N)?\)', body):
            fields.append(dict(src=f.group(1), const=int(f.group(2)), byte=int(f.group(3)), msb=int(f.group(4)),
                               width=int(f.group(5))))
        _SPECS[key] = dict(len=n, fields=fields)
    if len(_SPECS) < 40:
        raise RuntimeError("could not parse the Spec dump:\n" + out[-2000:])
    return _SPECS


FAILING = """From Coq Require Import String NArith List.
Import ListNotations.
From PS Require Import Base.Bytes Base.Result Model.Converter Model.Ctor Proofs.CdbSpec Spec.CdbFormats Gen.Ctors.
Eval vm_compute in (map fst (filter (fun kc : string * ctor => negb (match lookup (fst kc) cdb_specs with
  | Some sp => (%s) (snd kc) sp | None => false end)) all_ctors)).
"""


def failing_classes(checker="ctor_matches", imports=""):
    """class keys whose decidable side condition evaluates to false on the regenerated IR"""
    rc, out = vlib.coqc_text("failing_classes", FAILING.replace("Eval vm_compute", imports + "Eval vm_compute") % checker)
    flat = re.sub(r"\s+", " ", out)
    m = re.search(r"= (\[.*?\]|nil) : list string", flat)
    if rc != 0 or not m:
        return None
    return re.findall(r'"([\w.]+)"', m.group(1))


def natural_opcode(n):
    return {6: 0x12, 10: 0x28, 12: 0xA8, 16: 0x88}[n]


SA_T10 = None


def sa_t10():
    global SA_T10
    if SA_T10 is None:
        SA_T10 = vlib.parse_spec_pairs("Spec/T10Opcodes.v", "t10_service_actions")
    return SA_T10


NONFIELD_DEFAULTS = {
    "blocksize": ["i", 1],
    "data": ["b", [1, 2, 3, 4]],
    "inline_data": ["b", []],
    "target_descriptor_list": ["o", "empty_list"], "cscd_descriptor_list": ["o", "empty_list"],
    "segment_descriptor_list": ["o", "empty_list"],
    "extra_tl": ["n"],
}


def base_args(ci, spec):
    """all field arguments 0, the other parameters at harmless values"""
    args = {}
    for p in ci["params"]:
        if p in NONFIELD_DEFAULTS:
            args[p] = NONFIELD_DEFAULTS[p]
        else:
            args[p] = ["i", 0]
    if ci["cls"] in ("ModeSelect6", "ModeSelect10"):
        args["data"] = ["o", "modesel_control"]
    return args


def cap_for(ci, pname):
    """largest value we dare to pass for a parameter that sizes a buffer"""
    if pname in ("tl",) and "blocksize" in ci["params"]:
        return 1 << 24
    if pname in ("tl",) and ci["cls"] == "ReadCd":
        return 1 << 12
    if pname in ("alloclen", "alloc_len"):
        return 1 << 24
    return None


def probes_for(ci, spec, rng, nrandom):
    out = []
    sa = [[k, v] for k, v in sa_t10().items()]
    op = natural_opcode(spec["len"])
    base = base_args(ci, spec)
    argfields = [(f["src"][4:], f["width"]) for f in spec["fields"] if f["src"].startswith("Arg:")]
    argfields += [(f["src"].split(":")[2], f["width"]) for f in spec["fields"] if f["src"].startswith("Fn:")]

    def mk(assign):
        a = dict(base)
        a.update({k: ["i", v] for k, v in assign.items()})
        kw = [[p, a[p]] for p in ci["params"]]
        return dict(key=ci["key"], stem=ci["stem"], cls=ci["cls"], op=op, sa=sa, pos=[], kw=kw, calls=[], args=assign)

    out.append(mk({}))
    for name, w in argfields:
        if name not in ci["params"]:
            continue
        cap = cap_for(ci, name)
        vals = [1 << i for i in range(w)] + [(1 << w) - 1]
        for v in vals:
            if cap is not None and v > cap:
                continue
            out.append(mk({name: v}))
    # every field all-ones at once (within the caps), then random in-range combinations
    allones = {}
    for name, w in argfields:
        if name in ci["params"]:
            cap = cap_for(ci, name)
            v = (1 << w) - 1
            allones[name] = v if cap is None or v <= cap else cap
    out.append(mk(allones))
    for _ in range(nrandom):
        a = {}
        for name, w in argfields:
            if name in ci["params"] and rng.random() < 0.7:
                cap = cap_for(ci, name)
                v = rng.getrandbits(w)
                a[name] = v if cap is None or v <= cap else v % (cap + 1)
        out.append(mk(a))
    return out


def sat_shuffle(lba, order):
    v = 0
    for k, j in enumerate(order):
        v = (v << 8) | ((lba >> (8 * j)) & 0xFF)
    return v


def check_c01(spec, probe, res):
    """-> None if the CDB of this probe has the standard's wire format, else a description"""
    if res["res"][0] != "ok":
        if res["res"][1] == "MemoryError":
            return None
        return "constructor raised %s for in-range arguments" % res["res"][1]
    cdb, dout = res["res"][1], res["res"][2]
    n = len(cdb)
    if n != spec["len"]:
        return "CDB length %d, standard %d" % (n, spec["len"])
    X = int.from_bytes(bytes(cdb), "big")
    args = dict((k, v[1]) for k, v in probe["kw"] if v[0] == "i")
    covered = 0
    for f in spec["fields"]:
        lo = 8 * (n - f["byte"] - 1) + f["msb"] + 1 - f["width"]
        mask = (1 << f["width"]) - 1
        covered |= mask << lo
        got = (X >> lo) & mask
        s = f["src"]
        if s.startswith("Arg:"):
            exp = args.get(s[4:], 0)
            if exp > mask:
                continue
        elif s == "Opcode":
            exp = probe["op"]
        elif s.startswith("SAct:"):
            exp = sa_t10()[s[5:]]
        elif s == "Const":
            exp = f["const"]
        elif s == "ParamListLen":
            if dout[0] == "b":
                exp = len(dout[1])
            elif dout[0] == "z":
                exp = dout[1]
            else:
                return "data-out buffer is %s" % dout
        elif s.startswith("Fn:"):
            lba = args.get(s.split(":")[2], 0)
            order = [3, 0, 4, 1, 5, 2] if f["width"] == 48 else [0, 1, 2]
            exp = sat_shuffle(lba, order)
        else:
            continue
        if got != exp:
            return "field %s at byte %d bit %d width %d reads %#x, expected %#x" % (s, f["byte"], f["msb"], f["width"], got, exp)
    if X & ~covered:
        return "bits set outside every field the standard defines: %#x" % (X & ~covered)
    return None


def run_probes(probes, timeout=900):
    res = []
    CH = 2000
    for i in range(0, len(probes), CH):
        res += vlib.run_impl("corr/ctors.py", probes[i:i + CH], args=["--impl"], timeout=timeout)
    return res


def search_c01(summary, seed, classes=None, nrandom=40):
    """probe every (or the given) class; return list of dict(probe, observed)"""
    sp = specs()
    rng = random.Random(seed ^ 0xC01)
    probes = []
    for ci in summary["ctors"]["ctors"]:
        if classes is not None and ci["key"] not in classes:
            continue
        if ci["key"] in sp and ci.get("cls"):
            probes += probes_for(ci, sp[ci["key"]], rng, nrandom)
    res = run_probes(probes)
    hits = []
    seen = set()
    for p, r in zip(probes, res):
        why = check_c01(sp[p["key"]], p, r)
        if why:
            sig = (p["key"], re.sub(r"0x[0-9a-f]+", "N", why))
            if sig in seen:
                continue
            seen.add(sig)
            hits.append(dict(kind="c01-probe", id="%s: %s" % (p["key"], re.sub(r" reads .*", "", why)),
                             probe={k: v for k, v in p.items() if k != "calls"}, observed=why))
    return hits, len(probes)


def replay_c01(obj):
    sp = specs()
    p = dict(obj["probe"])
    p["calls"] = []
    r = run_probes([p])[0]
    why = check_c01(sp[p["key"]], p, r)
    return why is None, ("on the implementation: %s" % (why or "the CDB has the standard's wire format"))


# ---------------------------------------------------------------------------------------------
# C02: decode is the inverse of encode (on the implementation)


def kv_map():
    """{ctor coq name: [(table key, 'EVar "x"' ...)]} parsed from the regenerated Gen/Ctors.v"""
    txt = open(os.path.join(vlib.COQ, "Gen", "Ctors.v")).read()
    out = {}
    for m in re.finditer(r'Definition (C_\w+) : ctor := mkCtor "([\w.]+)"(.*?)\n\n', txt, re.S):
        b = re.search(r'SBuild \d+%nat \[(.*?)\]\)\]', m.group(3), re.S)
        kvs = re.findall(r'\("(\w+)", \(?(EVar "(\w+)"|EOpValue|ESA "(\w+)"|EConst (\d+)|ELen|ECall)', b.group(1)) if b else []
        out[m.group(2)] = [(k, e, var) for k, e, var, _sa, _c in kvs]
    return out


def check_c02(spec, probe, res, kvs):
    if res["res"][0] != "ok":
        return None
    r = res["res"]
    if len(r) < 6:
        return None
    cdb, dec, re_ = r[1], r[4], r[5]
    if dec[0] != "ok":
        return "unmarshall_cdb raised %s on a CDB the constructor built" % dec[1]
    D = dict((k, v[1]) for k, v in dec[1] if v[0] == "i")
    args = dict((k, v[1]) for k, v in probe["kw"] if v[0] == "i")
    widths = {f["src"][4:]: f["width"] for f in spec["fields"] if f["src"].startswith("Arg:")}
    for key, e, var in kvs:
        if e.startswith("EVar") and var in args and var in widths and args[var] < (1 << widths[var]):
            if D.get(key) != args[var]:
                return "decoding the built CDB gives %s = %r, built from %s = %r" % (key, D.get(key), var, args[var])
        if e == "EOpValue" and D.get(key) != probe["op"]:
            return "decoding the built CDB gives %s = %r, opcode was %r" % (key, D.get(key), probe["op"])
    if re_[0] != "ok":
        return "marshall_cdb raised %s on a decoded CDB" % re_[1]
    if re_[1] != cdb:
        return "re-encoding the decoded CDB gives different bytes"
    return None


def search_c02(summary, seed, classes=None, nrandom=40):
    sp = specs()
    kv = kv_map()
    rng = random.Random(seed ^ 0xC02)
    probes = []
    for ci in summary["ctors"]["ctors"]:
        if classes is not None and ci["key"] not in classes:
            continue
        if ci["key"] in sp and ci.get("cls"):
            probes += probes_for(ci, sp[ci["key"]], rng, nrandom)
    res = run_probes(probes)
    hits, seen = [], set()
    for p, r in zip(probes, res):
        why = check_c02(sp[p["key"]], p, r, kv.get(p["key"], []))
        if why:
            sig = (p["key"], re.sub(r"= \d+", "= N", why))
            if sig in seen:
                continue
            seen.add(sig)
            hits.append(dict(kind="c02-probe", id="%s: %s" % (p["key"], re.sub(r" = .*", "", why)),
                             probe={k: v for k, v in p.items() if k != "calls"}, observed=why))
    return hits, len(probes)


def replay_c02(obj):
    sp = specs()
    kv = kv_map()
    p = dict(obj["probe"])
    p["calls"] = []
    r = run_probes([p])[0]
    why = check_c02(sp[p["key"]], p, r, kv.get(p["key"], []))
    return why is None, ("on the implementation: %s" % (why or "decode inverts encode"))


# ---------------------------------------------------------------------------------------------
# C03: data buffers match the transfer the CDB announces (on the implementation)

XFER_DUMP = """From Coq Require Import String NArith List.
Import ListNotations.
From PS Require Import Spec.CdbFormats.
Open Scope string_scope.
Definition xl (l : xlen) : string * string * string * N :=
  match l with XZero => ("zero", "", "", 0%N) | XArg x => ("arg", x, "", 0%N) | XMul x y => ("mul", x, y, 0%N)
             | XMulK x k => ("mulk", x, "", k) end.
Definition xo (o : xout) : string * (string * string * string * N) :=
  match o with OZeros l => ("zeros", xl l) | OCaller x => ("caller", ("", x, "", 0%N))
             | OCallerUnless f x => ("callerunless", ("", x, f, 0%N)) | OParamList => ("paramlist", ("", "", "", 0%N))
             | OAta => ("ata", ("", "", "", 0%N)) end.
Definition xi (i : xin) : string * (string * string * string * N) :=
  match i with IZeros l => ("zeros", xl l) | IAta => ("ata", ("", "", "", 0%N)) end.
Eval vm_compute in (map (fun kx => (fst kx, xo (fst (snd kx)), xi (snd (snd kx)))) xfer_specs).
"""

_XFER = {}


def xfer_specs():
    if _XFER:
        return _XFER
    with vlib.Lock():
        vlib.coq_make(["Spec/CdbFormats.vo"])
    rc, out = vlib.coqc_text("xfer_dump", XFER_DUMP)
    flat = re.sub(r"\s+", " ", out)
    pat = r'\("([\w.]+)", \("(\w+)", \("(\w*)", "(\w*)", "(\w*)", (\d+)(?:%N)?\)\), \("(\w+)", \("(\w*)", "(\w*)", "(\w*)", (\d+)(?:%N)?\)\)\)'
    for m in re.finditer(pat, flat):
        g = m.groups()
        _XFER[g[0]] = dict(out=dict(kind=g[1], lk=g[2], x=g[3], y=g[4], k=int(g[5])),
                           inn=dict(kind=g[6], lk=g[7], x=g[8], y=g[9], k=int(g[10])))
    if len(_XFER) < 40:
        raise RuntimeError("could not parse the xfer dump:\n" + out[-1500:])
    return _XFER


def xlen_value(d, args):
    lk = d["lk"]
    if lk == "zero":
        return 0
    if lk == "arg":
        return args.get(d["x"])
    if lk == "mul":
        a, b = args.get(d["x"]), args.get(d["y"])
        return None if a is None or b is None else a * b
    if lk == "mulk":
        a = args.get(d["x"])
        return None if a is None else a * d["k"]
    return None


def buf_len(v):
    if v[0] == "b":
        return len(v[1])
    if v[0] == "z":
        return v[1]
    return None


def ata_rule(a):
    tl = {1: a["fetures"], 2: a["count"], 3: a.get("extra_tl") or 0}.get(a["t_length"], 0)
    if a["t_length"] == 0:
        unit = 0
    elif not a["byte_block"]:
        unit = 1
    elif not a["t_type"]:
        unit = 512
    else:
        unit = a["blocksize"]
        if unit == 0:
            return None
    n = tl * unit
    return (n, 0) if a["t_dir"] == 0 else (0, n)


def check_c03(xs, cspec, probe, res):
    r = res["res"]
    args = dict((k, v[1]) for k, v in probe["kw"] if v[0] == "i")
    raw = dict((k, v) for k, v in probe["kw"])
    if xs["inn"]["kind"] == "ata":
        a = dict(args)
        a.setdefault("extra_tl", None)
        exp = ata_rule(a)
        if exp is None:
            return None if (r[0] == "exn" and r[1] == "MissingBlocksizeException") else \
                "ATA transfer in blocks without a block size was not refused (%s)" % (r[:2],)
        if r[0] != "ok":
            return None if r[1] == "MemoryError" else "constructor raised %s" % r[1]
        data = raw.get("data")
        for which, idx, n, is_dir in (("dataout", 2, exp[0], args["t_dir"] == 0), ("datain", 3, exp[1], args["t_dir"] != 0)):
            if data and data[0] == "b" and data[1] and is_dir:
                if r[idx] != data:
                    return "%s is not the caller's data" % which
            elif buf_len(r[idx]) != n:
                return "%s has length %r, SAT transfer is %d bytes" % (which, buf_len(r[idx]), n)
        return None
    if r[0] != "ok":
        return None
    dout, din = r[2], r[3]
    if buf_len(dout) is None:
        return "data-out buffer is not a byte buffer: %s" % (dout,)
    if buf_len(din) is None:
        return "data-in buffer is not a byte buffer: %s" % (din,)
    exp_in = xlen_value(xs["inn"], args)
    if exp_in is not None and (buf_len(din) != exp_in or (din[0] == "b" and any(din[1]))):
        return "data-in buffer has length %d, the CDB announces %d" % (buf_len(din), exp_in)
    o = xs["out"]
    if o["kind"] == "zeros":
        exp = xlen_value(o, args)
        if exp is not None and buf_len(dout) != exp:
            return "data-out buffer has length %d, expected %d" % (buf_len(dout), exp)
    elif o["kind"] == "caller":
        if dout != raw.get(o["x"]) and not (dout[0] == "z" and raw.get(o["x"], [""])[0] == "b" and not any(raw[o["x"]][1])):
            return "data-out is not the caller's data"
    elif o["kind"] == "callerunless":
        if args.get(o["y"]):
            if buf_len(dout) != 0:
                return "data-out is not empty although %s is set" % o["y"]
        elif dout != raw.get(o["x"]):
            return "data-out is not the caller's data"
    elif o["kind"] == "paramlist":
        cdb = r[1]
        X = int.from_bytes(bytes(cdb), "big")
        for f in cspec["fields"]:
            if f["src"] == "ParamListLen":
                lo = 8 * (len(cdb) - f["byte"] - 1) + f["msb"] + 1 - f["width"]
                got = (X >> lo) & ((1 << f["width"]) - 1)
                if got != buf_len(dout):
                    return "PARAMETER LIST LENGTH is %d, the parameter list has %d bytes" % (got, buf_len(dout))
    return None


def probes_c03(ci, rng, nrandom):
    sp = specs()[ci["key"]]
    base = base_args(ci, sp)
    sa = [[k, v] for k, v in sa_t10().items()]
    op = natural_opcode(sp["len"])
    out = []

    def mk(assign, raw=None):
        a = dict(base)
        a.update({k: ["i", v] for k, v in assign.items()})
        a.update(raw or {})
        return dict(key=ci["key"], stem=ci["stem"], cls=ci["cls"], op=op, sa=sa, pos=[], kw=[[p, a[p]] for p in ci["params"]],
                    calls=[], args=assign)

    P = ci["params"]
    if ci["cls"].startswith("ATAPassThrough"):
        for tl in range(4):
            for bb in (0, 1):
                for tt in (0, 1):
                    for d in (0, 1):
                        for bs in (0, 512, 4096):
                            for ex in (None, 7):
                                for data in (["n"], ["b", [1, 2, 3]]):
                                    # COUNT / FEATURES 0 announce no data at all (the SAT length is the unsigned number in the field)
                                    for cnt, ft in ((5, 3), (0, 3), (5, 0), (256, 0)):
                                        raw = {"data": data, "extra_tl": ["n"] if ex is None else ["i", ex]}
                                        out.append(mk(dict(t_length=tl, byte_block=bb, t_type=tt, t_dir=d, blocksize=bs,
                                                           fetures=ft, count=cnt, protocal=4, command=0xEC), raw))
        return out
    grid = {}
    for p in P:
        if p == "blocksize":
            grid[p] = [1, 512, 4096]
        elif p in ("tl",):
            grid[p] = [0, 1, 7]
        elif p in ("alloclen", "alloc_len"):
            grid[p] = [0, 1, 8, 255, 4096]
        elif p in ("ndob",):
            grid[p] = [0, 1]
        elif p in ("nb",):
            grid[p] = [0, 3]
    keys = sorted(grid)

    def rec(i, cur):
        if i == len(keys):
            raw = {}
            if "data" in P and ci["cls"] not in ("ModeSelect6", "ModeSelect10"):
                raw["data"] = ["b", [rng.randint(1, 255) for _ in range(rng.choice([0, 1, 16]))]]
            out.append(mk(dict(cur), raw))
            return
        for v in grid[keys[i]]:
            cur[keys[i]] = v
            rec(i + 1, cur)
    rec(0, {})
    if ci["cls"] in ("ModeSelect6", "ModeSelect10"):
        for sname in ("modesel_control", "modesel_disconnect", "modesel_ctrlext", "modesel_eaa"):
            out.append(mk({}, {"data": ["o", sname]}))
    return out


def search_c03(summary, seed, classes=None, nrandom=0):
    sp, xs = specs(), xfer_specs()
    rng = random.Random(seed ^ 0xC03)
    probes = []
    for ci in summary["ctors"]["ctors"]:
        if classes is not None and ci["key"] not in classes:
            continue
        if ci["key"] in xs and ci["key"] in sp and ci.get("cls"):
            probes += probes_c03(ci, rng, nrandom)
    res = run_probes(probes)
    hits, seen = [], set()
    for p, r in zip(probes, res):
        why = check_c03(xs[p["key"]], sp[p["key"]], p, r)
        if why:
            sig = (p["key"], re.sub(r"\d+", "N", why))
            if sig in seen:
                continue
            seen.add(sig)
            hits.append(dict(kind="c03-probe", id="%s: %s" % (p["key"], re.sub(r"\d+", "N", why)),
                             probe={k: v for k, v in p.items() if k != "calls"}, observed=why))
    return hits, len(probes)


def replay_c03(obj):
    sp, xs = specs(), xfer_specs()
    p = dict(obj["probe"])
    p["calls"] = []
    r = run_probes([p])[0]
    why = check_c03(xs[p["key"]], sp[p["key"]], p, r)
    return why is None, ("on the implementation: %s" % (why or "the buffers match the announced transfer"))
