"""A conformant device for the response formats the library parses: builds, from VALUES, the bytes the standards
prescribe (positions from tools/spec_formats.py and the list/length rules written out below — nothing from the
library's tables) together with what a correct decoder must report. Used as the oracle of C04 (parse what the
device sent), C06 (round trips) and as the generator of the parser correspondence."""
import random

from spec_formats import FLAT


def put(buf, byte, msb, width, value):
    """store `value` in the field of `width` bits whose MSB is bit `msb` of byte `byte` (MSB first)"""
    nb = (7 - msb + width + 7) // 8
    cur = int.from_bytes(buf[byte:byte + nb], "big")
    lo = 8 * nb - (7 - msb) - width
    mask = ((1 << width) - 1) << lo
    cur = (cur & ~mask) | ((value << lo) & mask)
    buf[byte:byte + nb] = cur.to_bytes(nb, "big")


def get(buf, byte, msb, width):
    nb = (7 - msb + width + 7) // 8
    lo = 8 * nb - (7 - msb) - width
    return (int.from_bytes(bytes(buf[byte:byte + nb]).ljust(nb, b"\0"), "big") >> lo) & ((1 << width) - 1)


def rand_value(rng, width):
    return rng.choice([0, (1 << width) - 1, 1 << (width - 1), rng.randrange(1 << width), rng.randrange(1 << width)])


def flat(rng, fmt, fixed=None, skip=()):
    """a buffer of the format's fixed length with random field values -> (bytearray, {key: value})"""
    f = FLAT[fmt]
    buf = bytearray(f["length"])
    vals = {}
    for key, byte, msb, width in f["fields"]:
        if key in skip:
            continue
        v = (fixed or {}).get(key)
        if v is None:
            v = rand_value(rng, width)
        put(buf, byte, msb, width, v)
        vals[key] = v
    return buf, vals


def trailing(rng):
    return bytes(rng.randrange(256) for _ in range(rng.choice([0, 0, 1, 7, 32])))


# ---------------------------------------------------------------------------------------------------------
# TransportIDs (SPC-4 7.6.4) -> (bytes, expected dict)

def ncount(rng, small, big=False):
    """how many descriptors: mostly 0..small, now and then enough that positions get two (and, for flat lists, three) digits"""
    if rng.random() < 0.12:
        return rng.choice([10, 11, 12, 25, 40, 130] if big else [10, 11, 12, 25])
    return rng.randint(0, small)


def transport_id(rng, kind=None):
    kind = kind or rng.choice(["fcp", "sas", "iscsi0", "iscsi1", "srp", "sbp", "sop"])
    if kind == "fcp":
        name = bytes(rng.randrange(256) for _ in range(8))
        b = bytearray(24)
        b[8:16] = name
        return bytes(b), dict(tpid_format=0, protocol_id=0, n_port_name=name)
    if kind == "sbp":
        name = bytes(rng.randrange(256) for _ in range(8))
        b = bytearray(24)
        b[0] = 3
        b[8:16] = name
        return bytes(b), dict(tpid_format=0, protocol_id=3, eui64_name=name)
    if kind == "srp":
        name = bytes(rng.randrange(256) for _ in range(16))
        b = bytearray(24)
        b[0] = 4
        b[8:24] = name
        return bytes(b), dict(tpid_format=0, protocol_id=4, initiator_port_identifier=name)
    if kind == "sas":
        name = bytes(rng.randrange(256) for _ in range(8))
        b = bytearray(24)
        b[0] = 6
        b[4:12] = name
        return bytes(b), dict(tpid_format=0, protocol_id=6, sas_address=name)
    if kind == "sop":
        name = bytes(rng.randrange(256) for _ in range(8))
        b = bytearray(24)
        b[0] = 0xA
        b[4:12] = name
        return bytes(b), dict(tpid_format=0, protocol_id=0xA, routing_id=name)
    # iSCSI: ADDITIONAL LENGTH (bytes 2-3) counts what follows; the name is null-terminated and null-padded to a
    # multiple of four, at least 20 bytes
    n = rng.choice([1, 2, 3, 4, 15, 16, 17, 18, 19, 20, 21, 30, 31, 32, 33, 150, 188, 204])
    alphabet = "abcdefghijklmnopqrstuvwxyz0123456789.-"
    if rng.random() < 0.15:
        alphabet += "éü中"                       # iSCSI names are UTF-8 (RFC 3722): lengths count bytes, not characters
    name = "iqn.2001-04.com.ex:" + "".join(rng.choice(alphabet) for _ in range(n))
    exp = dict(protocol_id=5, iscsi_name=name)
    if kind == "iscsi1":
        isid = rng.choice(["%012x", "%012X", "%x"]) % rng.randrange(1 << 48)          # hex constants may use capitals (RFC 3720)
        s = name + ",i,0x" + isid
        exp.update(tpid_format=1, iscsi_initiator_session_id=isid)
    else:
        s = name
        exp.update(tpid_format=0)
    raw = s.encode("utf-8") + b"\0"
    while len(raw) % 4 or len(raw) < 20:
        raw += b"\0"
    b = bytearray(4) + raw
    b[0] = (exp["tpid_format"] << 6) | 5
    b[2:4] = len(raw).to_bytes(2, "big")
    return bytes(b), exp


# ---------------------------------------------------------------------------------------------------------
# designation descriptors (SPC-4 7.8.6) -> (bytes, expected dict)

def designator(rng, kind=None, piv=True):
    kind = kind or rng.choice(["vendor", "t10", "eui8", "eui12", "eui16", "naa2", "naa3", "naa5", "naa6", "relport", "tpg", "lug", "md5", "name"])
    hdr = dict(code_set=1, piv=0, association=rng.randrange(3), protocol_identifier=0)
    if kind == "vendor":
        body = bytes(rng.randrange(256) for _ in range(rng.choice([1, 4, 9])))
        hdr["designator_type"], d = 0, dict(vendor_specific=body)
    elif kind == "t10":
        vid = bytes(rng.randrange(32, 127) for _ in range(8))
        rest = bytes(rng.randrange(32, 127) for _ in range(rng.choice([0, 5, 12])))
        body = vid + rest
        hdr["designator_type"], d = 1, dict(t10_vendor_id=vid, vendor_specific_id=rest)
        hdr["code_set"] = 2
    elif kind.startswith("eui"):
        n = int(kind[3:])
        cid = rng.randrange(1 << 24)
        if n == 8:
            ext = bytes(rng.randrange(256) for _ in range(5))
            body = cid.to_bytes(3, "big") + ext
            d = dict(ieee_company_id=cid, vendor_specific_extension_id=ext)
        elif n == 12:
            ext = bytes(rng.randrange(256) for _ in range(5))
            did = bytes(rng.randrange(256) for _ in range(4))
            body = cid.to_bytes(3, "big") + ext + did
            d = dict(ieee_company_id=cid, vendor_specific_extension_id=ext, directory_id=did)
        else:
            idx = bytes(rng.randrange(256) for _ in range(8))
            ext = bytes(rng.randrange(256) for _ in range(5))
            body = idx + cid.to_bytes(3, "big") + ext
            d = dict(identifier_extension=idx, ieee_company_id=cid, vendor_specific_extension_id=ext)
        hdr["designator_type"] = 2
    elif kind.startswith("naa"):
        naa = int(kind[3:])
        hdr["designator_type"] = 3
        if naa == 2:
            a, cid, b2 = rng.randrange(1 << 12), rng.randrange(1 << 24), rng.randrange(1 << 24)
            body = ((2 << 60) | (a << 48) | (cid << 24) | b2).to_bytes(8, "big")
            d = dict(naa=2, vendor_specific_identifier_a=a, ieee_company_id=cid, vendor_specific_identifier_b=b2)
        elif naa == 3:
            v = rng.randrange(1 << 60)
            body = ((3 << 60) | v).to_bytes(8, "big")
            d = dict(naa=3, locally_administered_value=v)
        elif naa == 5:
            cid, v = rng.randrange(1 << 24), rng.randrange(1 << 36)
            body = ((5 << 60) | (cid << 36) | v).to_bytes(8, "big")
            d = dict(naa=5, ieee_company_id=cid, vendor_specific_identifier=v)
        else:
            cid, v, e = rng.randrange(1 << 24), rng.randrange(1 << 36), rng.randrange(1 << 64)
            body = ((6 << 60) | (cid << 36) | v).to_bytes(8, "big") + e.to_bytes(8, "big")
            d = dict(naa=6, ieee_company_id=cid, vendor_specific_identifier=v, vendor_specific_identifier_extension=e)
    elif kind == "relport":
        v = rng.randrange(1 << 16)
        body = bytes(2) + v.to_bytes(2, "big")
        hdr["designator_type"], d = 4, dict(relative_port=v)
        hdr["association"] = 1
    elif kind == "tpg":
        v = rng.randrange(1 << 16)
        body = bytes(2) + v.to_bytes(2, "big")
        hdr["designator_type"], d = 5, dict(target_portal_group=v)
        hdr["association"] = 1
    elif kind == "lug":
        v = rng.randrange(1 << 16)
        body = bytes(2) + v.to_bytes(2, "big")
        hdr["designator_type"], d = 6, dict(logical_unit_group=v)
    elif kind == "md5":
        body = bytes(rng.randrange(256) for _ in range(16))
        hdr["designator_type"], d = 7, dict(md5_logical_identifier=body)
    else:
        s = ("iqn.2001-04.com.example:" + "".join(rng.choice("abcdef0123456789") for _ in range(rng.choice([3, 4, 5, 6]))))
        body = s.encode("ascii") + b"\0"
        while len(body) % 4:
            body += b"\0"
        hdr["designator_type"], d = 8, dict(scsi_name_string=body)
        hdr["code_set"] = 3
    if piv and rng.random() < 0.3 and hdr["association"] in (1, 2):
        hdr["piv"], hdr["protocol_identifier"] = 1, rng.choice([0, 5, 6])
    b = bytearray(4)
    put(b, 0, 7, 4, hdr["protocol_identifier"])
    put(b, 0, 3, 4, hdr["code_set"])
    put(b, 1, 7, 1, hdr["piv"])
    put(b, 1, 5, 2, hdr["association"])
    put(b, 1, 3, 4, hdr["designator_type"])
    b[3] = len(body)
    exp = dict(hdr)
    exp["designator_length"] = len(body)
    if not (hdr["piv"] == 1 and hdr["association"] in (1, 2)):
        del exp["protocol_identifier"]        # meaningless unless PIV=1 and the association is target port / device
    exp["designator"] = d
    return bytes(b) + body, exp


# ---------------------------------------------------------------------------------------------------------
# whole responses: each case is dict(fmt, call, args, data, expect)

def cases(rng, n_each=8, trail=True):
    out = []
    _trailing = globals()["trailing"]

    def trailing(r):          # canonical responses carry no unused buffer space
        return _trailing(r) if trail else b""

    def add(fmt, call, data, expect, args=None, note=""):
        out.append(dict(fmt=fmt, call=call, args=args or {}, data=list(data), expect=expect, note=note))

    for _ in range(n_each):
        # ---- flat formats
        b, v = flat(rng, "readcapacity10")
        add("readcapacity10", "ReadCapacity10", b + trailing(rng), v)
        b, v = flat(rng, "readcapacity16")
        add("readcapacity16", "ReadCapacity16", b + trailing(rng), v)
        b, v = flat(rng, "inquiry_standard")
        add("inquiry_standard", "Inquiry", b, v, dict(evpd=0))
        for fmt in ("vpd_block_limits", "vpd_block_dev_char", "vpd_lbp", "vpd_referrals", "vpd_extended_inquiry"):
            b, v = flat(rng, fmt)
            b[0] = rng.randrange(256)
            b[1] = FLAT[fmt]["page"]
            b[2:4] = (len(b) - 4).to_bytes(2, "big")
            v.update(page_code=FLAT[fmt]["page"], peripheral_qualifier=b[0] >> 5, peripheral_device_type=b[0] & 0x1F)
            add(fmt, "Inquiry", bytes(b) + trailing(rng), v, dict(evpd=1))
        b, v = flat(rng, "vpd_ata_information")
        b[1] = 0x89
        b[2:4] = (len(b) - 4).to_bytes(2, "big")
        add("vpd_ata_information", "Inquiry", bytes(b), {k: x.to_bytes(w // 8, "big") for (k, _, _, w), x in
                                                          zip(FLAT["vpd_ata_information"]["fields"], v.values())}, dict(evpd=1))
        # ---- supported VPD pages, unit serial number
        pages = sorted(rng.sample(range(256), rng.randint(0, 6)))
        add("vpd_supported_pages", "Inquiry", bytes([0, 0, 0, len(pages)] + pages) + trailing(rng), dict(page_code=0, vpd_pages=pages), dict(evpd=1))
        sn = bytes(rng.randrange(32, 127) for _ in range(rng.choice([0, 1, 8, 20])))
        add("vpd_unit_serial", "Inquiry", bytes([0, 0x80, 0, len(sn)]) + sn + trailing(rng), dict(page_code=0x80, unit_serial_number=sn), dict(evpd=1))
        # ---- device identification: 0..n designation descriptors
        ds = [designator(rng) for _ in range(ncount(rng, 4))]
        body = b"".join(x[0] for x in ds)
        add("vpd_device_identification", "Inquiry", bytes([0, 0x83]) + len(body).to_bytes(2, "big") + body + trailing(rng),
            dict(page_code=0x83, designator_descriptors=[x[1] for x in ds]), dict(evpd=1))
        # ---- GET LBA STATUS: PARAMETER DATA LENGTH (n-3) counts from byte 4; descriptors of 16 bytes from byte 8
        ds = [flat(rng, "getlbastatus_descriptor") for _ in range(ncount(rng, 5, big=True))]
        body = b"".join(bytes(x[0]) for x in ds)
        add("getlbastatus", "GetLBAStatus", (4 + len(body)).to_bytes(4, "big") + bytes(4) + body + trailing(rng), dict(lbas=[x[1] for x in ds]))
        # ---- REPORT LUNS: LUN LIST LENGTH counts the list only (8 per LUN); the list starts at byte 8
        luns = [rand_value(rng, 64) for _ in range(ncount(rng, 5, big=True))]
        body = b"".join(x.to_bytes(8, "big") for x in luns)
        add("reportluns", "ReportLuns", len(body).to_bytes(4, "big") + bytes(4) + body + trailing(rng), dict(luns=luns))
        # ---- the same three lists cut off by the allocation length at a descriptor boundary: the length field still counts the
        # whole list (SPC: it is not adjusted for truncation); the descriptors present are returned, nothing is invented
        if trail:
            more = rng.randint(1, 40)
            ds2 = [flat(rng, "getlbastatus_descriptor") for _ in range(rng.randint(0, 3))]
            body2 = b"".join(bytes(x[0]) for x in ds2)
            add("getlbastatus", "GetLBAStatus", (4 + len(body2) + 16 * more).to_bytes(4, "big") + bytes(4) + body2, dict(lbas=[x[1] for x in ds2]),
                note="truncated by the allocation length")
            luns2 = [rand_value(rng, 64) for _ in range(rng.randint(0, 3))]
            add("reportluns", "ReportLuns", (8 * (len(luns2) + more)).to_bytes(4, "big") + bytes(4) + b"".join(x.to_bytes(8, "big") for x in luns2),
                dict(luns=luns2), note="truncated by the allocation length")
            keys2 = [rand_value(rng, 64) for _ in range(rng.randint(0, 3))]
            gen2 = rand_value(rng, 32)
            add("prin_read_keys", "PersistentReserveInReadKeys", gen2.to_bytes(4, "big") + (8 * (len(keys2) + more)).to_bytes(4, "big") +
                b"".join(k.to_bytes(8, "big") for k in keys2), dict(pr_generation=gen2, reservation_keys=keys2), note="truncated by the allocation length")
        # ---- PR IN
        gen = rand_value(rng, 32)
        keys = [rand_value(rng, 64) for _ in range(ncount(rng, 5, big=True))]
        add("prin_read_keys", "PersistentReserveInReadKeys", gen.to_bytes(4, "big") + (8 * len(keys)).to_bytes(4, "big") +
            b"".join(k.to_bytes(8, "big") for k in keys) + trailing(rng), dict(pr_generation=gen, reservation_keys=keys))
        if rng.random() < 0.3:
            add("prin_read_reservation", "PersistentReserveInReadReservation", gen.to_bytes(4, "big") + bytes(4) + trailing(rng), dict(pr_generation=gen))
        else:
            b, v = flat(rng, "prin_read_reservation")
            b[0:4] = gen.to_bytes(4, "big")
            b[4:8] = (16).to_bytes(4, "big")
            v["pr_generation"] = gen
            add("prin_read_reservation", "PersistentReserveInReadReservation", bytes(b) + trailing(rng), v)
        b, v = flat(rng, "prin_report_capabilities", fixed=dict(length=8))
        tm = dict(wr_ex_ar=get(b, 4, 7, 1), ex_ac_ro=get(b, 4, 6, 1), wr_ex_ro=get(b, 4, 5, 1), ex_ac=get(b, 4, 3, 1), wr_ex=get(b, 4, 1, 1), ex_ac_ar=get(b, 5, 0, 1))
        v = dict(v)
        del v["length"]
        v["pr_type_mask"] = tm
        add("prin_report_capabilities", "PersistentReserveInReportCapabilities", bytes(b) + trailing(rng), v)
        ds = []
        for _ in range(ncount(rng, 4)):
            tid, texp = transport_id(rng)
            b, v = flat(rng, "prin_full_status_descriptor", fixed=dict(additional_desc_length=len(tid)))
            v = dict(v)
            del v["additional_desc_length"]
            v["transport_id"] = texp
            ds.append((bytes(b) + tid, v))
        body = b"".join(x[0] for x in ds)
        add("prin_read_full_status", "PersistentReserveInReadFullStatus", gen.to_bytes(4, "big") + len(body).to_bytes(4, "big") + body + trailing(rng),
            dict(pr_generation=gen, full_status=[x[1] for x in ds]))
        # ---- REPORT TARGET PORT GROUPS: RETURN DATA LENGTH (n-3); optional extended header; groups with their ports
        ext = rng.random() < 0.5
        groups, body = [], b""
        for _ in range(ncount(rng, 4)):
            ports = [rand_value(rng, 16) for _ in range(rng.randint(0, 3))]
            b, v = flat(rng, "rtpg_descriptor", fixed=dict(target_port_count=len(ports)))
            v = dict(v)
            v["target_ports"] = [dict(relative_target_port_id=p) for p in ports]
            groups.append(v)
            body += bytes(b) + b"".join(bytes(2) + p.to_bytes(2, "big") for p in ports)
        exp = dict(target_port_group_descriptors=groups)
        if ext:
            itt = rng.randrange(256)
            body = bytes([0x10, itt, 0, 0]) + body
            exp.update(format_type=1, implicit_transition_time=itt)
        add("rtpg", "ReportTargetPortGroups", len(body).to_bytes(4, "big") + body + trailing(rng), exp)
        # ---- REPORT PRIORITY: PRIORITY PARAMETER DATA LENGTH (n-3); descriptors: 8 bytes + TransportID (ADDITIONAL LENGTH n-7)
        ds = []
        for _ in range(ncount(rng, 3)):
            tid, texp = transport_id(rng)
            b, v = flat(rng, "report_priority_descriptor", fixed=dict(adlen=len(tid)))
            ds.append((bytes(b) + tid, dict(current_priority=v["current_priority"], rtpi=v["rtpi"])))
        body = b"".join(x[0] for x in ds)
        add("report_priority", "ReportPriority", len(body).to_bytes(4, "big") + body + trailing(rng), dict(priority_descriptors=[x[1] for x in ds]))
        # ---- READ ELEMENT STATUS
        pages, pbody = [], b""
        for _ in range(ncount(rng, 3)):
            et = rng.choice([1, 2, 3, 4])
            pv, av = rng.randrange(2), rng.randrange(2)
            edl = 12 + 36 * pv + 36 * av + (rng.choice([0, 4]) if trail else 4)     # canonical: the four bytes after the tags present (zero)
            descs, dbody = [], b""
            for _ in range(ncount(rng, 3)):
                b, v = flat(rng, "res_descriptor")
                b = bytearray(b) + bytearray(edl - 12)
                v = dict(v)
                if et == 3:
                    _, v2 = flat(rng, "res_import_export")
                    for (k, byte, msb, w) in FLAT["res_import_export"]["fields"]:
                        put(b, byte, msb, w, v2[k])
                    v.update(v2)
                else:
                    acc = rng.randrange(2)
                    if et in (2, 4):                    # ACCESS exists for storage and data transfer elements only
                        put(b, 2, 3, 1, acc)
                        v["access"] = acc
                o = 12
                if pv:
                    tag = bytes(rng.randrange(32, 127) for _ in range(36))
                    b[o:o + 36] = tag
                    v["primary_volume_tag"] = tag
                    o += 36
                if av:
                    tag = bytes(rng.randrange(32, 127) for _ in range(36))
                    b[o:o + 36] = tag
                    v["alternate_volume_tag"] = tag
                descs.append(v)
                dbody += bytes(b)
            hdr = bytearray(8)
            hdr[0] = et
            put(hdr, 1, 7, 1, pv)
            put(hdr, 1, 6, 1, av)
            hdr[2:4] = edl.to_bytes(2, "big")
            hdr[5:8] = len(dbody).to_bytes(3, "big")
            pages.append(dict(element_type=et, pvoltag=pv, avoltag=av, element_descriptors=descs))
            pbody += bytes(hdr) + dbody
        fe, ne = rand_value(rng, 16), rand_value(rng, 16)
        add("readelementstatus", "ReadElementStatus", fe.to_bytes(2, "big") + ne.to_bytes(2, "big") + bytes(1) + len(pbody).to_bytes(3, "big") + pbody + trailing(rng),
            dict(first_element_address=fe, num_elements=ne, element_status_pages=pages))
        # ---- READ DISC INFORMATION
        b, v = flat(rng, "disc_information_standard", fixed=dict(disc_information_data_type=0, disc_information_length=32))
        v = dict(v)
        for k in ("number_of_sessions", "first_track_number_in_last_session", "last_track_number_in_last_session"):
            v[k] = v.pop(k + "_msb") * 256 + v.pop(k + "_lsb")
        for k in ("last_session_lead_in_start_address", "last_possible_lead_out_start_address"):
            v[k] = v[k].to_bytes(4, "big")
        v["disc_bar_code"] = v["disc_bar_code"].to_bytes(8, "big")
        add("disc_information_standard", "ReadDiscInformation", bytes(b), v)
        b, v = flat(rng, "disc_information_track_resources", fixed=dict(disc_information_data_type=1, disc_information_length=10))
        add("disc_information_track_resources", "ReadDiscInformation", bytes(b) + trailing(rng), v)
        b, v = flat(rng, "disc_information_pow_resources", fixed=dict(disc_information_data_type=2, disc_information_length=14))
        add("disc_information_pow_resources", "ReadDiscInformation", bytes(b) + trailing(rng), v)
        # ---- MODE SENSE(6)/(10): header, optional block descriptor, one or two pages
        for ten in (False, True):
            pgs = []
            for _ in range(rng.choice([1, 1, 2])):
                which = rng.choice(["control", "control_ext", "disconnect", "element"])
                if which == "control":
                    pb, pv_ = flat(rng, "mode_control")
                    hdr = bytes([rng.randrange(2) << 7 | 0x0A, len(pb)])
                    pe = dict(pv_, ps=hdr[0] >> 7, spf=0, page_code=0x0A)
                elif which == "control_ext":
                    pb, pv_ = flat(rng, "mode_control_extension")
                    hdr = bytes([rng.randrange(2) << 7 | 0x40 | 0x0A, 1]) + len(pb).to_bytes(2, "big")
                    pe = dict(pv_, ps=hdr[0] >> 7, spf=1, page_code=0x0A, sub_page_code=1)
                elif which == "disconnect":
                    pb, pv_ = flat(rng, "mode_disconnect_reconnect")
                    hdr = bytes([rng.randrange(2) << 7 | 0x02, len(pb)])
                    pe = dict(pv_, ps=hdr[0] >> 7, spf=0, page_code=0x02)
                else:
                    pb, pv_ = flat(rng, "mode_element_address")
                    hdr = bytes([rng.randrange(2) << 7 | 0x1D, len(pb)])
                    pe = dict(pv_, ps=hdr[0] >> 7, spf=0, page_code=0x1D)
                pgs.append((hdr + bytes(pb), pe))
            # block descriptors: none, one, two — and for MODE SENSE(10), whose BLOCK DESCRIPTOR LENGTH has two bytes, 32 or more of them
            bd = bytes(rng.randrange(256) for _ in range(rng.choice([0, 0, 8, 16, 256, 320, 512] if ten else [0, 0, 8, 16])))
            body = bd + b"".join(x[0] for x in pgs)
            mt, dsp = rng.randrange(256), rng.randrange(256)
            if ten:
                h = bytearray(8)
                h[0:2] = (6 + len(body)).to_bytes(2, "big")
                h[2], h[3] = mt, dsp
                h[6:8] = len(bd).to_bytes(2, "big")
                add("modesense10", "ModeSense10", bytes(h) + body, dict(medium_type=mt, device_specific_parameter=dsp, longlba=0, mode_pages=[x[1] for x in pgs]))
            else:
                h = bytes([3 + len(body), mt, dsp, len(bd)])
                add("modesense6", "ModeSense6", h + body, dict(medium_type=mt, device_specific_parameter=dsp, mode_pages=[x[1] for x in pgs]))
    return out


def subset(exp, got, path=""):
    """None if everything `exp` says is reported by `got` (lists: same length, in order); else what differs"""
    if isinstance(exp, dict):
        if not isinstance(got, dict):
            return "%s: expected a dict, got %r" % (path, got)
        for k, v in exp.items():
            if k not in got:
                return "%s.%s is not reported" % (path, k)
            r = subset(v, got[k], "%s.%s" % (path, k))
            if r:
                return r
        return None
    if isinstance(exp, list):
        if not isinstance(got, list) or len(got) != len(exp):
            return "%s: %d entries expected, %s reported" % (path, len(exp), len(got) if isinstance(got, list) else repr(got))
        for i, (a, b) in enumerate(zip(exp, got)):
            r = subset(a, b, "%s[%d]" % (path, i))
            if r:
                return r
        return None
    if isinstance(exp, (bytes, bytearray)):
        if isinstance(got, (bytes, bytearray)) and bytes(got) == bytes(exp):
            return None
        return "%s: expected %s, got %r" % (path, bytes(exp).hex(), got)
    if isinstance(got, (bytes, bytearray)) and isinstance(exp, int):
        if int.from_bytes(got, "big") == exp:
            return None
        return "%s: expected %#x, got %s" % (path, exp, bytes(got).hex())
    if exp != got:
        return "%s: expected %r, got %r" % (path, exp, got)
    return None
