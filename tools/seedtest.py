#!/usr/bin/env python3
"""seedtest.py <seed-id> <property> <worktree>  — confirm a seeded change (tests pass with it, its demonstration fails with
it and passes without), store it under /verif/seeded/<seed-id>/, run the property's quick check against it and record the verdict.
The change is applied to /repo only for the duration of the run and reverted straight afterwards."""
import json
import os
import shutil
import subprocess
import sys

VERIF = os.path.dirname(os.path.dirname(os.path.abspath(__file__)))


def sh(cmd, cwd=None, env=None, timeout=1200):
    p = subprocess.run(cmd, shell=True, cwd=cwd, env=env, stdout=subprocess.PIPE, stderr=subprocess.STDOUT, text=True, timeout=timeout)
    return p.returncode, p.stdout


def main():
    sid, prop, wt = sys.argv[1:4]
    checks = sys.argv[4:] or [prop]
    src = os.path.join(wt, "MUTATION")
    dst = os.path.join(VERIF, "seeded", sid)
    os.makedirs(dst, exist_ok=True)
    for f in ("patch.diff", "demo.py", "notes.md"):
        if os.path.exists(os.path.join(src, f)):
            shutil.copy(os.path.join(src, f), os.path.join(dst, f))
    patch = os.path.join(dst, "patch.diff")
    env = dict(os.environ, PYTHONPATH="/repo", PYTHONHASHSEED="0")
    meta = dict(id=sid, property=prop, ran=[])
    old = {}
    if os.path.exists(os.path.join(dst, "meta.json")):
        try:
            old = json.load(open(os.path.join(dst, "meta.json")))
            meta["property"] = old.get("property", prop)          # a re-run against other checks keeps what the change was written for
        except Exception:  # noqa
            old = {}
    assert sh("git -C /repo status --porcelain")[1].strip() == "", "/repo is not clean"
    rc0, out0 = sh("/venv/bin/python %s" % os.path.join(dst, "demo.py"), cwd="/repo", env=env, timeout=300)
    meta["demo_without_change"] = dict(rc=rc0, tail=out0[-300:])
    rc, out = sh("git -C /repo apply %s" % patch)
    assert rc == 0, out
    try:
        rct, outt = sh("/venv/bin/python -m pytest -q -p no:cacheprovider", cwd="/repo", env=env, timeout=600)
        meta["tests_with_change"] = dict(rc=rct, tail=outt.strip().split("\n")[-1])
        rc1, out1 = sh("/venv/bin/python %s" % os.path.join(dst, "demo.py"), cwd="/repo", env=env, timeout=300)
        meta["demo_with_change"] = dict(rc=rc1, tail=out1[-400:])
        meta["checks"] = {}
        for c in checks:
            rcc, outc = sh("./check %s --tier quick" % c, cwd=VERIF, timeout=1800)
            lines = [l for l in outc.split("\n") if l.startswith("VIOLATION") or l.startswith("KNOWN") or " quick: " in l]
            detail = ""
            for l in lines:
                if l.startswith("VIOLATION") and "replay=" in l:
                    rp = l.split("replay=")[1].split()[0]
                    try:
                        d = json.load(open(rp))
                        detail = (d.get("observed") or d.get("what") or "")[:300]
                    except Exception:
                        pass
                    break
            meta["checks"][c] = dict(rc=rcc, lines=lines[:6], first_violation=detail)
    finally:
        sh("git -C /repo checkout -- .")
        sh("git -C /repo clean -fdq -- pyscsi")
    meta["confirmed"] = (meta["demo_without_change"]["rc"] == 0 and meta["demo_with_change"]["rc"] != 0
                         and meta["tests_with_change"]["rc"] == 0)
    merged = dict(old.get("checks") or {})
    merged.update(meta["checks"])
    meta["checks"] = merged
    meta["caught_by"] = [c for c, v in meta["checks"].items() if v["rc"] != 0]
    notes = open(os.path.join(dst, "notes.md")).read() if os.path.exists(os.path.join(dst, "notes.md")) else ""
    meta["needs_to_manifest"] = notes[:1500]
    json.dump(meta, open(os.path.join(dst, "meta.json"), "w"), indent=1)
    print(json.dumps({k: meta[k] for k in ("id", "confirmed", "caught_by", "tests_with_change")}, indent=1))
    for c, v in meta["checks"].items():
        print(c, v["rc"], v["lines"][-1:], v["first_violation"][:200])


if __name__ == "__main__":
    main()
