"""The response and parameter-data formats of SPC-4 / SBC-3 / SMC-3 / MMC-6, written by hand from the standards in
the standards' own notation — (byte, most significant bit inside that byte, width in bits), fields wider than the
rest of their byte continue MSB-first into the following bytes — and NOT from the library's mask tables.
The key of each field is the name under which the library reports it (the public API).
`python3 tools/spec_formats.py` writes coq/Spec/RespFormats.v from this file (one source for both sides)."""
import os

# name -> (library table(s) decoding it, total length of the fixed part, [(key, byte, msb, width)])
FLAT = {
    "readcapacity10": dict(tables=["scsi_cdb_readcapacity10.ReadCapacity10._datain_bits"], length=8, fields=[
        ("returned_lba", 0, 7, 32), ("block_length", 4, 7, 32)]),
    "readcapacity16": dict(tables=["scsi_cdb_readcapacity16.ReadCapacity16._datain_bits"], length=32, fields=[
        ("returned_lba", 0, 7, 64), ("block_length", 8, 7, 32), ("p_type", 12, 3, 3), ("prot_en", 12, 0, 1),
        ("p_i_exponent", 13, 7, 4), ("lbppbe", 13, 3, 4), ("lbpme", 14, 7, 1), ("lbprz", 14, 6, 1),
        ("lowest_aligned_lba", 14, 5, 14)]),
    "inquiry_standard": dict(tables=["scsi_cdb_inquiry.Inquiry._datain_bits", "scsi_cdb_inquiry.Inquiry._standard_bits"], length=96, fields=[
        ("peripheral_qualifier", 0, 7, 3), ("peripheral_device_type", 0, 4, 5), ("rmb", 1, 7, 1), ("version", 2, 7, 8),
        ("normaca", 3, 5, 1), ("hisup", 3, 4, 1), ("response_data_format", 3, 3, 4), ("additional_length", 4, 7, 8),
        ("sccs", 5, 7, 1), ("acc", 5, 6, 1), ("tpgs", 5, 5, 2), ("3pc", 5, 3, 1), ("protect", 5, 0, 1),
        ("encserv", 6, 6, 1), ("vs", 6, 5, 1), ("multip", 6, 4, 1), ("addr16", 6, 0, 1),
        ("wbus16", 7, 5, 1), ("sync", 7, 4, 1), ("cmdque", 7, 1, 1), ("vs2", 7, 0, 1),
        ("t10_vendor_identification", 8, 7, 64), ("product_identification", 16, 7, 128), ("product_revision_level", 32, 7, 32),
        ("clocking", 56, 3, 2), ("qas", 56, 1, 1), ("ius", 56, 0, 1)]),
    "vpd_block_limits": dict(tables=["scsi_cdb_inquiry.Inquiry._block_limits_bits"], length=64, page=0xB0, fields=[
        ("wsnz", 4, 0, 1), ("max_caw_len", 5, 7, 8), ("opt_xfer_len_gran", 6, 7, 16), ("max_xfer_len", 8, 7, 32),
        ("opt_xfer_len", 12, 7, 32), ("max_pfetch_len", 16, 7, 32), ("max_unmap_lba_count", 20, 7, 32),
        ("max_unmap_bd_count", 24, 7, 32), ("opt_unmap_gran", 28, 7, 32), ("ugavalid", 32, 7, 1),
        ("unmap_gran_alignment", 32, 6, 31), ("max_ws_len", 36, 7, 64)]),
    "vpd_block_dev_char": dict(tables=["scsi_cdb_inquiry.Inquiry._block_dev_char_bits"], length=64, page=0xB1, fields=[
        ("medium_rotation_rate", 4, 7, 16), ("product_type", 6, 7, 8), ("wabereq", 7, 7, 2), ("wacereq", 7, 5, 2),
        ("nominal_form_factor", 7, 3, 4), ("fuab", 8, 1, 1), ("vbuls", 8, 0, 1)]),
    "vpd_lbp": dict(tables=["scsi_cdb_inquiry.Inquiry._logical_block_provisioning_bits"], length=8, page=0xB2, fields=[
        ("threshold_exponent", 4, 7, 8), ("lbpu", 5, 7, 1), ("lpbws", 5, 6, 1), ("lbpws10", 5, 5, 1), ("lbprz", 5, 2, 1),
        ("anc_sup", 5, 1, 1), ("dp", 5, 0, 1), ("provisioning_type", 6, 2, 3)]),
    "vpd_referrals": dict(tables=["scsi_cdb_inquiry.Inquiry._referrals_bits"], length=16, page=0xB3, fields=[
        ("user_data_segment_size", 8, 7, 32), ("user_data_segment_multiplier", 12, 7, 32)]),
    "vpd_extended_inquiry": dict(tables=["scsi_cdb_inquiry.Inquiry._extended_bits"], length=64, page=0x86, fields=[
        ("activate_microcode", 4, 7, 2), ("spt", 4, 5, 3), ("grd_chk", 4, 2, 1), ("app_chk", 4, 1, 1), ("ref_chk", 4, 0, 1),
        ("uask_sup", 5, 5, 1), ("group_sup", 5, 4, 1), ("prior_sup", 5, 3, 1), ("headsup", 5, 2, 1), ("ordsup", 5, 1, 1),
        ("simpsup", 5, 0, 1), ("wu_sup", 6, 3, 1), ("crd_sup", 6, 2, 1), ("nv_sup", 6, 1, 1), ("v_sup", 6, 0, 1),
        ("p_i_i_sup", 7, 4, 1), ("luiclr", 7, 0, 1), ("r_sup", 8, 4, 1), ("cbcs", 8, 0, 1),
        ("multi_it_nexus_microcode_download", 9, 3, 4), ("extended_self_test_completion_minutes", 10, 7, 16),
        ("poa_sup", 12, 7, 1), ("hra_sup", 12, 6, 1), ("vsa_sup", 12, 5, 1), ("maximum_supported_sense_data_length", 13, 7, 8)]),
    "vpd_ata_information": dict(tables=["scsi_cdb_inquiry.Inquiry._ata_information_bits"], length=572, page=0x89, fields=[
        ("sat_vendor_identification", 8, 7, 64), ("sat_product_identification", 16, 7, 128), ("sat_product_rev_lvl", 32, 7, 32)]),
    "getlbastatus_descriptor": dict(tables=["scsi_cdb_getlbastatus.GetLBAStatus._datain_bits"], length=16, fields=[
        ("lba", 0, 7, 64), ("num_blocks", 8, 7, 32), ("p_status", 12, 3, 4)]),
    "reportluns_descriptor": dict(tables=["scsi_cdb_report_luns.ReportLuns._datain_bits"], length=8, fields=[
        ("lun", 0, 7, 64)]),
    "prin_read_reservation": dict(tables=["scsi_cdb_persistentreservein.PersistentReserveInReadReservation._bits"], length=24, fields=[
        ("reservation_key", 8, 7, 64), ("scope", 21, 7, 4), ("type", 21, 3, 4)]),
    "prin_report_capabilities": dict(tables=["scsi_cdb_persistentreservein.PersistentReserveInReportCapabilities._bits"], length=8, fields=[
        ("length", 0, 7, 16), ("rlr_c", 2, 7, 1), ("crh", 2, 4, 1), ("sip_c", 2, 3, 1), ("atp_c", 2, 2, 1), ("ptpl_c", 2, 0, 1),
        ("tmv", 3, 7, 1), ("allow_commands", 3, 6, 3), ("ptpl_a", 3, 0, 1), ("pr_type_mask", 4, 7, 16)]),
    "prin_pr_type_mask": dict(tables=["scsi_cdb_persistentreservein.PersistentReserveInReportCapabilities._pr_type_mask_bits"], length=8, fields=[
        ("wr_ex_ar", 4, 7, 1), ("ex_ac_ro", 4, 6, 1), ("wr_ex_ro", 4, 5, 1), ("ex_ac", 4, 3, 1), ("wr_ex", 4, 1, 1), ("ex_ac_ar", 5, 0, 1)]),
    "prin_full_status_descriptor": dict(tables=["scsi_cdb_persistentreservein.PersistentReserveInReadFullStatus._full_status_desc_bits"], length=24, fields=[
        ("reservation_key", 0, 7, 64), ("all_tg_pt", 12, 1, 1), ("r_holder", 12, 0, 1), ("scope", 13, 7, 4), ("type", 13, 3, 4),
        ("relative_target_port_id", 18, 7, 16), ("additional_desc_length", 20, 7, 32)]),
    "rtpg_descriptor": dict(tables=["scsi_cdb_report_target_port_groups.ReportTargetPortGroups._tpgd_bits"], length=8, fields=[
        ("pref", 0, 7, 1), ("asymmetric_access_state", 0, 3, 4), ("t_sup", 1, 7, 1), ("o_sup", 1, 6, 1), ("u_sup", 1, 3, 1),
        ("s_sup", 1, 2, 1), ("an_sup", 1, 1, 1), ("ao_sup", 1, 0, 1), ("target_port_group", 2, 7, 16), ("status_code", 5, 7, 8),
        ("vendor", 6, 7, 8), ("target_port_count", 7, 7, 8)]),
    "report_priority_descriptor": dict(tables=["scsi_cdb_report_priority.ReportPriority._data_bits"], length=8, fields=[
        ("current_priority", 0, 3, 4), ("rtpi", 2, 7, 16), ("adlen", 6, 7, 16)]),
    "res_header": dict(tables=["scsi_cdb_readelementstatus.ReadElementStatus._datain_bits"], length=8, fields=[
        ("first_element_address", 0, 7, 16), ("num_elements", 2, 7, 16)]),
    "res_page_header": dict(tables=["scsi_cdb_readelementstatus.ReadElementStatus._element_status_page_bits"], length=8, fields=[
        ("element_type", 0, 3, 4), ("pvoltag", 1, 7, 1), ("avoltag", 1, 6, 1)]),
    "res_descriptor": dict(tables=["scsi_cdb_readelementstatus.ReadElementStatus._element_status_descriptor_bits"], length=12, fields=[
        ("element_address", 0, 7, 16), ("except", 2, 2, 1), ("full", 2, 0, 1), ("additional_sense_code", 4, 7, 8),
        ("additional_sense_code_qualifier", 5, 7, 8), ("svalid", 9, 7, 1), ("invert", 9, 6, 1), ("ed", 9, 3, 1),
        ("medium_type", 9, 2, 3), ("source_storage_element_address", 10, 7, 16)]),
    "res_import_export": dict(tables=["scsi_cdb_readelementstatus.ReadElementStatus._import_export_descriptor_bits"], length=12, fields=[
        ("oir", 2, 7, 1), ("cmc", 2, 6, 1), ("inenab", 2, 5, 1), ("exenab", 2, 4, 1), ("access", 2, 3, 1), ("impexp", 2, 1, 1)]),
    "disc_information_standard": dict(tables=["scsi_cdb_readdiscinformation.ReadDiscInformation._sdi_bits"], length=34, fields=[
        ("disc_information_length", 0, 7, 16), ("disc_information_data_type", 2, 7, 3), ("erasable", 2, 4, 1),
        ("state_of_last_session", 2, 3, 2), ("disc_status", 2, 1, 2), ("number_of_first_track_on_disc", 3, 7, 8),
        ("number_of_sessions_lsb", 4, 7, 8), ("first_track_number_in_last_session_lsb", 5, 7, 8),
        ("last_track_number_in_last_session_lsb", 6, 7, 8), ("did_v", 7, 7, 1), ("dbc_v", 7, 6, 1), ("uru", 7, 5, 1),
        ("dac_v", 7, 4, 1), ("legacy", 7, 2, 1), ("bg_format_status", 7, 1, 2), ("disc_type", 8, 7, 8),
        ("number_of_sessions_msb", 9, 7, 8), ("first_track_number_in_last_session_msb", 10, 7, 8),
        ("last_track_number_in_last_session_msb", 11, 7, 8), ("disc_identification", 12, 7, 32),
        ("last_session_lead_in_start_address", 16, 7, 32), ("last_possible_lead_out_start_address", 20, 7, 32),
        ("disc_bar_code", 24, 7, 64), ("disc_application_code", 32, 7, 8), ("number_of_opc_tables", 33, 7, 8)]),
    "disc_information_track_resources": dict(tables=["scsi_cdb_readdiscinformation.ReadDiscInformation._tri_bits"], length=12, fields=[
        ("disc_information_length", 0, 7, 16), ("disc_information_data_type", 2, 7, 3),
        ("maximum_possible_number_of_the_tracks", 4, 7, 16), ("number_of_the_assigned_tracks", 6, 7, 16),
        ("maximum_possible_number_of_appendable_tracks", 8, 7, 16), ("current_number_of_appendable_tracks", 10, 7, 16)]),
    "disc_information_pow_resources": dict(tables=["scsi_cdb_readdiscinformation.ReadDiscInformation._pow_bits"], length=16, fields=[
        ("disc_information_length", 0, 7, 16), ("disc_information_data_type", 2, 7, 3), ("remaining_pow_replacements", 4, 7, 32),
        ("remaining_pow_reallocation_map_entries", 8, 7, 32), ("number_of_remaining_pow_updates", 12, 7, 32)]),
    "mode_header6": dict(tables=["scsi_enum_modesense.mode_parameter_header6_bits"], length=4, fields=[
        ("medium_type", 1, 7, 8), ("device_specific_parameter", 2, 7, 8)]),
    "mode_header10": dict(tables=["scsi_enum_modesense.mode_parameter_header10_bits"], length=8, fields=[
        ("medium_type", 2, 7, 8), ("device_specific_parameter", 3, 7, 8), ("longlba", 4, 0, 1)]),
    "mode_page_0": dict(tables=["scsi_enum_modesense.page_zero_bits"], length=2, fields=[
        ("ps", 0, 7, 1), ("spf", 0, 6, 1), ("page_code", 0, 5, 6)]),
    "mode_sub_page": dict(tables=["scsi_enum_modesense.sub_page_bits"], length=4, fields=[
        ("ps", 0, 7, 1), ("spf", 0, 6, 1), ("page_code", 0, 5, 6), ("sub_page_code", 1, 7, 8)]),
    # mode page bodies: positions relative to the first byte after the page header (page_0: 2 bytes, sub_page: 4 bytes)
    "mode_control": dict(tables=["scsi_enum_modesense.control_bits"], length=10, fields=[
        ("tst", 0, 7, 3), ("tmf_only", 0, 4, 1), ("dpicz", 0, 3, 1), ("d_sense", 0, 2, 1), ("gltsd", 0, 1, 1), ("rlec", 0, 0, 1),
        ("queue_algorithm_modifier", 1, 7, 4), ("nuar", 1, 3, 1), ("qerr", 1, 2, 2), ("vs", 2, 7, 1), ("rac", 2, 6, 1),
        ("ua_intlck_ctrl", 2, 5, 2), ("swp", 2, 3, 1), ("ato", 3, 7, 1), ("tas", 3, 6, 1), ("atmpe", 3, 5, 1), ("rwwp", 3, 4, 1),
        ("autoload_mode", 3, 2, 3), ("busy_timeout_period", 6, 7, 16), ("extended_self_test_completion_time", 8, 7, 16)]),
    "mode_control_extension": dict(tables=["scsi_enum_modesense.control_extension_1_bits"], length=28, fields=[
        ("tcmos", 0, 2, 1), ("scsip", 0, 1, 1), ("ialuae", 0, 0, 1), ("initial_command_priority", 1, 3, 4),
        ("maximum_sense_data_length", 2, 7, 8)]),
    "mode_disconnect_reconnect": dict(tables=["scsi_enum_modesense.disconnect_reconnect_bits"], length=14, fields=[
        ("buffer_full_ratio", 0, 7, 8), ("buffer_empty_ratio", 1, 7, 8), ("bus_inactivity_limit", 2, 7, 16),
        ("disconnect_time_limit", 4, 7, 16), ("connect_time_limit", 6, 7, 16), ("maximum_burst_size", 8, 7, 16),
        ("emdp", 10, 7, 1), ("fair_arbitration", 10, 6, 3), ("dimm", 10, 3, 1), ("dtdc", 10, 2, 3), ("first_burst_size", 12, 7, 16)]),
    "mode_element_address": dict(tables=["scsi_enum_modesense.element_address_bits"], length=18, fields=[
        ("first_medium_transport_element_address", 0, 7, 16), ("num_medium_transport_elements", 2, 7, 16),
        ("first_storage_element_address", 4, 7, 16), ("num_storage_elements", 6, 7, 16),
        ("first_import_element_address", 8, 7, 16), ("num_import_elements", 10, 7, 16),
        ("first_data_transfer_element_address", 12, 7, 16), ("num_data_transfer_elements", 14, 7, 16)]),
    "designator_header": dict(tables=["scsi_cdb_inquiry.Inquiry._designator_bits"], length=4, fields=[
        ("protocol_identifier", 0, 7, 4), ("code_set", 0, 3, 4), ("piv", 1, 7, 1), ("association", 1, 5, 2),
        ("designator_type", 1, 3, 4), ("designator_length", 3, 7, 8)]),
    # ---- parameter lists sent to the device (SPC-4 6.16.3 / 6.16.4, 6.4 / 6.5) -------------------------------
    "prout_basic": dict(tables=["scsi_cdb_persistentreserveout.PersistentReserveOut._basic_parameter_list_bits"], length=24, fields=[
        ("reservation_key", 0, 7, 64), ("service_action_reservation_key", 8, 7, 64), ("spec_i_pt", 20, 3, 1),
        ("all_tg_pt", 20, 2, 1), ("aptpl", 20, 0, 1)]),
    "prout_register_and_move": dict(tables=["scsi_cdb_persistentreserveout.PersistentReserveOut._ram_parameter_list_bits"], length=24, fields=[
        ("reservation_key", 0, 7, 64), ("service_action_reservation_key", 8, 7, 64), ("unreg", 17, 1, 1), ("aptpl", 17, 0, 1),
        ("relative_target_port_id", 18, 7, 16), ("transportid_length", 20, 7, 32)]),
    "transport_id_header": dict(tables=["scsi_cdb_persistentreservein.PersistentReserveInReadFullStatus._transport_id_bits"], length=24, fields=[
        ("tpid_format", 0, 7, 2), ("protocol_id", 0, 3, 4)]),
    "xcopy_lid1_header": dict(tables=["scsi_cdb_extended_copy_spc4.ExtendedCopy._parameter_list_bits"], length=16, fields=[
        ("list_identifier", 0, 7, 8), ("str", 1, 5, 1), ("nrcr", 1, 4, 1), ("priority", 1, 2, 3),
        ("target_descriptor_list_length", 2, 7, 16), ("segment_descriptor_list_length", 8, 7, 32), ("inline_data_length", 12, 7, 32)]),
    "xcopy_lid4_header": dict(tables=["scsi_cdb_extended_copy_spc5.ExtendedCopy._parameter_list_bits"], length=48, fields=[
        ("parameter_list_format", 0, 7, 8), ("str", 1, 5, 1), ("list_id_usage", 1, 4, 2), ("priority", 1, 2, 3),
        ("header_cscd_descriptor_list_length", 2, 7, 16), ("g_sense", 15, 1, 1), ("immed", 15, 0, 1),
        ("header_cscd_descriptor_type_code", 16, 7, 8), ("list_identifier", 20, 7, 32), ("cscd_descriptor_list_length", 42, 7, 16),
        ("segment_descriptor_list_length", 44, 7, 16), ("inline_data_length", 46, 7, 16)]),
    "xcopy_target_descriptor": dict(tables=["scsi_cdb_extended_copy_spc4.ExtendedCopy._target_descriptor_bits",
                                            "scsi_cdb_extended_copy_spc4.ExtendedCopy._device_specific_target_descriptor_parameters_block"], length=32, fields=[
        ("descriptor_type_code", 0, 7, 8), ("lu_id_type", 1, 7, 2), ("peripheral_device_type", 1, 4, 5),
        ("relative_initiator_port_identifier", 2, 7, 16), ("pad", 28, 2, 1), ("disk_block_length", 29, 7, 24)]),
    "xcopy_target_sequential": dict(tables=["scsi_cdb_extended_copy_spc4.ExtendedCopy._device_specific_target_descriptor_parameters_sequential"], length=32, fields=[
        ("pad", 28, 2, 1), ("fixed", 28, 0, 1), ("stream_block_length", 29, 7, 24)]),
    "xcopy_cscd_descriptor": dict(tables=["scsi_cdb_extended_copy_spc5.ExtendedCopy._cscd_descriptor_bits",
                                          "scsi_cdb_extended_copy_spc5.ExtendedCopy._device_specific_cscd_descriptor_parameters_block"], length=32, fields=[
        ("descriptor_type_code", 0, 7, 8), ("lu_id_type", 1, 7, 2), ("peripheral_device_type", 1, 4, 5),
        ("relative_initiator_port_identifier", 2, 7, 16), ("pad", 28, 2, 1), ("disk_block_length", 29, 7, 24)]),
    "xcopy_identification_designator": dict(tables=["scsi_cdb_extended_copy_spc4.ExtendedCopy._target_designator_bits"], length=4, fields=[
        ("code_set", 0, 3, 4), ("association", 1, 5, 2), ("designator_type", 1, 3, 4), ("designator_length", 3, 7, 8)]),
    "xcopy_segment_block_stream": dict(tables=["scsi_cdb_extended_copy_spc4.ExtendedCopy._segment_descriptor_bits_block_to_stream"], length=24, fields=[
        ("descriptor_type_code", 0, 7, 8), ("cat", 1, 0, 1), ("descriptor_length", 2, 7, 16), ("source_target_descriptor_id", 4, 7, 16),
        ("destination_target_descriptor_id", 6, 7, 16), ("stream_device_transfer_length", 9, 7, 24),
        ("block_device_number_of_blocks", 14, 7, 16), ("block_device_logical_block_address", 16, 7, 64)]),
    "xcopy_segment_block_block": dict(tables=["scsi_cdb_extended_copy_spc4.ExtendedCopy._segment_descriptor_bits_block_to_block"], length=28, fields=[
        ("descriptor_type_code", 0, 7, 8), ("dc", 1, 1, 1), ("cat", 1, 0, 1), ("descriptor_length", 2, 7, 16),
        ("source_target_descriptor_id", 4, 7, 16), ("destination_target_descriptor_id", 6, 7, 16),
        ("block_device_number_of_blocks", 10, 7, 16), ("source_block_device_logical_block_address", 12, 7, 64),
        ("destination_block_device_logical_block_address", 20, 7, 64)]),
    "xcopy5_segment_block_stream": dict(tables=["scsi_cdb_extended_copy_spc5.ExtendedCopy._segment_descriptor_bits_block_to_stream"], length=24, fields=[
        ("descriptor_type_code", 0, 7, 8), ("cat", 1, 0, 1), ("descriptor_length", 2, 7, 16), ("source_cscd_descriptor_id", 4, 7, 16),
        ("destination_cscd_descriptor_id", 6, 7, 16), ("stream_device_transfer_length", 9, 7, 24),
        ("block_device_number_of_blocks", 14, 7, 16), ("block_device_logical_block_address", 16, 7, 64)]),
    "xcopy5_segment_stream_block": dict(tables=["scsi_cdb_extended_copy_spc5.ExtendedCopy._segment_descriptor_bits_stream_to_block"], length=24, fields=[
        ("descriptor_type_code", 0, 7, 8), ("cat", 1, 0, 1), ("descriptor_length", 2, 7, 16), ("source_cscd_descriptor_id", 4, 7, 16),
        ("destination_cscd_descriptor_id", 6, 7, 16), ("stream_device_transfer_length", 9, 7, 24),
        ("block_device_number_of_blocks", 14, 7, 16), ("block_device_logical_block_address", 16, 7, 64)]),
    "xcopy5_segment_block_block": dict(tables=["scsi_cdb_extended_copy_spc5.ExtendedCopy._segment_descriptor_bits_block_to_block"], length=28, fields=[
        ("descriptor_type_code", 0, 7, 8), ("fco", 1, 2, 1), ("dc", 1, 1, 1), ("cat", 1, 0, 1), ("descriptor_length", 2, 7, 16),
        ("source_cscd_descriptor_id", 4, 7, 16), ("destination_cscd_descriptor_id", 6, 7, 16),
        ("block_device_number_of_blocks", 10, 7, 16), ("source_block_device_logical_block_address", 12, 7, 64),
        ("destination_block_device_logical_block_address", 20, 7, 64)]),
}

# list formats: where the descriptor list starts, which header bytes hold its length, what the length counts from
# (the list ends at  length_field + bias), and the descriptor stride.  (SPC-4 6.33, SBC-3 5.4, SPC-4 6.16.2)
LISTS = {
    "scsi_cdb_report_luns.ReportLuns.unmarshall_datain": dict(start=8, len_at=(0, 4), bias=8, stride=8),
    "scsi_cdb_getlbastatus.GetLBAStatus.unmarshall_datain": dict(start=8, len_at=(0, 4), bias=4, stride=16),
    "scsi_cdb_persistentreservein.PersistentReserveInReadKeys.unmarshall_datain": dict(start=8, len_at=(4, 8), bias=8, stride=8),
}


# lists of descriptors that carry their own length: fixed part of the descriptor, bytes of its length field
# (designation descriptor: DESIGNATOR LENGTH, byte 3; READ FULL STATUS descriptor: ADDITIONAL DESCRIPTOR LENGTH, bytes 20-23;
#  REPORT PRIORITY descriptor: ADDITIONAL DESCRIPTOR LENGTH, bytes 6-7; element status page: BYTE COUNT OF DESCRIPTOR DATA
#  AVAILABLE, bytes 5-7)
VAR_LISTS = {
    "scsi_cdb_inquiry.Inquiry.unmarshall_datain": (4, 3, 4),
    "scsi_cdb_persistentreservein.PersistentReserveInReadFullStatus.unmarshall_datain": (24, 20, 24),
    "scsi_cdb_report_priority.ReportPriority.unmarshall_datain": (8, 6, 8),
    "scsi_cdb_readelementstatus.ReadElementStatus.unmarshall_datain": (8, 5, 8),
}


def emit_coq():
    out = ["(* Spec/RespFormats.v — WRITTEN BY tools/spec_formats.py from the hand-written format tables in that file",
           "   (SPC-4 / SBC-3 / SMC-3 / MMC-6 response and parameter data layouts in the standards' notation: byte, msb, width).",
           "   It is a specification: nothing in it comes from /repo. *)",
           "From Coq Require Import String NArith List.", "Import ListNotations.", "Open Scope string_scope.", "Open Scope N_scope.", "",
           "Definition rfield := (string * N * N * N)%type.     (* library key, byte, msb, width *)", "",
           "(* format name, library tables that decode it, fixed length, fields *)",
           "Definition resp_formats : list (string * (list string * nat * list rfield)) := ["]
    items = []
    for name, f in FLAT.items():
        flds = "; ".join('("%s", %d, %d, %d)' % x for x in f["fields"])
        items.append('  ("%s", ([%s], %d%%nat, [%s]))' % (name, "; ".join('"%s"' % t for t in f["tables"]), f["length"], flds))
    out.append(";\n".join(items) + "].")
    out.append("")
    out.append("(* VPD page code -> format *)")
    out.append("Definition vpd_pages : list (N * string) := [%s]." % "; ".join('(%d, "%s")' % (f["page"], n) for n, f in FLAT.items() if "page" in f and n != "vpd_ata_information"))
    out.append("")
    out.append("(* parser, start of the descriptor list, bytes of the length field, what the length is counted from, stride *)")
    out.append("Definition list_formats : list (string * (nat * (nat * nat) * nat * nat)) := [")
    out.append(";\n".join('  ("%s", (%d%%nat, (%d%%nat, %d%%nat), %d%%nat, %d%%nat))' % (k, v["start"], v["len_at"][0], v["len_at"][1], v["bias"], v["stride"])
                          for k, v in LISTS.items()) + "].")
    out.append("")
    out.append("(* decoder, fixed part of each descriptor, bytes [a, b) of the descriptor's own length field *)")
    out.append("Definition var_list_formats : list (string * (nat * nat * nat)) := [")
    out.append(";\n".join('  ("%s", (%d%%nat, %d%%nat, %d%%nat))' % (k, v[0], v[1], v[2]) for k, v in VAR_LISTS.items()) + "].")
    return "\n".join(out) + "\n"


if __name__ == "__main__":
    p = os.path.join(os.path.dirname(os.path.dirname(os.path.abspath(__file__))), "coq", "Spec", "RespFormats.v")
    open(p, "w").write(emit_coq())
    print("wrote", p)
