"""Stand-in for the python-sgio C extension (absent from the sandbox), implementing exactly the contract
DESIGN.md §6 assumes: execute() returns normally (with the residual count of the transfer) iff the device reported GOOD, raises
CheckConditionError(sense) on CHECK CONDITION and another exception for any other outcome.
The harness scripts the outcomes through SCRIPT and reads what was sent from LOG."""

SCRIPT = []     # outcomes consumed by successive execute() calls: ("good",) | ("cc", bytes) | ("raise", exc) | ("fill", bytes)
LOG = []        # (file object, bytes(cdb), len(dataout), len(datain))
DEVICE = None   # optional callable(cdb, dataout, datain) -> outcome  (a target model)


class CheckConditionError(Exception):
    def __init__(self, sense):
        Exception.__init__(self, "check condition")
        self.sense = sense


class UnspecifiedError(Exception):
    pass


def execute(fileobj, cdb, data_out, data_in, max_sense_data_length=32, return_sense_buffer=False):
    LOG.append(dict(file=fileobj, cdb=bytes(cdb), out_len=len(data_out) if data_out is not None else None,
                    in_len=len(data_in) if data_in is not None else None))
    if DEVICE is not None:
        outcome = DEVICE(bytes(cdb), data_out, data_in)
    else:
        outcome = SCRIPT.pop(0) if SCRIPT else ("good",)
    if outcome[0] == "good":
        return 0
    if outcome[0] == "fill":
        # a device may transfer fewer bytes than were allocated: the binding reports the residual count
        n = min(len(outcome[1]), len(data_in))
        data_in[0:n] = outcome[1][0:n]
        return len(data_in) - n
    if outcome[0] == "cc":
        # CHECK CONDITION; a binding that could not fetch any sense data reports it without (sense None)
        raise CheckConditionError(bytes(outcome[1]) if outcome[1] is not None else None)
    if outcome[0] == "raise":
        raise outcome[1]
    raise UnspecifiedError(repr(outcome))
