"""A device object for the facade that records what it is given (used by the C13/C17/C07 drivers).
It is a plain Python object: the facade must work over any device object with execute/opcodes/close."""
from pyscsi.pyscsi import scsi_enum_command


class RecordingDevice(object):
    def __init__(self, opcodes=None, fill=None, outcome=None):
        self.opcodes = opcodes if opcodes is not None else scsi_enum_command.spc
        self.devicetype = None
        self.log = []          # (cmd object, bytes(cdb), id(datain), id(dataout), en_raw_sense)
        self.fill = fill       # callable(cmd) -> bytes written into cmd.datain in place
        self.outcome = outcome  # callable(cmd) -> exception instance to raise, or None
        self.closed = 0

    def execute(self, cmd, en_raw_sense=False):
        self.log.append(dict(cmd=cmd, cdb=bytes(cmd.cdb), datain_id=id(cmd.datain), dataout_id=id(cmd.dataout),
                             raw=en_raw_sense, datain_len=len(cmd.datain) if cmd.datain is not None else None))
        if self.fill is not None and cmd.datain is not None:
            data = self.fill(cmd)
            n = min(len(data), len(cmd.datain))
            cmd.datain[0:n] = data[0:n]
        if self.outcome is not None:
            exc = self.outcome(cmd)
            if exc is not None:
                raise exc

    def close(self):
        self.closed += 1
