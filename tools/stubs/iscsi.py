"""Stand-in for the python libiscsi binding (absent from the sandbox), implementing the contract DESIGN.md §6
assumes: Task.status is the SCSI status byte the target returned, Task.raw_sense the sense bytes.
The harness scripts the outcomes through SCRIPT and reads what was sent from LOG / CALLS."""

ISCSI_SESSION_NORMAL = 2
ISCSI_HEADER_DIGEST_NONE_CRC32C = 1
SCSI_XFER_NONE = 0
SCSI_XFER_READ = 1
SCSI_XFER_WRITE = 2

SCRIPT = []     # per command: (status, sense bytes or None, fill bytes or None)
LOG = []        # dict(cdb, dir, xferlen, out_len, in_len, lun)
CALLS = []      # ("Context", name) ("URL", url) ("connect", portal, lun) ("disconnect",) ...
DEVICE = None   # optional callable(cdb, dataout, datain) -> (status, sense, fill)


class Task(object):
    def __init__(self, cdb, direction, xferlen):
        self.cdb = bytes(cdb)
        self.dir = direction
        self.xferlen = xferlen
        self.status = 0
        self.raw_sense = b""


class URL(object):
    def __init__(self, ctx, url):
        CALLS.append(("URL", url))
        self.url = url
        rest = url[len("iscsi://"):] if url.startswith("iscsi://") else url
        parts = rest.split("/")
        self.portal = parts[0]
        self.target = parts[1] if len(parts) > 1 else ""
        try:
            self.lun = int(parts[2]) if len(parts) > 2 else 0
        except ValueError:
            self.lun = 0


class Context(object):
    def __init__(self, initiator_name):
        CALLS.append(("Context", initiator_name))
        self.initiator_name = initiator_name
        self.connected = False

    def set_targetname(self, name):
        CALLS.append(("set_targetname", name))

    def set_session_type(self, t):
        CALLS.append(("set_session_type", t))

    def set_header_digest(self, d):
        CALLS.append(("set_header_digest", d))

    def connect(self, portal, lun):
        CALLS.append(("connect", portal, lun))
        self.connected = True

    def disconnect(self):
        CALLS.append(("disconnect",))
        self.connected = False

    def command(self, lun, task, data_out, data_in):
        LOG.append(dict(cdb=task.cdb, dir=task.dir, xferlen=task.xferlen, lun=lun,
                        out_len=len(data_out), in_len=len(data_in)))
        if DEVICE is not None:
            # data-out reaches the target only for direction WRITE, and no more than the expected transfer length
            sent = bytes(data_out[:task.xferlen]) if task.dir == SCSI_XFER_WRITE else b""
            status, sense, fill = DEVICE(task.cdb, sent, data_in)
        else:
            status, sense, fill = SCRIPT.pop(0) if SCRIPT else (0, None, None)
        if fill is not None and task.dir == SCSI_XFER_READ:
            # data-in is only received for direction READ, and no more than the expected transfer length
            n = min(len(fill), len(data_in), task.xferlen)
            data_in[0:n] = fill[0:n]
        task.status = status
        if isinstance(sense, str) and sense == "absent":
            # a binding whose task object carries no sense attribute at all (ISCSIDevice.execute caters for it: `except AttributeError`)
            try:
                del task.raw_sense
            except AttributeError:
                pass
        elif sense is not None:
            task.raw_sense = bytes(sense)
