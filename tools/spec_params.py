"""Valid parameter dictionaries for the commands whose data-out the library composes (MODE SELECT 6/10, PERSISTENT
RESERVE OUT, EXTENDED COPY LID1/LID4) and an independent reading of the bytes they must produce: each value at the
standard's position (tools/spec_formats.py), every embedded length equal to what follows it, the CDB's PARAMETER
LIST LENGTH equal to the length of the list. Nothing here comes from the library's tables."""
from spec_formats import FLAT
from spec_resp import get, rand_value


def check_fields(buf, fmt, vals, base=0, where=""):
    for key, byte, msb, width in FLAT[fmt]["fields"]:
        if key in vals:
            got = get(buf, base + byte, msb, width)
            if got != vals[key]:
                return "%s%s: %s at byte %d bit %d width %d holds %#x, the supplied value is %#x" % (where, fmt, key, base + byte, msb, width, got, vals[key])
    return None


# --------------------------------------------------------------------------------------------------------
# TransportIDs as dictionaries (the library's input format) and what their bytes must be

def transport_id_dict(rng, kind=None, long_name=False):
    kind = kind or rng.choice(["fcp", "sas", "iscsi0", "iscsi1", "srp", "sbp", "sop"])
    rb = lambda n: bytes(rng.randrange(256) for _ in range(n))
    if kind == "fcp":
        n = rb(8)
        return dict(protocol_id=0, n_port_name=n), bytes(8) + n + bytes(8)
    if kind == "sbp":
        n = rb(8)
        return dict(protocol_id=3, eui64_name=n), bytes([3]) + bytes(7) + n + bytes(8)
    if kind == "srp":
        n = rb(16)
        return dict(protocol_id=4, initiator_port_identifier=n), bytes([4]) + bytes(7) + n
    if kind == "sas":
        n = rb(8)
        return dict(protocol_id=6, sas_address=n), bytes([6]) + bytes(3) + n + bytes(12)
    if kind == "sop":
        n = rb(8)
        return dict(protocol_id=0xA, routing_id=n), bytes([0xA]) + bytes(3) + n + bytes(12)
    # ... up to the longest iSCSI name there is (223 bytes, RFC 7143): with prefix 24 + 199
    ln = rng.choice([1, 2, 3, 4, 5, 6, 7, 8, 20, 21, 22, 23, 40, 150, 182, 183, 190, 199])
    alphabet = "abcdefghijklmnopqrstuvwxyz0123456789.-:"
    if rng.random() < 0.15:
        alphabet += "éü中"                       # iSCSI names are UTF-8 (RFC 3722)
    # also names so short that the whole TransportID stays below 24 bytes (iqn.1986-03.io, eui.02004567A425678D minus a few)
    prefix = rng.choice(["iqn.2001-04.com.example:", "iqn.2001-04.com.example:", "iqn.1986-03.io:", "iqn.2005-03.a", "eui."])
    if long_name:
        prefix, ln, alphabet = "iqn.2001-04.com.example:", rng.choice([183, 190, 199]), "abcdefghijklmnopqrstuvwxyz0123456789.-:"
    name = prefix + "".join(rng.choice(alphabet) for _ in range(ln if len(prefix) > 20 else rng.choice([0, 1, 2, 3, 4, 5, 9, 12])))
    d = dict(protocol_id=5, iscsi_name=name)
    s = name
    fmt = 0
    if kind == "iscsi1":
        isid = rng.choice(["%012x", "%012X", "%x"]) % rng.randrange(1 << 48)          # hex constants may use capitals (RFC 3720)
        d.update(tpid_format=1, iscsi_initiator_session_id=isid)
        s = name + ",i,0x" + isid
        fmt = 1
    raw = s.encode("utf-8") + b"\0"
    while len(raw) % 4:
        raw += b"\0"
    return d, bytes([(fmt << 6) | 5, 0]) + len(raw).to_bytes(2, "big") + raw


def check_transport_id(buf, want, where):
    """the TransportID at the start of buf: honest ADDITIONAL LENGTH, multiple of four, the expected bytes"""
    # SPC also lets (strictly: makes) an initiator pad an iSCSI TransportID to 24 bytes; then ADDITIONAL LENGTH counts the padding too
    if (want[0] & 0x0F) == 5 and len(want) < 24:
        padded = want[:2] + (20).to_bytes(2, "big") + want[4:] + bytes(24 - len(want))
        if bytes(buf) == padded:
            return None
    if bytes(buf[:len(want)]) != want or len(buf) != len(want):
        if (buf[0] & 0x0F) == 5 and len(buf) >= 4:
            al = int.from_bytes(buf[2:4], "big")
            if al != len(buf) - 4:
                return "%s: iSCSI TransportID ADDITIONAL LENGTH is %d but %d bytes follow" % (where, al, len(buf) - 4)
            if len(buf) % 4:
                return "%s: iSCSI TransportID is %d bytes long, not a multiple of four" % (where, len(buf))
        return "%s: TransportID bytes %s, the standard layout of the supplied values is %s" % (where, bytes(buf).hex(), want.hex())
    return None


# --------------------------------------------------------------------------------------------------------
# mode parameter lists

def mode_pages(rng):
    import spec_resp
    out = []
    for _ in range(rng.choice([1, 1, 2, 3])):
        which = rng.choice(["control", "control_ext", "disconnect", "element"])
        if which == "control":
            _, v = spec_resp.flat(rng, "mode_control")
            out.append((dict(v, ps=rng.randrange(2), spf=0, page_code=0x0A), "mode_control", 2))
        elif which == "control_ext":
            _, v = spec_resp.flat(rng, "mode_control_extension")
            out.append((dict(v, ps=rng.randrange(2), spf=1, page_code=0x0A, sub_page_code=1), "mode_control_extension", 4))
        elif which == "disconnect":
            _, v = spec_resp.flat(rng, "mode_disconnect_reconnect")
            out.append((dict(v, ps=rng.randrange(2), spf=0, page_code=0x02), "mode_disconnect_reconnect", 2))
        else:
            _, v = spec_resp.flat(rng, "mode_element_address")
            out.append((dict(v, ps=rng.randrange(2), spf=0, page_code=0x1D), "mode_element_address", 2))
    return out


def check_mode_list(buf, ten, hdr_vals, pages):
    hl = 8 if ten else 4
    if len(buf) < hl:
        return "mode parameter list shorter than its header"
    r = check_fields(buf, "mode_header10" if ten else "mode_header6", hdr_vals)
    if r:
        return r
    mdl = int.from_bytes(buf[0:2], "big") if ten else buf[0]
    # MODE DATA LENGTH is reserved in MODE SELECT; if it is filled in it has to be honest (n-1 / n-2 bytes follow)
    if mdl not in (0, len(buf) - (2 if ten else 1)):
        return "MODE DATA LENGTH is %d, %d bytes follow the field" % (mdl, len(buf) - (2 if ten else 1))
    bdl = int.from_bytes(buf[6:8], "big") if ten else buf[3]
    o = hl + bdl
    for i, (vals, fmt, ph) in enumerate(pages):
        if o + ph > len(buf):
            return "mode page %d missing from the list" % i
        r = check_fields(buf, "mode_sub_page" if ph == 4 else "mode_page_0", {k: vals[k] for k in ("ps", "spf", "page_code", "sub_page_code") if k in vals}, o, "page %d " % i)
        if r:
            return r
        pl = int.from_bytes(buf[o + 2:o + 4], "big") if ph == 4 else buf[o + 1]
        nxt = o + ph + pl
        r = check_fields(buf, fmt, vals, o + ph, "page %d " % i)
        if r:
            return r
        if pl < FLAT[fmt]["length"] or nxt > len(buf):
            return "page %d: PAGE LENGTH %d does not cover the page body (%d bytes) within the list" % (i, pl, FLAT[fmt]["length"])
        o = nxt
    if o != len(buf):
        return "the mode parameter list is %d bytes long, headers and pages account for %d" % (len(buf), o)
    return None


def header_keys(ten):
    """(key, largest value) for every entry of the library's mode parameter header table, from coq/Gen/summary.json"""
    import json
    import os
    qual = "scsi_enum_modesense.mode_parameter_header%s_bits" % ("10" if ten else "6")
    path = os.path.join(os.path.dirname(os.path.dirname(os.path.abspath(__file__))), "coq", "Gen", "summary.json")
    out = []
    for t in json.load(open(path))["tables"]:
        if t["qual"] == qual:
            for k, e in t["entries"]:
                if e[0] == "mask" and e[1] > 0:
                    m = e[1]
                    while not m & 1:
                        m >>= 1
                    out.append((k, m))
    return out or [("medium_type", 255), ("device_specific_parameter", 255)]


# --------------------------------------------------------------------------------------------------------
# all cases: dict(kind, ctor, args..., check=callable(cdb, dataout) -> None | str)

def cases(rng, n_each=8):
    import spec_resp
    out = []
    for case_no in range(n_each):
        # ---- MODE SELECT(6) / (10)
        for ten in (False, True):
            pgs = mode_pages(rng)
            # every key the library's own header table accepts is supplied (table regenerated from /repo on this run)
            hv = {k: rng.randrange(hi + 1) for k, hi in header_keys(ten)}
            data = dict(hv, mode_pages=[p[0] for p in pgs])
            pf, sp = rng.randrange(2), rng.randrange(2)

            def chk(cdb, dout, ten=ten, hv=hv, pgs=pgs, pf=pf, sp=sp):
                pll = int.from_bytes(cdb[7:9], "big") if ten else cdb[4]
                if pll != len(dout):
                    return "CDB PARAMETER LIST LENGTH %d, the list is %d bytes" % (pll, len(dout))
                if (cdb[1] >> 4) & 1 != pf or cdb[1] & 1 != sp:
                    return "PF/SP not at byte 1 bits 4/0"
                return check_mode_list(dout, ten, hv, pgs)
            out.append(dict(kind="modeselect10" if ten else "modeselect6", cls="ModeSelect10" if ten else "ModeSelect6",
                            pos=[data], kw=dict(pf=pf, sp=sp), check=chk))
        # ---- PERSISTENT RESERVE OUT
        sa = rng.choice([0, 0, 0, 0, 1, 2, 3, 4, 5, 6, 8])         # REGISTER often: it is the one that carries TransportIDs
        vals = dict(reservation_key=rand_value(rng, 64), service_action_reservation_key=rand_value(rng, 64),
                    all_tg_pt=rng.randrange(2), aptpl=rng.randrange(2))
        scope, typ = rng.randrange(16), rng.randrange(16)
        tids = []
        if sa == 0 and rng.random() < 0.8:
            vals["spec_i_pt"] = 1
            tids = [transport_id_dict(rng) for _ in range(rng.choice([0, 1, 1, 2, 3]))]
        kw = dict(vals)
        if tids:
            kw["transport_ids"] = [t[0] for t in tids]

        def chk(cdb, dout, sa=sa, vals=vals, tids=tids, scope=scope, typ=typ):
            if int.from_bytes(cdb[5:9], "big") != len(dout):
                return "CDB PARAMETER LIST LENGTH %d, the list is %d bytes" % (int.from_bytes(cdb[5:9], "big"), len(dout))
            if cdb[1] & 0x1F != sa or cdb[2] >> 4 != scope or cdb[2] & 0xF != typ:
                return "SERVICE ACTION / SCOPE / TYPE not at their positions"
            r = check_fields(dout, "prout_basic", vals)
            if r:
                return r
            if vals.get("spec_i_pt"):
                if len(dout) < 28:
                    return "SPEC_I_PT set but no TRANSPORTID PARAMETER DATA LENGTH"
                tl = int.from_bytes(dout[24:28], "big")
                if tl != len(dout) - 28:
                    return "TRANSPORTID PARAMETER DATA LENGTH %d, %d bytes follow" % (tl, len(dout) - 28)
                want = b"".join(t[1] for t in tids)
                if bytes(dout[28:]) != want:
                    o = 28
                    for i, t in enumerate(tids):
                        n = 24 if (dout[o] & 0xF) != 5 else 4 + int.from_bytes(dout[o + 2:o + 4], "big")
                        r = check_transport_id(dout[o:o + n], t[1], "TransportID %d" % i)
                        if r:
                            return r
                        o += n
                    return "TransportID list differs from the standard layout"
            elif len(dout) != 24:
                return "basic parameter list is %d bytes, not 24" % len(dout)
            return None
        out.append(dict(kind="prout_basic", cls="PersistentReserveOut", sa=sa, pos=[sa], kw=dict(kw, scope=scope, pr_type=typ), check=chk))
        # REGISTER AND MOVE
        vals = dict(reservation_key=rand_value(rng, 64), service_action_reservation_key=rand_value(rng, 64),
                    unreg=rng.randrange(2), aptpl=rng.randrange(2), relative_target_port_id=rand_value(rng, 16))
        # every fourth REGISTER AND MOVE carries an iSCSI TransportID with a session id and one of the longest names there are
        tid = transport_id_dict(rng, kind="iscsi1", long_name=True) if case_no % 4 == 1 else transport_id_dict(rng)

        def chk(cdb, dout, vals=vals, tid=tid):
            if int.from_bytes(cdb[5:9], "big") != len(dout):
                return "CDB PARAMETER LIST LENGTH %d, the list is %d bytes" % (int.from_bytes(cdb[5:9], "big"), len(dout))
            r = check_fields(dout, "prout_register_and_move", vals)
            if r:
                return r
            tl = int.from_bytes(dout[20:24], "big")
            if tl != len(dout) - 24:
                return "TRANSPORTID LENGTH %d, %d bytes follow" % (tl, len(dout) - 24)
            return check_transport_id(dout[24:], tid[1], "TransportID")
        out.append(dict(kind="prout_register_and_move", cls="PersistentReserveOut", sa=7, pos=[7], kw=dict(vals, transport_id=tid[0]), check=chk))
        # ---- EXTENDED COPY (LID1 = SPC-4 class, LID4 = SPC-5 class)
        for lid4 in (False, True):
            tkey = "cscd" if lid4 else "target"
            targets, tchecks = [], []
            for _ in range(rng.randint(0, 3)):
                pdt = rng.choice([0, 0, 5, 1, 3] + ([] if lid4 else [4, 7]))
                desg, dexp = spec_resp.designator(rng, rng.choice(["naa3", "naa5", "naa6", "eui8", "eui12", "eui16", "t10", "relport", "vendor", "md5"]), piv=False)
                dd = dexp["designator"]
                tp = dict(code_set=dexp["code_set"], association=dexp["association"], designator_type=dexp["designator_type"],
                          designator_length=dexp["designator_length"], designator=dd)
                if len(desg) > 24:
                    continue
                t = dict(descriptor_type_code=0xE4, peripheral_device_type=pdt, relative_initiator_port_identifier=rand_value(rng, 16))
                t["%s_descriptor_parameters" % tkey] = tp
                exp = dict(descriptor_type_code=0xE4, peripheral_device_type=pdt, lu_id_type=0,
                           relative_initiator_port_identifier=t["relative_initiator_port_identifier"])
                dsp = {}
                if pdt in (0, 4, 5, 7):
                    dsp = dict(pad=rng.randrange(2), disk_block_length=rand_value(rng, 24))
                    exp.update(dsp)
                elif pdt == 1:
                    dsp = dict(pad=rng.randrange(2), fixed=rng.randrange(2), stream_block_length=rand_value(rng, 24))
                elif pdt == 3:
                    dsp = dict(pad=rng.randrange(2))
                    exp["pad"] = dsp["pad"]
                if dsp:
                    t["device_type_specific_parameters"] = dsp
                targets.append(t)
                tchecks.append((exp, dsp if pdt == 1 else None, desg))
            segs, schecks = [], []
            for _ in range(rng.randint(0, 3)):
                code = rng.choice([0x00, 0x0B, 0x01, 0x0C, 0x02, 0x0D])
                src, dst = "source_%s_descriptor_id" % tkey, "destination_%s_descriptor_id" % tkey
                if code in (0x02, 0x0D):
                    v = dict(descriptor_type_code=code, cat=rng.randrange(2), dc=rng.randrange(2), block_device_number_of_blocks=rand_value(rng, 16),
                             source_block_device_logical_block_address=rand_value(rng, 64),
                             destination_block_device_logical_block_address=rand_value(rng, 64))
                    v[src], v[dst] = rand_value(rng, 16), rand_value(rng, 16)
                    fmt, ln = ("xcopy5_segment_block_block" if lid4 else "xcopy_segment_block_block"), 28
                else:
                    v = dict(descriptor_type_code=code, cat=rng.randrange(2), stream_device_transfer_length=rand_value(rng, 24),
                             block_device_number_of_blocks=rand_value(rng, 16), block_device_logical_block_address=rand_value(rng, 64))
                    v[src], v[dst] = rand_value(rng, 16), rand_value(rng, 16)
                    fmt = ("xcopy5_segment_stream_block" if code in (1, 0xC) else "xcopy5_segment_block_stream") if lid4 else "xcopy_segment_block_stream"
                    ln = 24
                segs.append(dict(v))
                schecks.append((dict(v, descriptor_length=ln - 4), fmt, ln))
            inline = bytes(rng.randrange(256) for _ in range(rng.choice([0, 0, 5, 16])))
            hdr = dict(priority=rng.randrange(8), str=rng.randrange(2))
            if lid4:
                hdr.update(list_id_usage=rng.randrange(4), g_sense=rng.randrange(2), immed=rng.randrange(2), list_identifier=rand_value(rng, 32))
                kw = dict(sequential_striped=hdr["str"], list_id_usage=hdr["list_id_usage"], priority=hdr["priority"], g_sense=hdr["g_sense"],
                          immed=hdr["immed"], list_identifier=hdr["list_identifier"], cscd_descriptor_list=targets,
                          segment_descriptor_list=segs, inline_data=dict(b=list(inline)))
            else:
                hdr.update(nrcr=rng.randrange(2), list_identifier=rand_value(rng, 8))
                kw = dict(list_identifier=hdr["list_identifier"], sequential_striped=hdr["str"], nrcr=hdr["nrcr"], priority=hdr["priority"],
                          target_descriptor_list=targets, segment_descriptor_list=segs, inline_data=dict(b=list(inline)))

            def chk(cdb, dout, lid4=lid4, hdr=hdr, tchecks=tchecks, schecks=schecks, inline=inline):
                if int.from_bytes(cdb[10:14], "big") != len(dout):
                    return "CDB PARAMETER LIST LENGTH %d, the list is %d bytes" % (int.from_bytes(cdb[10:14], "big"), len(dout))
                if lid4 and cdb[1] & 0x1F != 1:
                    return "EXTENDED COPY(LID4) service action is not 01h"
                hl = 48 if lid4 else 16
                hf = "xcopy_lid4_header" if lid4 else "xcopy_lid1_header"
                tl = 32 * len(tchecks)
                sl = sum(s[2] for s in schecks)
                want = dict(hdr, segment_descriptor_list_length=sl, inline_data_length=len(inline))
                if lid4:
                    want.update(parameter_list_format=1, header_cscd_descriptor_list_length=0x20, header_cscd_descriptor_type_code=0xFF,
                                cscd_descriptor_list_length=tl)
                else:
                    want.update(target_descriptor_list_length=tl)
                r = check_fields(dout, hf, want)
                if r:
                    return r
                if len(dout) != hl + tl + sl + len(inline):
                    return "the parameter list is %d bytes; header, descriptors and inline data account for %d" % (len(dout), hl + tl + sl + len(inline))
                o = hl
                for i, (exp, seq, desg) in enumerate(tchecks):
                    r = check_fields(dout, "xcopy_cscd_descriptor" if lid4 else "xcopy_target_descriptor", exp, o, "CSCD descriptor %d " % i)
                    if r:
                        return r
                    if seq:
                        r = check_fields(dout, "xcopy_target_sequential", seq, o, "CSCD descriptor %d " % i)
                        if r:
                            return r
                    # identification descriptor: CODE SET / ASSOCIATION / DESIGNATOR TYPE / LENGTH at bytes 4-7, designator from byte 8
                    if bytes(dout[o + 4:o + 4 + len(desg)]) != desg:
                        return "CSCD descriptor %d: designation descriptor bytes %s, standard layout %s" % (i, bytes(dout[o + 4:o + 4 + len(desg)]).hex(), desg.hex())
                    o += 32
                for i, (v, fmt, ln) in enumerate(schecks):
                    r = check_fields(dout, fmt, v, o, "segment descriptor %d " % i)
                    if r:
                        return r
                    o += ln
                if bytes(dout[o:]) != inline:
                    return "inline data not at the end of the list"
                return None
            out.append(dict(kind="xcopy_lid4" if lid4 else "xcopy_lid1", cls="ExtendedCopy5" if lid4 else "ExtendedCopy4", pos=[], kw=kw, check=chk))
    return out
