"""Correspondence between the regenerated execute() programs (Model/Exec.v semantics) and the real
SCSIDevice / ISCSIDevice over the stub bindings: histories of executions over four command objects (some
re-used), every status byte, raw sense on/off; sense values are identified by the execution that produced
them.  Also the implementation-side oracle of C07."""
import json
import os
import random
import sys

HERE = os.path.dirname(os.path.abspath(__file__))
sys.path.insert(0, os.path.dirname(HERE))

EXN_OUT = {"busy": "BusyStatus", "oserror": "OSError"}


def sense_for(i):
    s = bytearray(18)
    s[0] = 0x70
    s[2] = 0x05
    s[7] = 10
    s[12] = (i % 250) + 1
    s[13] = 0x55
    return bytes(s)


def impl_main():
    import tempfile
    import shutil
    import iscsi
    import sgio
    from pyscsi.pyscsi.scsi_cdb_testunitready import TestUnitReady
    from pyscsi.pyscsi.scsi_device import SCSIDevice
    from pyscsi.pyiscsi.iscsi_device import ISCSIDevice
    from pyscsi.pyscsi.scsi_enum_command import spc
    from pyscsi.pyscsi import scsi_enum_command as ec
    from pyscsi.pyscsi.scsi_command import SCSICommand
    from pyscsi.pyscsi.scsi_opcode import OpCode

    class RawCommand(SCSICommand):
        _cdb_bits = {"opcode": [0xFF, 0]}

        def __init__(self, opcode):
            SCSICommand.__init__(self, opcode, 0, 0)
            self.cdb = self.build_cdb(opcode=self.opcode.value)

    d = tempfile.mkdtemp(prefix="verif-exec-", dir="/dev/shm")
    node = os.path.join(d, "sg0")
    open(node, "wb").close()
    out = []
    try:
        for hist in json.load(sys.stdin):
            sd = SCSIDevice(node, detect_replugged=False)
            idev = ISCSIDevice("iscsi://127.0.0.1/iqn.verif/0", "iqn.init")
            cmds = [TestUnitReady(spc.TEST_UNIT_READY) for _ in range(4)]
            res = []
            for i, st in enumerate(hist):
                cmd = cmds[st["cmd"]]
                if "op" in st:
                    # what a status means does not depend on which command it answers or on the command set the device object carries:
                    # a bare command with this operation code, the device attached to this command set
                    cmd = RawCommand(OpCode("OP_%02X" % st["op"], st["op"], {}))
                    sd.opcodes = idev.opcodes = getattr(ec, st["set"])
                if st["t"] == "iscsi":
                    iscsi.SCRIPT[:] = [(st["v"], sense_for(i), None)]
                    dev = idev
                else:
                    if st["o"] == "good":
                        sgio.SCRIPT[:] = [("good",)]
                    elif st["o"] == "cc":
                        sgio.SCRIPT[:] = [("cc", sense_for(i))]
                    elif st["o"] == "busy":
                        sgio.SCRIPT[:] = [("raise", sd.BusyStatus())]
                    else:
                        sgio.SCRIPT[:] = [("raise", OSError("x"))]
                    dev = sd
                try:
                    r = dev.execute(cmd, en_raw_sense=st["raw"])
                    o = ["return"] if r is None else ["exn", "ReturnedValue"]
                except dev.CheckCondition as e:
                    asc = getattr(e, "asc", None)
                    o = ["cc", None if asc is None else asc - 1]
                except Exception as e:  # noqa
                    o = ["exn", type(e).__name__]
                rawd = cmd.raw_sense_data
                res.append([o, None if not rawd else rawd[12] - 1])
            sd.close()
            idev.close()
            out.append(res)
    finally:
        shutil.rmtree(d, ignore_errors=True)
    print(json.dumps(out))


def gen_hists(seed, count):
    rng = random.Random(seed ^ 0xC07)
    hists = []
    # exhaustive single executions first: all 256 statuses x raw, fresh command; then a failed command re-used
    for v in range(256):
        for raw in (False, True):
            hists.append([dict(t="iscsi", cmd=0, v=v, raw=raw)])
            hists.append([dict(t="iscsi", cmd=0, v=2, raw=False), dict(t="iscsi", cmd=0, v=v, raw=raw)])
    for o in ("good", "cc", "busy", "oserror"):
        for raw in (False, True):
            hists.append([dict(t="sg", cmd=0, o=o, raw=raw)])
            hists.append([dict(t="sg", cmd=0, o="cc", raw=True), dict(t="sg", cmd=0, o=o, raw=raw)])
    # every operation code with a fixed CDB length x every command set the device object may carry x the statuses that are successes of
    # SOME command in the standards (CONDITION MET, INTERMEDIATE ...) and a few others: the library reports each of them as its error
    for cs in ("spc", "sbc", "ssc", "smc", "mmc"):
        for op in list(range(0x00, 0x60)) + list(range(0x80, 0xC0)):
            for v in (0x04, 0x10, 0x14, 0x08, 0x22):
                hists.append([dict(t="iscsi", cmd=0, v=v, raw=bool((op + v) & 1), op=op, set=cs)])
    count += len(hists)
    while len(hists) < count:
        h = []
        for _ in range(rng.randint(2, 30)):
            if rng.random() < 0.55:
                v = rng.choice([0, 0, 2, 2, 2, 4, 8, 0x18, 0x28, 0x30, 0x40, 0xFF, rng.randint(0, 255)])
                h.append(dict(t="iscsi", cmd=rng.randint(0, 3), v=v, raw=rng.random() < 0.4))
            else:
                h.append(dict(t="sg", cmd=rng.randint(0, 3), o=rng.choice(["good", "cc", "cc", "busy", "oserror"]),
                              raw=rng.random() < 0.4))
        hists.append(h)
    return hists


def oracle(hist, res):
    """the property itself, on what the implementation did: -> None or a description"""
    for i, (st, r) in enumerate(zip(hist, res)):
        o, rawd = r
        good = (st["t"] == "iscsi" and st["v"] == 0) or (st["t"] == "sg" and st["o"] == "good")
        cc = (st["t"] == "iscsi" and st["v"] == 2) or (st["t"] == "sg" and st["o"] == "cc")
        if o[0] == "return" and not good:
            if cc and st["raw"] and rawd == i:
                continue      # raw sense explicitly requested and attached unmodified
            return "execution %d (%s) returned normally although the target did not report GOOD" % (i, st)
        if good and o[0] != "return":
            return "execution %d (%s) with GOOD status raised %s" % (i, st, o)
        if cc and o[0] == "cc" and o[1] != i:
            return "execution %d: CheckCondition reports the sense of execution %s, not of this one" % (i, o[1])
        if cc and o[0] not in ("cc", "return"):
            return "execution %d: CHECK CONDITION surfaced as %s" % (i, o)
        if cc and st["raw"] and rawd != i:
            return "execution %d: raw sense requested but cmd.raw_sense_data holds the sense of execution %s" % (i, rawd)
        if st["t"] == "iscsi" and not good and not cc:
            named = {4: "ConditionsMet", 8: "BusyStatus", 0x18: "ReservationConflict", 0x28: "TaskSetFull",
                     0x30: "ACAActive", 0x40: "TaskAborted"}
            if st["v"] in named and o != ["exn", named[st["v"]]]:
                return "execution %d: status %#x raised %s instead of %s" % (i, st["v"], o, named[st["v"]])
        if st["t"] == "sg" and st["o"] in EXN_OUT and o != ["exn", EXN_OUT[st["o"]]]:
            return "execution %d: the binding's %s surfaced as %s" % (i, EXN_OUT[st["o"]], o)
    return None


def coq_case(h, r):
    from vlib import cexn

    def step(s):
        raw = "true" if s["raw"] else "false"
        if s["t"] == "iscsi":
            return "EIscsi %d%%nat %d %s" % (s["cmd"], s["v"], raw)
        o = {"good": "SgReturn", "cc": "SgCheckCondition", "busy": "(SgRaises BusyStatus)", "oserror": "(SgRaises OSError)"}[s["o"]]
        return "ESg %d%%nat %s %s" % (s["cmd"], o, raw)

    def on(x):
        return "None" if x is None else "(Some %d%%nat)" % x

    def ob(x):
        o, rawd = x
        if o[0] == "return":
            e = "OReturn"
        elif o[0] == "cc":
            e = "OCC %s" % on(o[1])
        else:
            e = "OExn %s" % cexn(o[1])
        return "(%s, %s)" % (e, on(rawd))
    return "([%s], [%s])" % ("; ".join(step(s) for s in h), "; ".join(ob(x) for x in r))


HEADER = """From Coq Require Import String.
From PS Require Import Base.Bytes Base.Result Model.CorrUtil Model.Exec Model.ExecCorr.
Open Scope N_scope.
"""


def run(rep, tier, seed):
    import vlib
    count = 450 if tier == "quick" else 10000          # random histories, on top of the exhaustive sweeps
    hists = gen_hists(seed, count)
    results = vlib.run_impl("corr/exec.py", hists, args=["--impl"], extra_path=[os.path.join(vlib.TOOLS, "stubs")], timeout=900)
    with vlib.Lock():
        ok, log, _ = vlib.coq_make(["Model/ExecCorr.vo"])
    if not ok:
        rep.oblig("build:Model/ExecCorr.vo", False, vlib.coq_first_error(log))
        return [dict(case=None)], hists, results
    shards, SH = [], 300
    for s in range(0, len(hists), SH):
        body = ";\n  ".join(coq_case(h, r) for h, r in zip(hists[s:s + SH], results[s:s + SH]))
        shards.append(("cases_exec_%d" % (s // SH), HEADER +
                       "Definition cases : list exec_case := [\n  %s].\nEval vm_compute in (mismatches check_exec_case cases).\n" % body))
    outs = vlib.coqc_many(shards, timeout=600)
    bad = []
    for idx, (name, _) in enumerate(shards):
        rc, out = outs[name]
        mm = vlib.parse_eval_list(out)
        if rc != 0 or mm is None:
            rep.oblig("correspondence:exec shard %s compiles" % name, False, out[-600:])
            bad.append(dict(case=None, error=out[-600:]))
            continue
        for j in mm:
            bad.append(dict(case=hists[idx * SH + j], impl=results[idx * SH + j]))
    nsteps = sum(len(h) for h in hists)
    dist = {}
    for r in results:
        for o, _ in r:
            k = o[0] if o[0] != "exn" else "exn:" + o[1]
            dist[k] = dist.get(k, 0) + 1
    rep.suite("execute() of both transports over the stub bindings: histories over 4 command objects vs the regenerated programs",
              len(hists), len(bad), samples=[dict(history=hists[-1][:4], impl=results[-1][:4])],
              distribution=dict(executions=nsteps, outcomes=dist, exhaustive_statuses=256))
    return bad, hists, results


if __name__ == "__main__":
    if "--impl" in sys.argv:
        impl_main()
