"""Correspondence between the constructor IR semantics (Model/Ctor.v run on the REGENERATED
Gen/Ctors.v) and the real constructors of every SCSICommand subclass.

`python ctors.py --impl`  : implementation side (stdin JSON cases, stdout JSON results)
run(rep, tier, seed, summary) : generator + Coq side
"""
import json
import os
import random
import sys

HERE = os.path.dirname(os.path.abspath(__file__))
sys.path.insert(0, os.path.dirname(HERE))

# named python objects passed as opaque arguments (the model only sees the name)
SAMPLES = {
    "modesel_control": {"medium_type": 0, "device_specific_parameter": 0x90, "block_descriptor_length": 0,
                        "mode_pages": [{"ps": 1, "spf": 0, "page_code": 0x0A, "tst": 4, "tmf_only": 1, "dpicz": 1,
                                        "d_sense": 1, "gltsd": 1, "rlec": 1, "queue_algorithm_modifier": 9, "nuar": 1,
                                        "qerr": 3, "vs": 1, "rac": 1, "ua_intlck_ctrl": 3, "swp": 1, "ato": 1, "tas": 1,
                                        "atmpe": 1, "rwwp": 1, "autoload_mode": 7, "busy_timeout_period": 500,
                                        "extended_self_test_completion_time": 700}]},
    "modesel_disconnect": {"medium_type": 1, "device_specific_parameter": 0, "block_descriptor_length": 0,
                           "mode_pages": [{"ps": 0, "spf": 0, "page_code": 0x02, "buffer_full_ratio": 3}]},
    "modesel_ctrlext": {"medium_type": 0, "device_specific_parameter": 0, "block_descriptor_length": 0,
                        "mode_pages": [{"ps": 1, "spf": 1, "page_code": 0x0A, "sub_page_code": 1, "tcmos": 1}]},
    "modesel_eaa": {"medium_type": 97, "device_specific_parameter": 98, "block_descriptor_length": 0,
                    "mode_pages": [{"ps": 1, "spf": 0, "page_code": 0x1D, "first_medium_transport_element_address": 257,
                                    "num_medium_transport_elements": 258}]},
    "modesel_two_pages": {"medium_type": 0, "device_specific_parameter": 0, "block_descriptor_length": 0,
                          "mode_pages": [{"ps": 0, "spf": 0, "page_code": 0x02}, {"ps": 0, "spf": 0, "page_code": 0x0A}]},
    "modesel_empty": {},
    "modesel_nopages": {"mode_pages": []},
    "empty_list": [],
    "bad_list": [{"nonsense": 1}],
}


def sample(name):
    import copy
    return copy.deepcopy(SAMPLES[name])


# ---------------------------------------------------------------------------------------------
# implementation side


def to_py(v):
    if v[0] == "i":
        return v[1]
    if v[0] == "b":
        return bytearray(v[1])
    if v[0] == "n":
        return None
    return sample(v[1])


def from_py(v):
    if v is None:
        return ["n"]
    if isinstance(v, bool):
        return ["i", int(v)]
    if isinstance(v, int):
        return ["i", v]
    if isinstance(v, (bytes, bytearray)):
        if len(v) > 64 and not any(v):
            return ["z", len(v)]
        return ["b", list(v)]
    return ["o", type(v).__name__]


def impl_main():
    import importlib
    from pyscsi.pyscsi.scsi_opcode import OpCode
    cases = json.load(sys.stdin)
    out = []
    # before any command class is used, the generic base class is used on its own — to hand-build a command the library has no class for:
    # what the classes build afterwards must not depend on that (anything the base class remembers would be inherited by all of them)
    try:
        from pyscsi.pyscsi.scsi_command import SCSICommand
        from pyscsi.pyscsi.scsi_enum_command import sbc
        _b = SCSICommand(sbc.TEST_UNIT_READY, 0, 0)
        _b.build_cdb(opcode=0)
        SCSICommand.marshall_cdb({"opcode": 0})
        SCSICommand.unmarshall_cdb(bytearray(6))
    except Exception:  # noqa
        pass
    for c in cases:
        mod = importlib.import_module("pyscsi.pyscsi." + c["stem"])
        cls = getattr(mod, c["cls"])
        # record the helper calls the IR names (Cls.fn): the model takes their results as given
        recorded = {}
        patched = []
        for full in c.get("calls", []):
            cname, fn = full.rsplit(".", 1)
            owner = getattr(mod, cname, None)
            if owner is None:
                continue
            raw = owner.__dict__.get(fn)
            if raw is None:
                continue
            orig = getattr(owner, fn)

            def make(orig, full):
                def wrapper(*a, **k):
                    try:
                        r = orig(*a, **k)
                    except Exception as e:  # noqa
                        recorded[full] = ["exn", type(e).__name__]
                        raise
                    recorded[full] = ["ok", from_py(r)]
                    return r
                return wrapper
            w = make(orig, full)
            setattr(owner, fn, staticmethod(w) if isinstance(raw, (staticmethod, classmethod)) else w)
            patched.append((owner, fn, raw))
        try:
            op = OpCode("x", c["op"], dict(c["sa"]))
            try:
                cmd = cls(op, *[to_py(v) for v in c["pos"]], **{k: to_py(v) for k, v in c["kw"]})
                r = ["ok", list(cmd.cdb), from_py(cmd.dataout), from_py(cmd.datain)]
                # the static decode / encode of the class, right after construction (C02)
                try:
                    dec = cls.unmarshall_cdb(cmd.cdb)
                    r.append(["ok", [[k, from_py(v)] for k, v in dec.items()]])
                    try:
                        r.append(["ok", list(cls.marshall_cdb(dec))])
                    except Exception as e:  # noqa
                        r.append(["exn", type(e).__name__])
                except Exception as e:  # noqa
                    r.append(["exn", type(e).__name__])
                    r.append(["exn", "skipped"])
            except Exception as e:  # noqa
                r = ["exn", type(e).__name__]
        finally:
            for owner, fn, raw in patched:
                setattr(owner, fn, raw)
        out.append(dict(res=r, ext=recorded))
    print(json.dumps(out))


# ---------------------------------------------------------------------------------------------
# generator

INT_POOL = [0, 1, 2, 3, 5, 7, 8, 0x0F, 0x1F, 0xFF, 0x100, 0xFFFF, 0x10000, 0xFFFFFF, 0xFFFFFFFF, 1 << 32,
            (1 << 48) - 1, (1 << 63), (1 << 64) - 1]

OPAQUE = {  # (class, param) -> sample names
    ("ModeSelect6", "data"): ["modesel_control", "modesel_disconnect", "modesel_ctrlext", "modesel_eaa",
                              "modesel_two_pages", "modesel_empty", "modesel_nopages"],
    ("ModeSelect10", "data"): ["modesel_control", "modesel_disconnect", "modesel_empty"],
    ("ExtendedCopy", "target_descriptor_list"): ["empty_list", "bad_list"],
    ("ExtendedCopy", "cscd_descriptor_list"): ["empty_list", "bad_list"],
    ("ExtendedCopy", "segment_descriptor_list"): ["empty_list", "bad_list"],
}

SA_TABLES = {
    "PersistentReserveIn": [["READ_KEYS", 0], ["READ_RESERVATION", 1], ["REPORT_CAPABILITIES", 2], ["READ_FULL_STATUS", 3]],
    "PersistentReserveOut": [["REGISTER", 0], ["RESERVE", 1], ["RELEASE", 2], ["CLEAR", 3], ["PREEMPT", 4],
                             ["PREEMPT_AND_ABORT", 5], ["REGISTER_AND_IGNORE_EXISTING_KEY", 6], ["REGISTER_AND_MOVE", 7]],
    "default": [["READ_CAPACITY_16", 0x10], ["GET_LBA_STATUS", 0x12], ["REPORT_PRIORITY", 0x0E],
                ["REPORT_TARGET_PORT_GROUPS", 0x0A]],
}


def gen_value(rng, cls, p):
    if (cls, p) in OPAQUE:
        return ["o", rng.choice(OPAQUE[(cls, p)])]
    if p in ("data", "inline_data"):
        r = rng.random()
        if r < 0.2:
            return ["n"]
        return ["b", [rng.randint(0, 255) for _ in range(rng.choice([0, 1, 4, 16, 512]))]]
    if p == "blocksize":
        return rng.choice([["i", 0], ["i", 1], ["i", 512], ["i", 4096], ["i", 520], ["n"]]) if rng.random() < 0.9 else ["i", rng.randint(0, 9000)]
    if p == "extra_tl":
        return rng.choice([["n"], ["i", 0], ["i", 3], ["i", 600]])
    if p == "lba" and cls.startswith("ReadCd"):
        return ["i", rng.choice(INT_POOL)]
    if p in ("t_length",):
        return ["i", rng.choice([0, 1, 2, 3, 3, 2, 1, 4])]
    if p in ("byte_block", "t_type", "t_dir", "ndob", "unmap", "anchor", "evpd", "dbd", "immed", "pf", "sp", "extend", "ck_cond"):
        return ["i", rng.choice([0, 1, 1, 0, 2])]
    if p in ("alloclen", "alloc_len"):
        return ["i", rng.choice([0, 1, 2, 8, 255, 256, 0xFFFF, 0x10000, rng.randint(0, 70000)])]
    if p in ("tl", "count", "fetures"):   # multiplied by the block size: keep the buffers small
        return ["i", rng.choice([0, 1, 2, 8, 255, 256, 2048, rng.randint(0, 2048)])]
    if rng.random() < 0.75:
        return ["i", rng.choice(INT_POOL)]
    w = rng.choice([1, 3, 5, 8, 16, 32, 48, 64])
    return ["i", rng.getrandbits(w)]


def gen_cases(seed, per_class, ctors):
    rng = random.Random(seed ^ 0xC7025)
    cases = []
    for ci in ctors:
        if not ci.get("cls"):
            continue
        params = ci["params"]
        nreq = len(params) - ci.get("ndefaults", 0)
        cls = ci["cls"]
        sa = SA_TABLES.get(cls if not cls.startswith("PersistentReserveIn") else "PersistentReserveIn", SA_TABLES["default"])
        for k in range(per_class):
            r = rng.random()
            # operation code: mostly a plausible one of each group, sometimes one without a fixed CDB length
            opv = rng.choice([0x00, 0x12, 0x1A, 0x28, 0x2A, 0x41, 0x5E, 0x85, 0x88, 0x93, 0x9E, 0xA0, 0xA3, 0xA8, 0xB8])
            if r < 0.85 and ci.get("cdb_len"):
                lo, hi = {6: (0, 0x1F), 10: (0x20, 0x5F), 12: (0xA0, 0xBF), 16: (0x80, 0x9F)}.get(ci["cdb_len"], (0, 0xFF))
                opv = rng.randint(lo, hi)
            elif r < 0.91:
                opv = rng.choice([0x60, 0x7F, 0xC0, 0xFF, 0x1F, 0x20, 0x5F, 0x80, 0x9F, 0xBF, 0x7E])
            vals = [gen_value(rng, cls, p) for p in params]
            # how many positional, which optional ones supplied
            npos = rng.randint(0, len(params)) if rng.random() < 0.5 else nreq
            if rng.random() < 0.04:
                npos = len(params) + 1          # too many positional arguments
                vals.append(["i", 1])
            pos = vals[:npos]
            kw = []
            for i in range(npos, len(params)):
                if i < nreq:
                    if rng.random() < 0.97:
                        kw.append([params[i], vals[i]])
                elif rng.random() < 0.5:
                    kw.append([params[i], vals[i]])
            if rng.random() < 0.05:
                kw.append(["no_such_parameter", ["i", 1]])
            if rng.random() < 0.03 and pos and params:
                kw.append([params[0], ["i", 2]])  # duplicate of a positional
            if ci.get("kwargs") and cls == "PersistentReserveOut" and rng.random() < 0.8:
                for key in ("reservation_key", "service_action_reservation_key", "aptpl", "spec_i_pt", "all_tg_pt", "unreg",
                            "relative_target_port_id"):
                    if rng.random() < 0.4:
                        kw.append([key, ["i", rng.choice([0, 1, 0xABCDEF, (1 << 64) - 1])]])
            rng.shuffle(kw)
            sa_use = sa if rng.random() < 0.9 else []
            if (opv >> 5) in (3, 6, 7):
                # one fault at a time: with an operation code that has no CDB length AND a missing service action Python raises
                # whichever it evaluates first (an argument of the parent __init__ call); the IR inlines the parent and does not
                # model that precedence (DESIGN.md section 7)
                sa_use = sa
            cases.append(dict(key=ci["key"], stem=ci["stem"], cls=cls, op=opv, sa=sa_use, pos=pos, kw=kw,
                              calls=ci.get("calls", [])))
    return cases


# ---------------------------------------------------------------------------------------------
# Coq side


def cval(v):
    from vlib import cbytes, cstr
    if v[0] == "i":
        return "CInt %d" % v[1]
    if v[0] == "b":
        return "CBytes %s" % cbytes(v[1])
    if v[0] == "n":
        return "CNone"
    if v[0] == "z":
        return "CZeros %d" % v[1]
    return "COpaque %s" % cstr(v[1])


def coq_case(c, r, coqname):
    from vlib import cbytes, cstr, cexn
    res = r["res"]
    dec = "None"
    if res[0] == "ok":
        exp = "Ok (%s, %s, %s)" % (cbytes(res[1]), cval(res[2]), cval(res[3]))
        if len(res) >= 6 and res[4][0] == "ok" and all(v[0] in ("i", "b") for _k, v in res[4][1]):
            d = "[" + "; ".join("(%s, %s)" % (cstr(k), ("VI %d" % v[1]) if v[0] == "i" else "VB %s" % cbytes(v[1]))
                                for k, v in res[4][1]) + "]"
            re_ = "Ok %s" % cbytes(res[5][1]) if res[5][0] == "ok" else "Raise %s" % cexn(res[5][1])
            dec = "Some (%s, %s)" % (d, re_)
    else:
        exp = "Raise %s" % cexn(res[1])
    ext = "; ".join("(%s, %s)" % (cstr(k), ("Ok (%s)" % cval(v[1])) if v[0] == "ok" else "Raise %s" % cexn(v[1]))
                    for k, v in sorted(r["ext"].items()))
    return "mkCase %s (mkOp %d [%s]) [%s] [%s] [%s] (%s) (%s)" % (
        coqname[c["key"]], c["op"], "; ".join("(%s, %d)" % (cstr(k), v) for k, v in c["sa"]),
        "; ".join(cval(v) for v in c["pos"]), "; ".join("(%s, %s)" % (cstr(k), cval(v)) for k, v in c["kw"]),
        ext, exp, dec)


CASE_HEADER = """From Coq Require Import String.
From PS Require Import Base.Bytes Base.Result Model.Converter Model.CorrUtil Model.Command Model.Ctor Model.CtorCorr Gen.Tables Gen.Ctors.
Open Scope string_scope. Open Scope N_scope.
"""


def call_names(summary):
    """helper calls (ECall names) per constructor, read from the generated file"""
    import re
    import vlib
    txt = open(os.path.join(vlib.COQ, "Gen", "Ctors.v")).read()
    out = {}
    for m in re.finditer(r'Definition (C_\w+) : ctor := (.*?)\n\n', txt, re.S):
        out[m.group(1)] = sorted(set(re.findall(r'ECall "([^"]+)"', m.group(2))))
    return out


def run(rep, tier, seed, summary, only=None):
    import vlib
    ctors = [dict(c) for c in summary["ctors"]["ctors"]]
    calls = call_names(summary)
    tbl = {t["qual"]: t["entries"] for t in summary["tables"]}
    for c in ctors:
        c["calls"] = calls.get(c["coq"], [])
        need = 0
        for _k, e in tbl.get(c.get("bits"), []):
            if e[0] == "mask":
                m, n = e[1], 1
                while m > 0xFF:
                    m >>= 8
                    n += 1
                need = max(need, e[2] + n)
        c["cdb_len"] = min([x for x in (6, 10, 12, 16) if x >= need] or [16])
    if only:
        ctors = [c for c in ctors if c["key"] in only]
    per_class = 150 if tier == "quick" else 3000
    cases = gen_cases(seed, per_class, ctors)
    corpus_p = os.path.join(HERE, "corpus", "ctors.json")
    if os.path.exists(corpus_p):
        keys = {c["key"] for c in ctors}
        cases = [c for c in json.load(open(corpus_p)) if c["key"] in keys] + cases
    results = []
    CH = 3000
    for i in range(0, len(cases), CH):
        results += vlib.run_impl("corr/ctors.py", cases[i:i + CH], args=["--impl"], timeout=900)
    coqname = {c["key"]: c["coq"] for c in ctors}
    shards, SH = [], 400
    for s in range(0, len(cases), SH):
        body = ";\n  ".join(coq_case(c, r, coqname) for c, r in zip(cases[s:s + SH], results[s:s + SH]))
        shards.append(("cases_ctors_%d" % (s // SH), CASE_HEADER +
                       "Definition cases : list ctor_case := [\n  %s].\nEval vm_compute in (mismatches check_ctor_case cases).\n" % body))
    with vlib.Lock():
        ok, log, _ = vlib.coq_make(["Model/CtorCorr.vo", "Gen/Ctors.vo"])
    if not ok:
        rep.oblig("build:Model/CtorCorr.vo Gen/Ctors.vo", False, vlib.coq_first_error(log))
        return [dict(case=None, error="generated constructors do not compile")]
    outs = vlib.coqc_many(shards, timeout=900)
    bad = []
    for idx, (name, _) in enumerate(shards):
        rc, out = outs[name]
        mm = vlib.parse_eval_list(out)
        if rc != 0 or mm is None:
            rep.oblig("correspondence:ctors shard %s compiles" % name, False, out[-600:])
            bad.append(dict(case=None, shard=name, error=out[-600:]))
            continue
        for j in mm:
            bad.append(dict(case=cases[idx * SH + j], impl=results[idx * SH + j]))
    dist = {}
    for c, r in zip(cases, results):
        k = r["res"][0] if r["res"][0] == "ok" else "exn:" + r["res"][1]
        dist[k] = dist.get(k, 0) + 1
    distinct = len({json.dumps(c, sort_keys=True) for c in cases})
    rep.suite("constructors of %d command classes: real __init__ vs run_ctor on the regenerated IR" % len(ctors),
              len(cases), len(bad), distinct=distinct,
              samples=[dict(case={k: v for k, v in cases[7].items() if k != "calls"}, impl=results[7])],
              distribution=dict(outcomes=dist, classes=len(ctors), per_class=per_class))
    return bad


if __name__ == "__main__":
    if "--impl" in sys.argv:
        impl_main()
