"""Implementation side of C06: canonical responses of the conformant device (tools/spec_resp.py, no trailing bytes,
reserved bits zero) go bytes -> dict -> bytes and dict -> bytes -> dict through the library's real parser / builder
pairs, and one field is changed in between (read-modify-write). Input {seed, n_each}."""
import copy
import json
import os
import random
import sys

sys.path.insert(0, os.path.dirname(os.path.dirname(os.path.abspath(__file__))))
import spec_resp  # noqa: E402
from spec_formats import FLAT  # noqa: E402
from resp_impl import parsers, normalise  # noqa: E402

PAIRS = {"readcapacity10", "readcapacity16", "inquiry_standard", "vpd_lbp", "vpd_referrals", "vpd_extended_inquiry", "vpd_unit_serial",
         "vpd_device_identification", "getlbastatus", "reportluns", "rtpg", "report_priority", "readelementstatus", "modesense6", "modesense10"}
RMW = {"readcapacity10": ("readcapacity10", 0), "readcapacity16": ("readcapacity16", 0), "inquiry_standard": ("inquiry_standard", 0),
       "vpd_lbp": ("vpd_lbp", 0), "vpd_referrals": ("vpd_referrals", 0), "vpd_extended_inquiry": ("vpd_extended_inquiry", 0)}


def plain(x):
    if isinstance(x, dict):
        return {k: plain(v) for k, v in x.items()}
    if isinstance(x, (list, tuple)):
        return [plain(v) for v in x]
    if isinstance(x, (bytes, bytearray)):
        return bytes(x)
    return x


def reorder(x, rng, mode):
    """the same values with the keys of every dictionary in another order (lists keep their order)"""
    if isinstance(x, dict):
        items = [(k, reorder(v, rng, mode)) for k, v in x.items()]
        if mode == "reversed":
            items.reverse()
        else:
            rng.shuffle(items)
        return dict(items)
    if isinstance(x, list):
        return [reorder(v, rng, mode) for v in x]
    return x


def order_probe(build, d, b2, rng):
    for mode in ("reversed", "shuffled"):
        b4 = bytes(build(reorder(copy.deepcopy(d), rng, mode)))
        if b4 != b2:
            k = next((j for j in range(min(len(b4), len(b2))) if b4[j] != b2[j]), min(len(b4), len(b2)))
            return ("equal values supplied with the dictionary keys in another order (%s) are built differently: byte %d is %s, not %s" % (
                mode, k, b4[k:k + 4].hex(), b2[k:k + 4].hex()))
    return None


def main():
    req = json.load(sys.stdin)
    P = parsers()
    rng = random.Random(req["seed"] ^ 0xC06)
    out = []
    held = []                              # decoded results kept while later responses are decoded (read A, read B, ... write A)
    cases = spec_resp.cases(random.Random(req["seed"]), req["n_each"], trail=False)
    for i, c in enumerate(cases):
        if c["fmt"] not in PAIRS:
            continue
        if c["fmt"] in ("modesense6", "modesense10") and len(c["expect"]["mode_pages"]) != 1:
            continue                       # several mode pages: recorded finding of C04
        cls = P[c["call"]]
        b = bytes(c["data"])
        r = dict(i=i, fmt=c["fmt"], why=None)
        try:
            d = cls.unmarshall_datain(bytearray(b), **c["args"])
            b2 = bytes(cls.marshall_datain(copy.deepcopy(d)))
            stripped = None
            if c["fmt"] in ("modesense6", "modesense10"):
                ten = c["fmt"] == "modesense10"
                hl = 8 if ten else 4
                bdl = int.from_bytes(b[6:8], "big") if ten else b[3]
                if bdl:
                    t = bytearray(b[:hl] + b[hl + bdl:])
                    if ten:
                        t[0:2] = (len(t) - 2).to_bytes(2, "big")
                        t[6:8] = b"\0\0"
                    else:
                        t[0], t[3] = len(t) - 1, 0
                    stripped = bytes(t)
            if stripped is not None and b2 == stripped:
                r["why"] = "the block descriptor of the mode parameter list is neither reported nor rebuilt"
            elif b2 != b:
                k = next((j for j in range(min(len(b), len(b2))) if b[j] != b2[j]), min(len(b), len(b2)))
                r["why"] = "bytes -> dict -> bytes: rebuilt %d bytes for a %d-byte response; first difference at byte %d (%s vs %s)" % (
                    len(b2), len(b), k, b2[k:k + 4].hex(), b[k:k + 4].hex())
            else:
                d2 = cls.unmarshall_datain(bytearray(b2), **c["args"])
                if plain(d2) != plain(d):
                    r["why"] = "dict -> bytes -> dict: %s" % (spec_resp.subset(plain(d), plain(d2)) or spec_resp.subset(plain(d2), plain(d)))
                elif c["fmt"] in RMW:
                    key, byte, msb, width = rng.choice([f for f in FLAT[c["fmt"]]["fields"] if f[3] <= 64 and f[0] in d and isinstance(d[f[0]], int)
                                                        and f[0] not in ("additional_length",)])
                    nv = rng.randrange(1 << width)
                    d3 = copy.deepcopy(d)
                    d3[key] = nv
                    b3 = bytes(cls.marshall_datain(d3))
                    want = bytearray(b)
                    spec_resp.put(want, byte, msb, width, nv)
                    if b3 != bytes(want):
                        k = next((j for j in range(min(len(b3), len(want))) if b3[j] != want[j]), 0)
                        r["why"] = "read-modify-write of %s: byte %d differs although it is outside the field (or the field was not updated)" % (key, k)
            if r["why"] is None:
                r["why"] = order_probe(cls.marshall_datain, d, b2, rng)
            if r["why"] is None:
                held.append((i, c["fmt"], cls, d, b2))
        except Exception as e:  # noqa
            r["why"] = "raised %s: %s" % (type(e).__name__, str(e)[:100])
        out.append(r)
    for i, fmt, cls, d, b2 in held:
        r = dict(i=i, fmt=fmt, why=None)
        try:
            late = bytes(cls.marshall_datain(copy.deepcopy(d)))
            if late != b2:
                k = next((j for j in range(min(len(late), len(b2))) if late[j] != b2[j]), min(len(late), len(b2)))
                r["why"] = ("read A, read other responses, write A: the result decoded earlier is rebuilt as %d bytes differing at byte %d "
                            "from what it was rebuilt as right after decoding (%s vs %s)" % (len(late), k, late[k:k + 4].hex(), b2[k:k + 4].hex()))
        except Exception as e:  # noqa
            r["why"] = "read A, read other responses, write A: raised %s: %s" % (type(e).__name__, str(e)[:100])
        out.append(r)
    # TransportIDs and designators on their own
    from pyscsi.pyscsi.scsi_cdb_persistentreservein import PersistentReserveInReadFullStatus as FS
    from pyscsi.pyscsi.scsi_cdb_inquiry import Inquiry
    for j in range(req["n_each"] * 4):
        tb, texp = spec_resp.transport_id(rng)
        r = dict(i=-1, fmt="transport_id", why=None, data=list(tb))
        try:
            d = FS.unmarshall_transport_id(bytearray(tb))
            b2 = bytes(FS.marshall_transport_id(copy.deepcopy(d)))
            if b2 != tb:
                r["why"] = "TransportID bytes -> dict -> bytes: %s rebuilt as %s" % (tb.hex(), b2.hex())
            elif plain(FS.unmarshall_transport_id(bytearray(b2))) != plain(d):
                r["why"] = "TransportID dict -> bytes -> dict differs"
        except Exception as e:  # noqa
            r["why"] = "TransportID raised %s: %s" % (type(e).__name__, str(e)[:80])
        out.append(r)
        db, dexp = spec_resp.designator(rng)
        r = dict(i=-1, fmt="designator:%d" % dexp["designator_type"], why=None, data=list(db))
        try:
            page = bytes([0, 0x83]) + len(db).to_bytes(2, "big") + db
            d = Inquiry.unmarshall_datain(bytearray(page), evpd=1)
            b2 = bytes(Inquiry.marshall_datain(copy.deepcopy(d)))
            if b2 != page:
                r["why"] = "designation descriptor bytes -> dict -> bytes: %s rebuilt as %s" % (page.hex(), b2.hex())
            else:
                r["why"] = order_probe(Inquiry.marshall_datain, d, b2, rng)
        except Exception as e:  # noqa
            r["why"] = "designation descriptor raised %s: %s" % (type(e).__name__, str(e)[:80])
        out.append(r)
    print(json.dumps(out))


if __name__ == "__main__":
    main()
