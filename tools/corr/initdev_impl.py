"""Implementation side of C19, run once per configuration (VERIF_BINDINGS = '', 'sgio', 'iscsi', 'sgio,iscsi'):
imports every module under pyscsi, builds/encodes/decodes a sample of commands, drives the facade over a plain
device object, and calls init_device / the device constructors on the given device strings while recording
every file open and every iscsi call."""
import builtins
import importlib
import json
import os
import pkgutil
import sys

present = [b for b in os.environ.get("VERIF_BINDINGS", "").split(",") if b]


class Blocker(object):
    """makes `import sgio` / `import iscsi` fail unless the configuration says the binding is installed"""

    def find_spec(self, name, path=None, target=None):
        if name in ("sgio", "iscsi") and name not in present:
            raise ImportError("binding %s is not installed in this configuration" % name)
        return None


sys.meta_path.insert(0, Blocker())


def main():
    inp = json.load(sys.stdin)
    out = dict(config=present, import_errors={}, modules=0)
    try:
        import pyscsi
    except Exception as e:  # noqa — the package itself does not import in this configuration: that is the finding, not a driver failure
        out["import_errors"]["pyscsi"] = "%s: %s" % (type(e).__name__, e)
        out["results"] = []
        out["digest_error"] = "the package does not import"
        print(json.dumps(out))
        return
    for m in pkgutil.walk_packages(pyscsi.__path__, "pyscsi."):
        try:
            importlib.import_module(m.name)
            out["modules"] += 1
        except Exception as e:  # noqa
            out["import_errors"][m.name] = "%s: %s" % (type(e).__name__, e)
    # every command can be built, encoded and decoded; the facade works over any device object
    from pyscsi.pyscsi import scsi_enum_command as ec
    from pyscsi.pyscsi.scsi import SCSI
    from recdev import RecordingDevice
    digest = []
    try:
        dev = RecordingDevice(ec.sbc)
        s = SCSI(None, 512)
        s.device = dev
        for call in (lambda: s.inquiry(), lambda: s.read16(2 ** 40, 3, fua=1), lambda: s.write10(7, 1, bytearray(512)),
                     lambda: s.readcapacity16(), lambda: s.testunitready(), lambda: s.modesense6(0x0A),
                     lambda: s.reportluns(), lambda: s.synchronizecache10(1, 2)):
            cmd = call()
            digest.append([list(cmd.cdb), sorted(type(cmd).unmarshall_cdb(cmd.cdb).items())])
        out["digest"] = digest
    except Exception as e:  # noqa
        out["digest_error"] = "%s: %s" % (type(e).__name__, e)
    # init_device and the constructors, with every open()/iscsi call recorded
    calls = []
    real_open = builtins.open

    class FakeFile(object):
        def close(self):
            calls.append(["close"])

    def spy_open(path, mode="r", *a, **k):
        if isinstance(path, str) and (path.startswith("/dev") or path.startswith("iscsi") or not os.path.exists(path)):
            calls.append(["open", path, mode])
            return FakeFile()
        return real_open(path, mode, *a, **k)
    builtins.open = spy_open
    import pyscsi.pyscsi.scsi_device as sd
    sd.get_inode = lambda f: 1
    iscsi_mod = sys.modules.get("iscsi")
    from pyscsi.utils import init_device
    res = []
    for c in inp["cases"]:
        del calls[:]
        if iscsi_mod is not None:
            del iscsi_mod.CALLS[:]
        try:
            if c["via"] == "init_device":
                kw = {} if c["iname"] is None else {"initiator_name": c["iname"]}
                d = init_device(c["dev"], c["rw"], **kw)
            elif c["via"] == "SCSIDevice":
                d = sd.SCSIDevice(c["dev"], c["rw"])
            else:
                from pyscsi.pyiscsi.iscsi_device import ISCSIDevice
                d = ISCSIDevice(c["dev"], c["iname"] or "")
            r = dict(ok=type(d).__name__)
        except Exception as e:  # noqa
            r = dict(exn=type(e).__name__)
        r["opens"] = [x for x in calls if x[0] == "open"]
        r["iscsi"] = [list(x) for x in iscsi_mod.CALLS if x[0] in ("Context", "URL", "connect")] if iscsi_mod is not None else []
        res.append(r)
    builtins.open = real_open
    out["results"] = res
    print(json.dumps(out))


if __name__ == "__main__":
    main()
