"""Implementation side of the attach correspondence (C16): the real SCSI facade attached to recording devices
that answer INQUIRY with a given first byte; histories over several device objects, fresh and re-used,
through SCSI(dev) and through re-attaching the same facade with scsi(dev2)."""
import json
import sys

from pyscsi.pyscsi import scsi_enum_command as ec
from pyscsi.pyscsi.scsi import SCSI
from recdev import RecordingDevice

NAMES = {id(ec.spc): "spc", id(ec.sbc): "sbc", id(ec.ssc): "ssc", id(ec.smc): "smc", id(ec.mmc): "mmc"}


def main():
    out = []
    for hist in json.load(sys.stdin):
        devs = [RecordingDevice(ec.spc) for _ in range(3)]
        facade = None
        res = []
        for step in hist:
            dev = devs[step["dev"]]
            b0 = step["b0"]
            rest = bytes(95)
            kind = step.get("rest")
            if kind == "ff":
                rest = b"\xff" * 95
            elif kind == "hi":
                rest = bytes((0x80 + i) & 0xFF for i in range(95))
            elif isinstance(kind, int):           # pseudo-random bytes from this seed: the rest of the INQUIRY data is arbitrary
                import random
                rr = random.Random(kind)
                rest = bytes(rr.randrange(256) for _ in range(95))
            dev.fill = lambda cmd, b0=b0, rest=rest: bytes([b0]) + rest
            n0 = len(dev.log)
            try:
                if facade is None or step["new_facade"]:
                    facade = SCSI(dev, 512)
                else:
                    facade(dev)
                exc = None
            except Exception as e:  # noqa
                exc = type(e).__name__
            sent = dev.log[n0:]
            res.append(dict(exc=exc, sets=[NAMES.get(id(d.opcodes), "?") for d in devs], n_sent=len(sent),
                            cdbs=[list(x["cdb"]) for x in sent], facade_dev=devs.index(facade.device) if facade else None))
        out.append(res)
    print(json.dumps(out))


if __name__ == "__main__":
    main()
