"""Implementation side of the attach correspondence (C16): the real SCSI facade attached to recording devices
that answer INQUIRY with a given first byte; histories over several device objects, fresh and re-used,
through SCSI(dev) and through re-attaching the same facade with scsi(dev2)."""
import json
import sys

from pyscsi.pyscsi import scsi_enum_command as ec
from pyscsi.pyscsi.scsi import SCSI
from recdev import RecordingDevice

NAMES = {id(ec.spc): "spc", id(ec.sbc): "sbc", id(ec.ssc): "ssc", id(ec.smc): "smc", id(ec.mmc): "mmc"}


class RealDevices(object):
    """three objects of the real device class of one transport over the stub binding; .fill / .log per device like the recording device"""

    def __init__(self, kind):
        import os
        import tempfile
        self.kind = kind
        self.fills = [None, None, None]
        self.logs = [[], [], []]
        if kind == "sg":
            import sgio
            from pyscsi.pyscsi.scsi_device import SCSIDevice
            self.dir = tempfile.mkdtemp(prefix="verif-att-", dir="/dev/shm")
            self.devs = []
            for i in range(3):
                node = os.path.join(self.dir, "sg%d" % i)
                open(node, "wb").close()
                self.devs.append(SCSIDevice(node, detect_replugged=False))

            def target(cdb, dout, din):
                f = sgio.LOG[-1]["file"]
                i = next(k for k, dv in enumerate(self.devs) if dv._file is f)
                self.logs[i].append(dict(cdb=bytes(cdb)))
                return ("fill", self.fills[i](None)) if self.fills[i] else ("good",)
            sgio.DEVICE = target
        else:
            import iscsi
            from pyscsi.pyiscsi.iscsi_device import ISCSIDevice
            self.dir = None
            self.devs = [ISCSIDevice("iscsi://127.0.0.1/iqn.verif/%d" % i, "iqn.init") for i in range(3)]

            def target(cdb, dout, din):
                i = iscsi.LOG[-1]["lun"]
                self.logs[i].append(dict(cdb=bytes(cdb)))
                return 0, None, (self.fills[i](None) if self.fills[i] else None)
            iscsi.DEVICE = target

    def close(self):
        import shutil
        import sgio
        import iscsi
        for d in self.devs:
            try:
                d.close()
            except Exception:  # noqa
                pass
        sgio.DEVICE = iscsi.DEVICE = None
        if self.dir:
            shutil.rmtree(self.dir, ignore_errors=True)


class DevView(object):
    """device i of a RealDevices set, with the .fill / .log interface the history loop uses"""

    def __init__(self, real, i):
        self.real, self.i, self.dev = real, i, real.devs[i]

    @property
    def log(self):
        return self.real.logs[self.i]

    def set_fill(self, fn):
        self.real.fills[self.i] = fn


def main():
    out = []
    for hist in json.load(sys.stdin):
        if hist and hist[0].get("real"):
            out.append(real_history(hist))
            continue
        devs = [RecordingDevice(ec.spc) for _ in range(3)]
        facade = None
        res = []
        for step in hist:
            dev = devs[step["dev"]]
            b0 = step["b0"]
            rest = bytes(95)
            kind = step.get("rest")
            if kind == "ff":
                rest = b"\xff" * 95
            elif kind == "hi":
                rest = bytes((0x80 + i) & 0xFF for i in range(95))
            elif isinstance(kind, int):           # pseudo-random bytes from this seed: the rest of the INQUIRY data is arbitrary
                import random
                rr = random.Random(kind)
                rest = bytes(rr.randrange(256) for _ in range(95))
            dev.fill = lambda cmd, b0=b0, rest=rest: bytes([b0]) + rest
            n0 = len(dev.log)
            try:
                if facade is None or step["new_facade"]:
                    facade = SCSI(dev, 512)
                else:
                    facade(dev)
                exc = None
            except Exception as e:  # noqa
                exc = type(e).__name__
            sent = dev.log[n0:]
            res.append(dict(exc=exc, sets=[NAMES.get(id(d.opcodes), "?") for d in devs], n_sent=len(sent),
                            cdbs=[list(x["cdb"]) for x in sent], facade_dev=devs.index(facade.device) if facade else None))
        out.append(res)
    print(json.dumps(out))


def real_history(hist):
    """the same over three objects of the real SCSIDevice / ISCSIDevice class (what is stored on a device object must belong to THAT object)"""
    real = RealDevices(hist[0]["real"])
    views = [DevView(real, i) for i in range(3)]
    facade, res = None, []
    try:
        for step in hist:
            v = views[step["dev"]]
            b0 = step["b0"]
            v.set_fill(lambda cmd, b0=b0: bytes([b0]) + bytes(95))
            n0 = len(v.log)
            try:
                if facade is None or step["new_facade"]:
                    facade = SCSI(v.dev, 512)
                else:
                    facade(v.dev)
                exc = None
            except Exception as e:  # noqa
                exc = type(e).__name__
            sent = v.log[n0:]
            res.append(dict(exc=exc, sets=[NAMES.get(id(d.opcodes), "?") for d in real.devs], n_sent=len(sent),
                            cdbs=[list(x["cdb"]) for x in sent], facade_dev=real.devs.index(facade.device) if facade else None))
    finally:
        real.close()
    return res


if __name__ == "__main__":
    main()
