"""Correspondence between the regenerated facade action lists (trace semantics of Model/Facade.v) and the real
SCSI facade over a recording device, plus the implementation-side oracle of C13 (one command, same buffers,
T10 opcode, decoded after execute) and the attach scenarios of C16."""
import json
import os
import random
import sys

HERE = os.path.dirname(os.path.abspath(__file__))
sys.path.insert(0, os.path.dirname(HERE))

SETS = ["spc", "sbc", "ssc", "smc", "mmc"]

POS = {  # positional argument values by parameter name
    "lba": 5, "tl": 2, "nb": 3, "xfer": 1, "source": 2, "dest": 3, "dest1": 3, "dest2": 4, "elements": 4, "acode": 1,
    "start": 0, "num": 2, "numblks": 4, "page_code": 0x0A, "data_type": 0, "service_action": 1,
    "protocal": 4, "t_length": 2, "byte_block": 1, "t_dir": 1, "t_type": 0, "off_line": 0, "fetures": 0, "count": 1, "command": 0xEC,
}
ALT = {"data_type": [1, 2], "page_code": [0x08, 0x3F], "acode": [0], "tl": [0], "nb": [0], "numblks": [0]}
OPT = {  # optional keyword values by constructor parameter name
    "alloclen": 64, "alloc_len": 64, "evpd": 0, "rdprotect": 1, "wrprotect": 1, "dpo": 1, "fua": 1, "rarc": 1, "group": 3, "immed": 1,
    "anchor": 0, "unmap": 1, "ndob": 0, "invert": 1, "inv1": 1, "inv2": 1, "rng": 1, "fast": 1, "prevent": 1, "report": 2,
    "priority": 1, "data_format": 1, "element_type": 2, "voltag": 1, "curdata": 1, "dvcid": 1, "sub_page_code": 0, "dbd": 1, "pc": 1,
    "llbaa": 1, "pf": 1, "sp": 1, "scope": 1, "pr_type": 3, "est": 2, "dap": 1, "mcsb": 0x1F, "c2ei": 1, "scsb": 1,
    "blocksize": 512, "ck_cond": 1, "device": 0xA0, "control": 0, "extend": 1, "extra_tl": 1,
    "list_identifier": 1, "sequential_striped": 1, "nrcr": 1, "list_id_usage": 0, "g_sense": 1,
}


def impl_main():
    import importlib
    from pyscsi.pyscsi import scsi_enum_command as ec
    from pyscsi.pyscsi.scsi import SCSI
    from pyscsi.pyscsi.scsi_command import SCSICommand
    from recdev import RecordingDevice
    from corr.ctors import sample
    events = []
    orig_unmarshall = SCSICommand.unmarshall
    # a call that allocates gigabytes or does not come back is an outcome ("exn:MemoryError" / "exn:Budget"), not a hung driver
    import resource
    import signal
    try:
        resource.setrlimit(resource.RLIMIT_AS, (3 << 30, 3 << 30))
    except Exception:  # noqa
        pass

    class Budget(Exception):
        pass

    def on_alarm(signum, frame):
        raise Budget()
    signal.signal(signal.SIGALRM, on_alarm)

    def spy_unmarshall(self, **kw):
        events.append("U")
        return orig_unmarshall(self, **kw)
    SCSICommand.unmarshall = spy_unmarshall

    class Injected(Exception):
        pass
    out = []
    for c in json.load(sys.stdin):
        rng = random.Random(c["fillseed"])
        del events[:]
        dev = RecordingDevice(getattr(ec, c["set"]))
        if c["fill"] == "random":
            dev.fill = lambda cmd: bytes(rng.randint(0, 255) for _ in range(len(cmd.datain)))
        elif c["fill"] == "zeros":
            dev.fill = None
        elif c["fill"] == "ones":
            dev.fill = lambda cmd: b"\xff" * len(cmd.datain)
        else:
            dev.fill = lambda cmd, b=bytes(c["fill"]): b
        if c["inject"]:
            dev.outcome = lambda cmd: Injected()
        orig_exec = dev.execute

        def spy_exec(cmd, en_raw_sense=False):
            events.append("X1" if en_raw_sense else "X0")
            return orig_exec(cmd, en_raw_sense=en_raw_sense)
        dev.execute = spy_exec
        s = SCSI(None, c["blocksize"])
        s.device = dev
        args = [sample(a[1]) if a[0] == "o" else (bytearray(a[1]) if a[0] == "b" else a[1]) for a in c["pos"]]
        kw = {k: v[1] for k, v in c["kw"]}
        r = dict()
        try:
            signal.setitimer(signal.ITIMER_REAL, 5.0)
            try:
                cmd = getattr(s, c["method"])(*args, **kw)
            finally:
                signal.setitimer(signal.ITIMER_REAL, 0)
            events.append("R")
            r["outcome"] = "returned"
            r["n_exec"] = len(dev.log)
            if dev.log:
                lg = dev.log[0]
                r["same_cmd"] = lg["cmd"] is cmd
                r["cdb_same"] = lg["cdb"] == bytes(cmd.cdb)
                r["datain_same"] = lg["datain_id"] == id(cmd.datain)
                r["dataout_same"] = lg["dataout_id"] == id(cmd.dataout)
                r["opcode"] = lg["cdb"][0]
                r["cdb"] = list(lg["cdb"])
            if "U" in events:
                before = repr(cmd.result)
                try:
                    again = type(cmd).unmarshall_datain(cmd.datain, **c.get("unmarshall_kw", {}))
                    r["decoded_after"] = repr(again) == before
                except Exception as e:  # noqa
                    r["decoded_after"] = "re-decode raised %s" % type(e).__name__
        except Injected:
            r["outcome"] = "injected"
            r["n_exec"] = len(dev.log)
        except Exception as e:  # noqa
            r["outcome"] = "exn:" + type(e).__name__
            r["n_exec"] = len(dev.log)
        r["events"] = list(events)
        out.append(r)
    SCSICommand.unmarshall = orig_unmarshall
    print(json.dumps(out))


def method_calls(summary, rng, tier):
    """argument sets for every facade method: required arguments, no / each / all optional keyword arguments"""
    ctors = {c["key"]: c for c in summary["ctors"]["ctors"]}
    calls = []
    for m in summary["facade"]["methods"]:
        name, params, nd = m["name"], m["params"], m["ndefaults"]
        req = params[:len(params) - nd]
        pos = []
        bs = 512
        for p in req:
            if p == "data" and name.startswith("modeselect"):
                pos.append(["o", "modesel_control"])
            elif p == "data":
                n = bs * (POS["tl"] if name.startswith("write1") else 1)
                pos.append(["b", [rng.randint(0, 255) for _ in range(n)]])
            else:
                pos.append(["i", POS.get(p, 1)])
        # the constructor the method calls, to know the optional keyword arguments
        ckey = None
        for a in m["acts"]:
            if a.startswith("AConstruct ("):
                ckey = a.split('"')[1]
        opt = []
        if m["kwargs"] and ckey in ctors:
            c = ctors[ckey]
            opt = [p for p in c["params"][len(c["params"]) - c.get("ndefaults", 0):] if p in OPT and p not in params and p != "data"]
        if not m["kwargs"]:
            opt = [p for p in params[len(params) - nd:] if p in OPT]
        subsets = [[]] + [[o] for o in opt] + ([opt] if len(opt) > 1 else [])
        if tier == "thorough" and len(opt) <= 7:
            subsets = [[o for i, o in enumerate(opt) if (mask >> i) & 1] for mask in range(1 << len(opt))]
        ukw = {}
        if name == "inquiry":
            ukw = {"evpd": 0}
        for sub in subsets:
            kw = [[o, ["i", OPT[o]]] for o in sub]
            u = dict(ukw)
            if name == "readcd":
                u = {"lba": POS["lba"], "tl": POS["tl"]}
                u.update({k: v[1] for k, v in kw})
            if name == "persistentreservein":
                for sa in (0, 1, 2, 3):
                    calls.append(dict(method=name, pos=[["i", sa]], kw=kw, blocksize=bs, unmarshall_kw=u))
                continue
            calls.append(dict(method=name, pos=pos, kw=kw, blocksize=bs, unmarshall_kw=u))
            # other values of the arguments that select WHAT is asked for (the answer a device gives need not be of that kind)
            for i, p in enumerate(req):
                for alt in ALT.get(p, []):
                    pos2 = [list(x) for x in pos]
                    pos2[i] = ["i", alt]
                    u2 = dict(u)
                    if p in u2:
                        u2[p] = alt                      # the decoder is re-run with the arguments of THIS call
                    calls.append(dict(method=name, pos=pos2, kw=kw, blocksize=bs, unmarshall_kw=u2))
    return calls


def gen_cases(summary, seed, tier):
    rng = random.Random(seed ^ 0xC13)
    cases = []
    for call in method_calls(summary, rng, tier):
        for s in SETS:
            for fill, inject in (("zeros", False), ("random", False), ("ones", False), ("zeros", True)):
                c = dict(call)
                c.update(set=s, fill=fill, inject=inject, fillseed=rng.randint(0, 1 << 30))
                cases.append(c)
    return cases


def expected_opcode(m, setname, ops):
    for a in m["acts"]:
        if a.startswith("ALookup "):
            return ops.get(a.split('"')[1])
        if a.startswith("ALookupSuffix "):
            return int(a.split('"')[1], 16)
    return None


def oracle(c, r, m, set_tables, t10):
    """the property on the implementation; None if it holds for this call"""
    lookup = None
    for a in m["acts"]:
        if a.startswith("ALookup "):
            lookup = a.split('"')[1]
    defined = lookup is None or lookup in set_tables[c["set"]]
    if r["outcome"] == "returned":
        if r["n_exec"] != 1:
            return "the call returned after handing %d commands to the device" % r["n_exec"]
        for k in ("same_cmd", "cdb_same", "datain_same", "dataout_same"):
            if not r.get(k):
                return "the device was not handed the returned command's %s" % k.replace("_same", "").replace("same_", "")
        exp = expected_opcode(m, c["set"], t10)
        if exp is not None and r["opcode"] != exp:
            return "operation code %#x sent, T10 assigns %#x to this command" % (r["opcode"], exp)
        if "U" in r["events"] and r["events"].index("U") < min(i for i, e in enumerate(r["events"]) if e.startswith("X")):
            return "the buffer was decoded before the command was executed"
        if r.get("decoded_after") is False:
            return "the result is not the decoding of the buffer as the device left it"
        if isinstance(r.get("decoded_after"), str):
            return "the result is not the decoding of the buffer as the device left it: decoding that buffer %s" % r["decoded_after"][10:]
    elif r["outcome"] == "injected":
        if r["n_exec"] != 1 or "U" in r["events"] or "R" in r["events"]:
            return "after a device error the call continued: events %s" % r["events"]
    else:
        if r["n_exec"] > 1:
            return "a failing call handed %d commands to the device" % r["n_exec"]
        if defined and r["n_exec"] == 0 and not c["inject"] and r["outcome"] not in ("exn:StopIteration",):
            # with documented, in-range arguments a defined command must be constructible
            return "the documented call raised %s before sending anything" % r["outcome"][4:]
        if defined and r["n_exec"] == 1 and c["fill"] == "zeros" and r["outcome"] in (
                "exn:KeyError", "exn:TypeError", "exn:AttributeError", "exn:NameError"):
            return "decoding an all-zero response raised %s (the documented arguments / their defaults are not accepted by the decoder)" % r["outcome"][4:]
    return None


def coq_case(c, r):
    ev = {"X0": "EvExecute false", "X1": "EvExecute true", "U": "EvUnmarshall", "R": "EvReturn"}
    if r["outcome"] == "returned":
        f = "None"
    elif r["outcome"] == "injected":
        f = "(Some FailExecute)"
    elif r["n_exec"] == 0:
        f = "(Some FailConstruct)"
    else:
        f = "(Some FailUnmarshall)"
    events = list(r["events"])
    # the action that failed did not complete: it is not part of the model's trace
    if r["outcome"] == "injected" and events and events[-1].startswith("X"):
        events.pop()
    elif r["outcome"].startswith("exn:") and r["n_exec"] >= 1 and events and events[-1] == "U":
        events.pop()
    return "(F_%s, %s, [%s])" % (c["method"], f, "; ".join(ev[e] for e in events))


HEADER = """From Coq Require Import String.
From PS Require Import Base.Bytes Base.Result Model.CorrUtil Model.Ctor Model.Facade Gen.FacadeTbl Proofs.FacadeProps.
Definition interesting (e : event) : bool := match e with EvLookup | EvConstruct => false | _ => true end.
Definition check (c : fmethod * option failure * list event) : bool :=
  let '(m, f, exp) := c in list_eqb ev_eqb (filter interesting (trace f (f_acts m))) exp.
"""


def run(rep, tier, seed, summary):
    import vlib
    cases = gen_cases(summary, seed, tier)
    results = []
    CH = 1500
    for i in range(0, len(cases), CH):
        results += vlib.run_impl("corr/facade.py", cases[i:i + CH], args=["--impl"], timeout=900,
                                 extra_path=[os.path.join(vlib.TOOLS, "stubs"), vlib.TOOLS])
    with vlib.Lock():
        ok, log, _ = vlib.coq_make(["Proofs/FacadeProps.vo"])
    if not ok:
        rep.oblig("build:Proofs/FacadeProps.vo", False, vlib.coq_first_error(log))
        return [dict(case=None)], cases, results
    shards, SH = [], 1000
    for s in range(0, len(cases), SH):
        body = ";\n  ".join(coq_case(c, r) for c, r in zip(cases[s:s + SH], results[s:s + SH]))
        shards.append(("cases_facade_%d" % (s // SH), HEADER +
                       "Definition cases := [\n  %s].\nEval vm_compute in (mismatches check cases).\n" % body))
    outs = vlib.coqc_many(shards, timeout=600)
    bad = []
    for idx, (name, _) in enumerate(shards):
        rc, out = outs[name]
        mm = vlib.parse_eval_list(out)
        if rc != 0 or mm is None:
            rep.oblig("correspondence:facade shard %s compiles" % name, False, out[-600:])
            bad.append(dict(case=None, error=out[-600:]))
            continue
        for j in mm:
            bad.append(dict(case=cases[idx * SH + j], impl=results[idx * SH + j]))
    dist = {}
    for r in results:
        dist[r["outcome"]] = dist.get(r["outcome"], 0) + 1
    rep.suite("facade: 38 methods x 5 command sets x optional-argument subsets x (zero / random / all-ones fill / device error) vs the regenerated action lists",
              len(cases), len(bad), samples=[dict(case={k: v for k, v in cases[3].items() if k != "pos"}, impl=results[3])],
              distribution=dict(outcomes=dist, methods=len(summary["facade"]["methods"])))
    return bad, cases, results


if __name__ == "__main__":
    if "--impl" in sys.argv:
        impl_main()
