"""Correspondence between Model/Device.v (state machine over the regenerated replug prologue) and the real
SCSIDevice on a real file system under /dev/shm (node replaced = new inode, node removed), with the stub sgio
binding recording which file object each command is sent through; and the implementation-side oracle of C15."""
import json
import os
import random
import sys

HERE = os.path.dirname(os.path.abspath(__file__))
sys.path.insert(0, os.path.dirname(HERE))

EVENTS = ["execute", "replug", "unplug", "closefail_on", "closefail_off", "close", "exit"]


def impl_main():
    import shutil
    import tempfile
    import builtins
    import sgio
    import pyscsi.pyscsi.scsi_device as sdm
    from pyscsi.pyscsi.scsi_cdb_testunitready import TestUnitReady
    from pyscsi.pyscsi.scsi_enum_command import spc

    state = dict(close_fails=False)
    handles = []

    class FileProxy(object):
        def __init__(self, real):
            self.real = real
            self.inode = os.fstat(real.fileno()).st_ino
            self.os_closes = 0

        def close(self):
            if not self.real.closed and state["close_fails"]:
                state["close_fails"] = False
                raise OSError("injected close failure")
            if not self.real.closed:
                self.os_closes += 1
            self.real.close()

        def fileno(self):
            return self.real.fileno()

        @property
        def closed(self):
            return self.real.closed

    def spy_open(path, mode="r", *a, **k):
        if state.get("open_fails"):
            state["open_fails"] = False
            state["open_failed"] = True
            raise PermissionError("injected open failure (the new node is not usable yet)")
        f = FileProxy(builtins.open(path, mode, *a, **k))
        handles.append(f)
        return f
    sdm.open = spy_open
    out = []
    root = tempfile.mkdtemp(prefix="verif-dev-", dir="/dev/shm")
    try:
        for n, case in enumerate(json.load(sys.stdin)):
            d = os.path.join(root, "c%d" % n)
            os.mkdir(d)
            p = os.path.join(d, "node")
            alias = case.get("alias")          # the device path is an alias (a symlink, as /dev/disk/by-id/... or /dev/cdrom are) of the node
            nreal = [0]
            if alias:
                real = os.path.join(d, "real0")
                builtins.open(real, "wb").close()
                os.symlink(real, p)
            else:
                builtins.open(p, "wb").close()
            del handles[:]
            state["close_fails"] = False
            state["open_fails"] = False
            inode_ids = {}

            def canon(ino):
                if ino is None:
                    return None
                if ino not in inode_ids:
                    inode_ids[ino] = len(inode_ids) + 1
                return inode_ids[ino]
            canon(os.stat(p).st_ino)
            dev = sdm.SCSIDevice(p, readwrite=case["rw"], detect_replugged=case["detect"])
            cmd = TestUnitReady(spc.TEST_UNIT_READY)
            res = []
            inos = []
            for ev in case["events"]:
                o = ["nothing"]
                state["open_failed"] = False
                try:
                    if ev == "openfail_on":
                        state["open_fails"] = True
                    elif ev == "execute":
                        del sgio.LOG[:]
                        try:
                            node = os.stat(p).st_ino
                        except OSError:
                            node = None
                        dev.execute(cmd)
                        if sgio.LOG:
                            f = sgio.LOG[0]["file"]
                            if f in handles:
                                o = ["sent", handles.index(f), canon(f.inode), canon(node), not f.closed]
                            else:
                                o = ["sent", 99, 0, canon(node), False]
                    elif ev == "replug" and alias:
                        # the alias now leads to another node; the node it led to before stays (alias == "keep") or goes away
                        old_real = os.path.realpath(p) if os.path.lexists(p) else None
                        nreal[0] += 1
                        real = os.path.join(d, "real%d" % nreal[0])
                        builtins.open(real, "wb").close()
                        canon(os.stat(real).st_ino)
                        tmp = p + ".new"
                        os.symlink(real, tmp)
                        os.replace(tmp, p)
                        if alias == "remove" and old_real and os.path.exists(old_real):
                            os.unlink(old_real)
                    elif ev == "replug":
                        tmp = p + ".new"
                        builtins.open(tmp, "wb").close()
                        canon(os.stat(tmp).st_ino)
                        os.replace(tmp, p)
                    elif ev == "unplug":
                        if os.path.lexists(p):
                            os.unlink(p)
                    elif ev == "closefail_on":
                        state["close_fails"] = True
                    elif ev == "closefail_off":
                        state["close_fails"] = False
                    elif ev == "close":
                        dev.close()
                    elif ev == "exit":
                        dev.__exit__(None, None, None)
                except OSError:
                    o = ["raised", "OSError"] + (["openfail"] if state.get("open_failed") else [])
                except Exception as e:  # noqa
                    o = ["raised", type(e).__name__]
                res.append(o)
                try:
                    inos.append(canon(dev._ino))
                except Exception:  # noqa
                    inos.append(0)
            try:
                cur_ino = canon(dev._ino)
            except Exception:  # noqa
                cur_ino = None
            out.append(dict(outs=res, inos=inos, os_closes=[h.os_closes for h in handles], open_at_end=[not h.closed for h in handles],
                            cur=(handles.index(dev._file) if dev._file in handles else -1), cur_ino=cur_ino))
            for h in handles:
                try:
                    h.real.close()
                except Exception:  # noqa
                    pass
    finally:
        shutil.rmtree(root, ignore_errors=True)
    print(json.dumps(out))


def gen_cases(seed, tier):
    rng = random.Random(seed ^ 0xC15)
    cases = []
    import itertools
    # exhaustive up to length 4 over the 7 event kinds (detect on), sampled for longer ones
    for n in range(1, 5):
        for evs in itertools.product(EVENTS, repeat=n):
            if "execute" in evs or "close" in evs or "exit" in evs:
                cases.append(dict(detect=True, rw=False, events=list(evs)))
    rng.shuffle(cases)
    cases = cases[:1500 if tier == "quick" else len(cases)]
    for _ in range(500 if tier == "quick" else 6000):
        n = rng.randint(3, 40)
        w = [5, 3, 1, 1, 1, 1, 1]
        cases.append(dict(detect=rng.random() < 0.7, rw=rng.random() < 0.5, events=rng.choices(EVENTS, weights=w, k=n)))
    # the same when the device path is an alias of the node (a symlink): "the node that currently exists at the device path" is what the
    # alias leads to NOW
    for _ in range(300 if tier == "quick" else 3000):
        n = rng.randint(2, 25)
        w = [5, 4, 1, 1, 1, 1, 1]
        cases.append(dict(detect=rng.random() < 0.8, rw=rng.random() < 0.5, alias=rng.choice(["keep", "remove"]),
                          events=rng.choices(EVENTS, weights=w, k=n)))
    for al in ("keep", "remove"):
        for rw in (False, True):
            cases.append(dict(detect=True, rw=rw, alias=al, events=["execute", "replug", "execute", "replug", "execute"]))
    # a re-open that fails (the new node is not usable yet): the failure is reported, and the next command does not go through the old handle.
    # These histories are judged by the oracle on the implementation only (the event is not in the alphabet of Model/Device.v)
    for rw in (False, True):
        cases.append(dict(detect=True, rw=rw, events=["execute", "replug", "openfail_on", "execute", "execute", "execute"]))
        cases.append(dict(detect=True, rw=rw, events=["replug", "openfail_on", "execute", "replug", "execute"]))
    for _ in range(60 if tier == "quick" else 1500):
        n = rng.randint(3, 20)
        cases.append(dict(detect=True, rw=rng.random() < 0.5,
                          events=rng.choices(EVENTS + ["openfail_on"], weights=[5, 4, 1, 1, 1, 1, 1, 3], k=n)))
    return cases


def oracle(case, r):
    """the property on what the implementation did"""
    node = 1
    nxt = 2
    for i, (ev, o) in enumerate(zip(case["events"], r["outs"])):
        if ev == "replug":
            node = nxt
            nxt += 1
        elif ev == "unplug":
            node = None
        elif ev == "execute":
            if case["detect"]:
                if o[0] == "raised" and len(o) > 2 and o[2] == "openfail":
                    continue          # the re-open failed and the failure was reported: nothing was sent; the NEXT command is judged as usual
                if node is None:
                    if o[0] != "raised" or o[1] != "OSError":
                        return "event %d: the node had vanished but execute gave %s" % (i, o)
                elif o[0] == "sent" and o[2] != node:
                    return "event %d: the command went through a handle on inode #%s while the node is inode #%s (stale handle)" % (i, o[2], node)
                elif r["inos"][i] != node:
                    return "event %d: after execute (%s) the device still holds a handle on inode #%s while the node is inode #%s" % (
                        i, o[0], r["inos"][i], node)
            else:
                if o[0] == "sent" and o[1] != 0:
                    return "event %d: detection is off but the handle was replaced" % i
    if any(c > 1 for c in r["os_closes"]):
        return "a handle was released more than once: %s" % r["os_closes"]
    if case["events"] and case["events"][-1] in ("close", "exit") and r["outs"][-1][0] != "raised" and r["cur"] >= 0 and r["open_at_end"][r["cur"]]:
        return "after close()/exit the current handle is still open"
    return None


def coq_case(c, r):
    ev = {"execute": "EExecute", "replug": "EReplug", "unplug": "EUnplug", "closefail_on": "ESetCloseFails true",
          "closefail_off": "ESetCloseFails false", "close": "EClose", "exit": "EExit"}

    def on(x):
        return "None" if x is None else "(Some %d)" % x

    def out(o):
        if o[0] == "sent":
            return "OSent %d %d %s %s" % (o[1], o[2], on(o[3]), "true" if o[4] else "false")
        if o[0] == "raised":
            return "ORaised OSError" if o[1] == "OSError" else 'ORaised (OtherExn "%s")' % o[1]
        return "ONothing"
    return "(%s, [%s], [%s], [%s])" % ("true" if c["detect"] else "false", "; ".join(ev[e] for e in c["events"]),
                                       "; ".join(out(o) for o in r["outs"]), "; ".join(str(x) for x in r["inos"]))


HEADER = """From Coq Require Import String.
From PS Require Import Base.Bytes Base.Result Model.CorrUtil Model.Device Model.Command Model.Enum Model.Exec Gen.Tables Gen.Misc.
Open Scope nat_scope.
Definition onat_eqb (a b : option nat) := match a, b with Some x, Some y => Nat.eqb x y | None, None => true | _, _ => false end.
Definition out_eqb (a b : out) : bool :=
  match a, b with
  | OSent h i n o, OSent h' i' n' o' => Nat.eqb h h' && Nat.eqb i i' && onat_eqb n n' && Bool.eqb o o'
  | ORaised e, ORaised f => exn_eqb e f
  | ONothing, ONothing => true
  | _, _ => false
  end.
Fixpoint run_inos (wd : world * dev) (es : list event) : list nat :=
  match es with [] => [] | e :: es' => let wd1 := fst (step replug_prologue wd e) in d_ino (snd wd1) :: run_inos wd1 es' end.
Definition check (c : bool * list event * list out * list nat) : bool :=
  let '(detect, es, exp, inos) := c in
  list_eqb out_eqb (snd (run replug_prologue (init detect) es)) exp && list_eqb Nat.eqb (run_inos (init detect) es) inos.
"""


def run(rep, tier, seed):
    import vlib
    cases = gen_cases(seed, tier)
    results = vlib.run_impl("corr/device.py", cases, args=["--impl"], extra_path=[os.path.join(vlib.TOOLS, "stubs")], timeout=900)
    with vlib.Lock():
        ok, log, _ = vlib.coq_make(["Model/Device.vo", "Gen/Misc.vo"])
    shards, SH = [], 500
    all_cases, all_results = cases, results
    keep = [i for i, c in enumerate(all_cases) if "openfail_on" not in c["events"]]
    cases, results = [all_cases[i] for i in keep], [all_results[i] for i in keep]
    for s in range(0, len(cases), SH):
        body = ";\n  ".join(coq_case(c, r) for c, r in zip(cases[s:s + SH], results[s:s + SH]))
        shards.append(("cases_device_%d" % (s // SH), HEADER + "Definition cases := [\n  %s].\nEval vm_compute in (mismatches check cases).\n" % body))
    outs = vlib.coqc_many(shards, timeout=600)
    bad = []
    for idx, (name, _) in enumerate(shards):
        rc, out = outs[name]
        mm = vlib.parse_eval_list(out)
        if rc != 0 or mm is None:
            rep.oblig("correspondence:device shard %s compiles" % name, False, out[-600:])
            bad.append(dict(case=None, error=out[-600:]))
            continue
        for j in mm:
            bad.append(dict(case=cases[idx * SH + j], impl=results[idx * SH + j]))
    dist = {}
    for r in results:
        for o in r["outs"]:
            dist[o[0]] = dist.get(o[0], 0) + 1
    rep.suite("SCSIDevice on a real file system (/dev/shm): event sequences (all of length <= 4 sampled, random up to 40) vs Model/Device.v",
              len(cases), len(bad), distinct=len({json.dumps(c) for c in cases}),
              samples=[dict(case=cases[-1], impl=results[-1]["outs"][:6])], distribution=dict(event_outcomes=dist))
    return bad, all_cases, all_results


if __name__ == "__main__":
    if "--impl" in sys.argv:
        impl_main()
