"""Correspondence between Model/Enum.v (with the REGENERATED keys filter) and pyscsi/utils/enum.py,
and the implementation-side oracle (an ordinary dict that undergoes the same operations)."""
import json
import os
import random
import sys

HERE = os.path.dirname(os.path.abspath(__file__))
sys.path.insert(0, os.path.dirname(HERE))

NAMES = ["A", "B", "C", "READ_10", "x", "y1", "_private", "value", "name", "Z9", "if_", "K"]


def impl_main():
    from pyscsi.utils.enum import Enum
    from pyscsi.pyscsi.scsi_opcode import OpCode

    class Holder(object):
        def meth(self):
            return 1

    holder = Holder()
    objs = {}

    def mkval(v):
        if v[0] == "i":
            return v[1]
        if v[0] == "s":
            return v[1]
        tag = v[1]
        if tag not in objs:
            kind = v[2]
            if kind == "Plain":
                if tag.startswith("n"):
                    # a container that holds an object compared by identity (an OpCode has no __eq__): stored as it is, not as a copy
                    objs[tag] = {"inner": OpCode(tag, 0x12, {})} if tag.endswith("1") else [OpCode(tag, 0x12, {}), 7]
                else:
                    objs[tag] = {"nested": tag} if tag.startswith("d") else OpCode(tag, 0x12, {})
            elif kind == "Callable":
                objs[tag] = (lambda t=tag: t) if tag.startswith("f") else type("Cls_" + tag, (), {})
            else:
                objs[tag] = Holder().meth
        return objs[tag]

    def back(x):
        if isinstance(x, bool):
            return ["i", int(x)]
        if isinstance(x, int):
            return ["i", x]
        if isinstance(x, str):
            return ["s", x]
        for t, o in objs.items():
            if o is x or (isinstance(o, (dict, list)) and o == x):
                return ["o", t]
        return ["o", "?"]

    out = []
    for c in json.load(sys.stdin):
        objs.clear()
        enums, dicts = [], []
        for m, form in zip(c["init"], c["forms"]):
            d = dict((k, mkval(v)) for k, v in m)
            try:
                enums.append(Enum(d) if form == "dict" else Enum(**d))
            except Exception as e:  # noqa — a mapping the documented forms accept was refused: every later use of it is reported
                enums.append(type(e).__name__)
            dicts.append(dict(d))
        res, spec = [], []
        for which, op in c["ops"]:
            E, D = enums[which], dicts[which]
            kind = op[0]
            try:
                if isinstance(E, str):
                    raise RuntimeError("construction raised " + E)
                if kind == "add":
                    E.add(op[1], mkval(op[2])); r = ["unit"]
                elif kind == "remove":
                    E.remove(op[1]); r = ["unit"]
                elif kind == "get":
                    r = ["val", back(getattr(E, op[1]))]
                elif kind == "rev":
                    r = ["name", E[mkval(op[1])]]
                else:
                    r = ["keys", list(E.keys)]
            except Exception as e:  # noqa
                r = ["exn", type(e).__name__]
            res.append(r)
            # the same operation on an ordinary dictionary
            try:
                if kind == "add":
                    if op[1] in D:
                        raise KeyError(op[1])
                    D[op[1]] = mkval(op[2]); s = ["unit"]
                elif kind == "remove":
                    del D[op[1]]; s = ["unit"]
                elif kind == "get":
                    if op[1] not in D:
                        raise AttributeError(op[1])
                    s = ["val", back(D[op[1]])]
                elif kind == "rev":
                    v = mkval(op[1])
                    s = ["name", next((k for k, w in D.items() if w == v), "")]
                else:
                    s = ["keys", list(D.keys())]
            except Exception as e:  # noqa
                s = ["exn", type(e).__name__]
            spec.append(s)
        out.append(dict(res=res, spec=spec))
    print(json.dumps(out))


def gen_value(rng, callables=True):
    r = rng.random()
    if r < 0.45:
        return ["i", rng.choice([0, 1, 2, 0x12, 0x9E, 255, 2 ** 40])]
    if r < 0.6:
        return ["s", rng.choice(["", "a", "READ", "x y"])]
    if r < 0.8 or not callables:
        return ["o", rng.choice(["d1", "d2", "op1", "op2", "n1", "n2"]), "Plain"]
    if r < 0.95:
        return ["o", rng.choice(["f1", "f2", "c1"]), "Callable"]
    return ["o", "m1", "Method"]


def gen_cases(seed, count, callables=True):
    rng = random.Random(seed ^ 0xC18)
    cases = []
    for _ in range(count):
        init, forms = [], []
        for _e in range(3):
            # also enumerations that start out EMPTY (dict form; most OpCode.serviceaction enumerations are): several of them in one
            # history must still be separate objects
            names = rng.sample(NAMES, rng.choice([0, 0, 1, 2, 3, 4, 5, 6]))
            init.append([[n, gen_value(rng, callables)] for n in names])
            forms.append(rng.choice(["dict", "kw"]) if names else "dict")
        ops = []
        for _o in range(rng.randint(1, 25)):
            which = rng.randint(0, 2)
            k = rng.random()
            name = rng.choice(NAMES)
            if k < 0.25:
                ops.append([which, ["add", name, gen_value(rng, callables)]])
            elif k < 0.45:
                ops.append([which, ["remove", name]])
            elif k < 0.65:
                ops.append([which, ["get", name]])
            elif k < 0.85:
                ops.append([which, ["rev", gen_value(rng, callables)]])
            else:
                ops.append([which, ["keys"]])
        cases.append(dict(init=init, forms=forms, ops=ops))
    return cases


def cv(v):
    from vlib import cstr
    if v[0] == "i":
        return "EVInt %d" % v[1]
    if v[0] == "s":
        return "EVStr %s" % cstr(v[1])
    kind = v[2] if len(v) > 2 else "Plain"
    return "EVObj %s %s" % (cstr(v[1]), kind)


def coq_case(c, r):
    from vlib import cstr, cexn
    inits = "[" + "; ".join("[" + "; ".join("(%s, %s)" % (cstr(k), cv(v)) for k, v in m) + "]" for m in c["init"]) + "]"

    def op(o):
        if o[0] == "add":
            return "OAdd %s (%s)" % (cstr(o[1]), cv(o[2]))
        if o[0] == "remove":
            return "ORemove %s" % cstr(o[1])
        if o[0] == "get":
            return "OGet %s" % cstr(o[1])
        if o[0] == "rev":
            return "OReverse (%s)" % cv(o[1])
        return "OKeys"

    def outp(x):
        if x[0] == "unit":
            return "RUnit"
        if x[0] == "exn":
            return "RExn %s" % cexn(x[1])
        if x[0] == "val":
            return "RVal (%s)" % cv(x[1])
        if x[0] == "name":
            return "RName %s" % cstr(x[1])
        return "RKeys [%s]" % "; ".join(cstr(k) for k in x[1])
    ops = "[" + "; ".join("(%d%%nat, %s)" % (w, op(o)) for w, o in c["ops"]) + "]"
    exp = "[" + "; ".join(outp(x) for x in r["res"]) + "]"
    return "(%s, %s, %s)" % (inits, ops, exp)


HEADER = """From Coq Require Import String.
From PS Require Import Base.Bytes Base.Result Model.Converter Model.CorrUtil Model.Enum Model.EnumCorr Gen.Misc.
Open Scope string_scope. Open Scope N_scope.
"""


def run(rep, tier, seed):
    import vlib
    count = 400 if tier == "quick" else 6000
    cases = gen_cases(seed, count)
    results = vlib.run_impl("corr/enum.py", cases, args=["--impl"], timeout=600)
    with vlib.Lock():
        ok, log, _ = vlib.coq_make(["Model/EnumCorr.vo", "Gen/Misc.vo"])
    if not ok:
        rep.oblig("build:Model/EnumCorr.vo", False, vlib.coq_first_error(log))
        return [dict(case=None)], cases, results
    shards, SH = [], 200
    for s in range(0, len(cases), SH):
        body = ";\n  ".join(coq_case(c, r) for c, r in zip(cases[s:s + SH], results[s:s + SH]))
        shards.append(("cases_enum_%d" % (s // SH), HEADER +
                       "Definition cases : list enum_case := [\n  %s].\nEval vm_compute in (mismatches check_enum_case cases).\n" % body))
    outs = vlib.coqc_many(shards, timeout=600)
    bad = []
    for idx, (name, _) in enumerate(shards):
        rc, out = outs[name]
        mm = vlib.parse_eval_list(out)
        if rc != 0 or mm is None:
            rep.oblig("correspondence:enum shard %s compiles" % name, False, out[-600:])
            bad.append(dict(case=None, error=out[-600:]))
            continue
        for j in mm:
            bad.append(dict(case=cases[idx * SH + j], impl=results[idx * SH + j]))
    nops = sum(len(c["ops"]) for c in cases)
    dist = {}
    for r in results:
        for x in r["res"]:
            dist[x[0] if x[0] != "exn" else "exn:" + x[1]] = dist.get(x[0] if x[0] != "exn" else "exn:" + x[1], 0) + 1
    rep.suite("Enum metaclass: op sequences over 3 live enumerations, real Enum vs Model/Enum.v", len(cases), len(bad),
              samples=[dict(case=cases[0], impl=results[0]["res"])], distribution=dict(operations=nops, outcomes=dist))
    return bad, cases, results


if __name__ == "__main__":
    if "--impl" in sys.argv:
        impl_main()
