"""Correspondence for the regenerated function bodies (coq/Gen/PyFuncs.v) and their semantics (coq/Model/Py.v):
the same arguments go through the real decoder / builder functions of /repo and through `call_fun` inside Coq.

  python pyfuncs.py --impl   (under the repository's interpreter): JSON list of {fn, args} -> list of {ok: value} | {exn: name}
  run(rep, tier, seed, summary)   (runner side): generates the cases, runs both sides, lets Coq compare.

Values travel as JSON: int | bool | None | str | {"__b": hex} | [..] | {"__d": [[key, value], ...]} (insertion order kept)."""
import importlib
import json
import os
import random
import sys

HERE = os.path.dirname(os.path.abspath(__file__))
sys.path.insert(0, os.path.dirname(HERE))


# ------------------------------------------------------------------------------------------------ value encoding
class Unrepresentable(Exception):
    pass


def enc(v):
    if v is None or isinstance(v, bool) or isinstance(v, int):
        return v
    if isinstance(v, str):
        if not all(32 <= ord(c) < 127 for c in v):
            raise Unrepresentable("non-ascii str")
        return v
    if isinstance(v, (bytes, bytearray)):
        return {"__b": bytes(v).hex()}
    if isinstance(v, (list, tuple)):
        return [enc(x) for x in v]
    if isinstance(v, dict):
        if not all(isinstance(k, str) for k in v):
            raise Unrepresentable("non-str key")
        return {"__d": [[k, enc(x)] for k, x in v.items()]}
    raise Unrepresentable(type(v).__name__)


def dec(v):
    if isinstance(v, dict):
        if "__b" in v:
            return bytearray(bytes.fromhex(v["__b"]))
        if "__o" in v:                    # an OpCode object: {"__o": "OpCode", "name": .., "value": .., "serviceaction": [[name, value], ...]}
            from pyscsi.pyscsi.scsi_opcode import OpCode
            return OpCode(v["name"], v["value"], dict((k, x) for k, x in v["serviceaction"]))
        return {k: dec(x) for k, x in v["__d"]}
    if isinstance(v, list):
        return [dec(x) for x in v]
    return v


def cpv(v):
    """JSON-encoded value -> Coq literal of type pv"""
    if v is None:
        return "PNone"
    if isinstance(v, bool):
        return "PBool %s" % ("true" if v else "false")
    if isinstance(v, int):
        return "PInt %d" % v if v >= 0 else "PInt (%d)" % v
    if isinstance(v, str):
        return 'PStr "%s"' % v.replace('"', '""')
    if isinstance(v, list):
        return "PList [%s]" % "; ".join(cpv(x) for x in v)
    if "__b" in v:
        return "PBytes [%s]" % ";".join(str(b) for b in bytes.fromhex(v["__b"]))
    if "__o" in v:                        # objects are dictionaries of their attributes carrying the marker key "__obj__" (Model/Py.v, EAttr)
        sa = "PDict [(\"__obj__\", PStr \"Enum\")%s]" % "".join('; ("%s", PInt %d)' % (k, x) for k, x in v["serviceaction"])
        return 'PDict [("__obj__", PStr "OpCode"); ("name", PStr "%s"); ("value", PInt %d); ("serviceaction", %s)]' % (v["name"], v["value"], sa)
    return "PDict [%s]" % "; ".join('("%s", %s)' % (k.replace('"', '""'), cpv(x)) for k, x in v["__d"])


# ------------------------------------------------------------------------------------------------ implementation side
OUTPARAM = {"converter.decode_bits": 2, "converter.encode_dict": 2}     # functions that change this argument in place and return nothing


def resolve(qual):
    parts = qual.split(".")
    if parts[0] == "converter":
        mod = importlib.import_module("pyscsi.utils.converter")
        f = getattr(mod, parts[1])
        if qual in OUTPARAM:
            def wrapped(*args, _f=f, _i=OUTPARAM[qual]):
                r = _f(*args)
                if r is not None:
                    raise RuntimeError("returned a value")
                return args[_i]           # the model returns the argument the real function changed in place
            return wrapped
        return f
    mod = importlib.import_module("pyscsi.pyscsi." + parts[0])
    obj = mod
    for p in parts[1:]:
        obj = getattr(obj, p)
    return obj


class Budget(Exception):
    pass


def impl_main():
    import signal

    def on_alarm(signum, frame):
        raise Budget()
    signal.signal(signal.SIGALRM, on_alarm)
    out = []
    for c in json.load(sys.stdin):
        try:
            f = resolve(c["fn"])
            signal.setitimer(signal.ITIMER_REAL, 0.4)          # a call that runs this long counts as not terminating (model: fuel exhausted)
            try:
                r = f(*[dec(a) for a in c["args"]])
            finally:
                signal.setitimer(signal.ITIMER_REAL, 0)
            try:
                out.append(dict(ok=enc(r)))
            except Unrepresentable as u:
                out.append(dict(skip=str(u)))
        except RecursionError:
            out.append(dict(skip="recursion"))
        except (Budget, MemoryError):
            out.append(dict(exn="Diverges"))
        except NameError:
            out.append(dict(exn="NameError"))        # UnboundLocalError is a NameError: a name read before it was bound (the model's lookup failure)
        except Exception as e:  # noqa
            out.append(dict(exn=type(e).__name__))
    print(json.dumps(out))


# ------------------------------------------------------------------------------------------------ case generation
def damage(rng, d):
    k = rng.random()
    d = list(d)
    if k < 0.3 and len(d) > 1:
        return d[:rng.randrange(0, len(d))]
    if k < 0.75 and d:
        for _ in range(rng.randint(1, 3)):
            i = rng.randrange(len(d))
            d[i] = rng.choice([0, 1, 255, rng.randrange(256), d[i] ^ (1 << rng.randrange(8))])
        return d
    if k < 0.85:
        return [rng.randrange(256) for _ in range(rng.choice([0, 1, 3, 4, 7, 8, 12, 24, 40, 96]))]
    return d + [rng.randrange(256) for _ in range(rng.randint(1, 9))]


def perturb_dict(rng, v):
    """a JSON-encoded dict with one key removed somewhere, or one value replaced by a value of another type"""
    import copy
    v = copy.deepcopy(v)
    dicts = []

    def walk(x):
        if isinstance(x, dict) and "__d" in x:
            dicts.append(x)
            for _, y in x["__d"]:
                walk(y)
        elif isinstance(x, list):
            for y in x:
                walk(y)
    walk(v)
    dicts = [d for d in dicts if d["__d"]]
    if not dicts:
        return v
    d = rng.choice(dicts)
    i = rng.randrange(len(d["__d"]))
    k = rng.random()
    if k < 0.6:
        del d["__d"][i]
    elif k < 0.8:
        d["__d"][i][1] = rng.choice([None, 0, 1, {"__b": ""}, {"__b": "0102"}, [], "x"])
    else:
        d["__d"].append(["bogus_key", 7])
    return v


def gen_cases(seed, tier, summary):
    import spec_resp
    rng = random.Random(seed ^ 0x9F)
    funcs = {f["qual"]: f for f in summary["pyfuncs"]["functions"]}
    by_cls = {}
    for q in funcs:
        p = q.split(".")
        if len(p) == 3:
            by_cls.setdefault(p[1], {})[p[2]] = q
    cases = []          # dict(fn, args, kind)
    n_each = 5 if tier == "quick" else 30
    resp = spec_resp.cases(random.Random(seed), n_each)
    for c in resp:
        q = by_cls.get(c["call"], {}).get("unmarshall_datain")
        if not q:
            continue
        extra = [c["args"]["evpd"]] if "evpd" in c["args"] else []
        if any(k != "evpd" for k in c["args"]):
            continue
        datas = [list(c["data"])]
        for _ in range(2 if tier == "quick" else 4):
            datas.append(damage(rng, c["data"]))
        for j, d in enumerate(datas):
            cases.append(dict(fn=q, args=[{"__b": bytes(d).hex()}] + extra, kind="parse" if j == 0 else "parse-damaged", fmt=c["fmt"],
                              build=by_cls.get(c["call"], {}).get("marshall_datain") if j == 0 else None))
    # helpers with byte input
    fs = "scsi_cdb_persistentreservein.PersistentReserveInReadFullStatus"
    for _ in range(20 if tier == "quick" else 150):
        tb, _e = spec_resp.transport_id(rng)
        for d in (list(tb), damage(rng, tb)):
            cases.append(dict(fn=fs + ".unmarshall_transport_id", args=[{"__b": bytes(d).hex()}], kind="transport-id",
                              build=fs + ".marshall_transport_id" if d == list(tb) else None))
        db, de = spec_resp.designator(rng)
        body = db[4:]
        for d in (list(body), damage(rng, body)):
            cases.append(dict(fn="scsi_cdb_inquiry.Inquiry.unmarshall_designator", args=[de["designator_type"], {"__b": bytes(d).hex()}],
                              kind="designator", build="scsi_cdb_inquiry.Inquiry.marshall_designator" if d == list(body) else None,
                              build_pre=[de["designator_type"]]))
        n = rng.choice([0, 1, 2, 3, 4, 5, 7, 8, 9, 15, 16, 17, 223, 224])
        cases.append(dict(fn="scsi_cdb_persistentreservein._pad4_len", args=[{"__b": bytes(rng.randrange(1, 256) for _ in range(n)).hex()}], kind="pad4"))
    # the PERSISTENT RESERVE OUT builder on the dictionaries of the parameter-list generator (all service actions, TransportID kinds,
    # names across the padding boundaries), also with one key removed / retyped
    import spec_params
    SA = [["REGISTER", 0], ["RESERVE", 1], ["RELEASE", 2], ["CLEAR", 3], ["PREEMPT", 4], ["PREEMPT_AND_ABORT", 5],
          ["REGISTER_AND_IGNORE_EXISTING_KEY", 6], ["REGISTER_AND_MOVE", 7], ["REPLACE_LOST_RESERVATION", 8]]
    op = {"__o": "OpCode", "name": "PERSISTENT_RESERVE_OUT", "value": 0x5F, "serviceaction": SA}

    def jv(x):
        if isinstance(x, dict) and set(x.keys()) == {"b"}:
            return {"__b": bytes(x["b"]).hex()}
        if isinstance(x, (bytes, bytearray)):
            return {"__b": bytes(x).hex()}
        if isinstance(x, dict):
            return {"__d": [[k, jv(v)] for k, v in x.items()]}
        if isinstance(x, list):
            return [jv(v) for v in x]
        if isinstance(x, str) and not all(32 <= ord(ch) < 127 for ch in x):
            raise Unrepresentable("non-ascii str")
        return x
    for c in spec_params.cases(random.Random(seed ^ 0x9807), 6 if tier == "quick" else 40):
        if c["cls"] != "PersistentReserveOut":
            continue
        try:
            kw = jv({k: v for k, v in c["kw"].items() if k not in ("scope", "pr_type")})
        except Unrepresentable:
            continue
        q = "scsi_cdb_persistentreserveout.PersistentReserveOut.marshall_dataout"
        cases.append(dict(fn=q, args=[op, c["sa"], kw], kind="prout-build"))
        cases.append(dict(fn=q, args=[op, c["sa"], perturb_dict(rng, kw)], kind="prout-build-perturbed"))
    return [c for c in cases if c["fn"] in funcs]


def gen_conv_cases(seed, tier):
    """pyscsi/utils/converter.py: widths / values / byte strings; well-formed and arbitrary layouts, in-range and out-of-range values,
    buffers that are too short, values of the wrong kind"""
    from corr import converter as cc
    rng = random.Random(seed ^ 0xC0DEC)
    cases = []
    n = 150 if tier == "quick" else 1500
    for _ in range(n):
        w = rng.choice([0, 1, 2, 3, 4, 8, 9, 16])
        v = rng.choice([0, 1, 255, 256, (1 << (8 * w)) - 1 if w else 0, rng.getrandbits(8 * w + 3)])
        cases.append(dict(fn="converter.scsi_int_to_ba", args=[v, w], kind="conv-i2b"))
        if rng.random() < 0.2:
            cases.append(dict(fn="converter.scsi_int_to_ba", args=[v], kind="conv-i2b-default"))
        b = bytes(rng.randrange(256) for _ in range(rng.choice([0, 1, 2, 3, 4, 8, 9, 17])))
        cases.append(dict(fn="converter.scsi_ba_to_int", args=[{"__b": b.hex()}], kind="conv-b2i"))

    def table(L):
        return {"__d": [[k, ([e[1], e[2]] if e[0] == "mask" else [{1: "b", 2: "w", 4: "dw"}[e[1]], e[2], e[3]])] for k, e in L]}

    def val(v):
        return v[1] if v[0] == "i" else {"__b": bytes(v[1]).hex()}
    for _ in range(n):
        nb = rng.randint(1, 20)
        valid = rng.random() < 0.7
        L = cc.gen_layout(rng, nb, valid=valid)
        if not L:
            continue
        buf = bytes(rng.randrange(256) for _ in range(nb if rng.random() < 0.8 else rng.randint(0, nb)))
        cur = {"__d": [["earlier", 7]] if rng.random() < 0.3 else []}
        cases.append(dict(fn="converter.decode_bits", args=[{"__b": buf.hex()}, table(L), cur], kind="conv-decode" + ("" if valid else "-arbitrary")))
        d = [[k, val(cc.field_value(rng, e, in_range=rng.random() < 0.85))] for k, e in L if rng.random() < 0.8]
        if rng.random() < 0.2:
            d.append(["not_in_table", 5])
        if rng.random() < 0.1 and d:
            d[rng.randrange(len(d))][1] = rng.choice([{"__b": "0102"}, 3, None])       # a value of the wrong kind
        rng.shuffle(d)
        cases.append(dict(fn="converter.encode_dict", args=[{"__d": d}, table(L), {"__b": buf.hex()}], kind="conv-encode" + ("" if valid else "-arbitrary")))
    return cases


def run_conv(rep, tier, seed, summary):
    """the regenerated pyscsi/utils/converter.py (Gen/PyConv.v, conv_program) under Model/Py.v vs the real functions"""
    import re
    import vlib
    cases = gen_conv_cases(seed, tier)
    res = []
    for i in range(0, len(cases), 400):
        res += vlib.run_impl("corr/pyfuncs.py", [dict(fn=c["fn"], args=c["args"]) for c in cases[i:i + 400]], args=["--impl"], timeout=900)
    rows, idx = [], []
    for j, (c, r) in enumerate(zip(cases, res)):
        if "skip" in r:
            continue
        exp = "Ok (%s)" % cpv(r["ok"]) if "ok" in r else "Raise %s" % vlib.cexn(r["exn"])
        rows.append('(%s, [%s], %s)' % (vlib.cstr(c["fn"]), "; ".join(cpv(a) for a in c["args"]), exp))
        idx.append(j)
    with vlib.Lock():
        ok, log, _ = vlib.coq_make(["Model/PyCorr.vo", "Gen/PyConv.vo"])
    if not ok:
        rep.oblig("build:Model/PyCorr.vo Gen/PyConv.vo", False, vlib.coq_first_error(log))
        return [dict(case=None)]
    prelude = PRELUDE.replace("Gen.Tables Gen.PyFuncs", "Gen.PyConv")
    shards, SH = [], 300
    for s0 in range(0, len(rows), SH):
        shards.append(("cases_pyconv_%d" % (s0 // SH), prelude + "Definition cases : list pycase := [\n  %s].\n"
                       "Eval vm_compute in (mismatches (py_check nil conv_program) cases).\n"
                       "Eval vm_compute in (mismatches (py_modelled nil conv_program) cases).\n" % ";\n  ".join(rows[s0:s0 + SH])))
    outs = vlib.coqc_many(shards, timeout=900)
    bad, unmod = [], 0
    for k, (name, _) in enumerate(shards):
        rc, out = outs[name]
        flat = re.sub(r"\s+", " ", out)
        ms = re.findall(r"= (\[[^\]]*\]|nil) ?: list N", flat)
        if rc != 0 or len(ms) != 2:
            rep.oblig("correspondence:pyconv shard %s compiles" % name, False, out[-800:])
            bad.append(dict(case=None, error=out[-600:]))
            continue
        for j in [int(x) for x in re.findall(r"\d+", ms[0])]:
            g = idx[k * SH + j]
            bad.append(dict(case=cases[g], impl=res[g]))
        unmod += len(re.findall(r"\d+", ms[1]))
    dist = {}
    for c, r in zip(cases, res):
        key = "%s:%s" % (c["kind"], "ok" if "ok" in r else r.get("exn", "skip"))
        dist[key] = dist.get(key, 0) + 1
    rep.suite("regenerated pyscsi/utils/converter.py (Gen/PyConv.v under Model/Py.v) vs the real scsi_int_to_ba / scsi_ba_to_int / decode_bits / "
              "encode_dict: widths, values, well-formed and arbitrary layouts, short buffers, out-of-range values, values of the wrong kind",
              len(rows), len(bad), samples=[dict(fn=cases[0]["fn"], args=str(cases[0]["args"])[:120], impl=str(res[0])[:120])],
              distribution=dict(outcomes=dist, model_unmodelled=unmod))
    return bad


PRELUDE = """From Coq Require Import String ZArith.
From PS Require Import Base.Bytes Base.Result Model.Converter Model.CorrUtil Model.Py Model.PyCorr Gen.Tables Gen.PyFuncs.
Open Scope string_scope. Open Scope N_scope.
"""


def run(rep, tier, seed, summary):
    import vlib
    cases = gen_cases(seed, tier, summary)

    def impl(cs):
        out = []
        for i in range(0, len(cs), 400):
            out += vlib.run_impl("corr/pyfuncs.py", [dict(fn=c["fn"], args=c["args"]) for c in cs[i:i + 400]], args=["--impl"], timeout=900)
        return out
    res = impl(cases)
    # second stage: what the real decoders returned goes through the builders (also with one key removed / retyped)
    rng = random.Random(seed ^ 0xB1D)
    stage2 = []
    for c, r in zip(cases, res):
        if c.get("build") and "ok" in r and r["ok"] is not None:
            pre = c.get("build_pre", [])
            stage2.append(dict(fn=c["build"], args=pre + [r["ok"]], kind="build"))
            stage2.append(dict(fn=c["build"], args=pre + [perturb_dict(rng, r["ok"])], kind="build-perturbed"))
    funcs = {f["qual"] for f in summary["pyfuncs"]["functions"]}
    stage2 = [c for c in stage2 if c["fn"] in funcs]
    res2 = impl(stage2)
    allc, allr = cases + stage2, res + res2
    rows, idx = [], []
    for j, (c, r) in enumerate(zip(allc, allr)):
        if "skip" in r:
            continue
        exp = "Ok (%s)" % cpv(r["ok"]) if "ok" in r else "Raise %s" % vlib.cexn(r["exn"])
        rows.append('(%s, [%s], %s)' % (vlib.cstr(c["fn"]), "; ".join(cpv(a) for a in c["args"]), exp))
        idx.append(j)
    with vlib.Lock():
        ok, log, _ = vlib.coq_make(["Model/PyCorr.vo", "Gen/PyFuncs.vo", "Gen/Tables.vo"])
    if not ok:
        rep.oblig("build:Model/PyCorr.vo Gen/PyFuncs.vo", False, vlib.coq_first_error(log))
        return [dict(case=None)], allc, allr
    shards, SH = [], 250
    for s in range(0, len(rows), SH):
        shards.append(("cases_pyfuncs_%d" % (s // SH), PRELUDE + "Definition cases : list pycase := [\n  %s].\n"
                       "Eval vm_compute in (mismatches (py_check all_tables py_program) cases).\n"
                       "Eval vm_compute in (mismatches (py_modelled all_tables py_program) cases).\n" % ";\n  ".join(rows[s:s + SH])))
    outs = vlib.coqc_many(shards, timeout=900)
    bad, unmod = [], 0
    import re
    for k, (name, _) in enumerate(shards):
        rc, out = outs[name]
        flat = re.sub(r"\s+", " ", out)
        ms = re.findall(r"= (\[[^\]]*\]|nil) ?: list N", flat)
        if rc != 0 or len(ms) != 2:
            rep.oblig("correspondence:pyfuncs shard %s compiles" % name, False, out[-800:])
            bad.append(dict(case=None, error=out[-600:]))
            continue
        mm = [int(x) for x in re.findall(r"\d+", ms[0])]
        unmod += len(re.findall(r"\d+", ms[1]))
        for j in mm:
            g = idx[k * SH + j]
            bad.append(dict(case=allc[g], impl=allr[g]))
    dist = {}
    for c, r in zip(allc, allr):
        key = "%s:%s" % (c["kind"], "ok" if "ok" in r else r.get("exn", "skip"))
        dist[key] = dist.get(key, 0) + 1
    perfn = {}
    for c in allc:
        perfn[c["fn"].split(".", 1)[1]] = perfn.get(c["fn"].split(".", 1)[1], 0) + 1
    rep.suite("regenerated decoder / builder bodies (Gen/PyFuncs.v under Model/Py.v) vs the real functions: conformant, truncated, corrupted and "
              "random buffers; the decoders' own results and perturbed dictionaries through the builders",
              len(rows), len(bad), samples=[dict(fn=allc[0]["fn"], args=str(allc[0]["args"])[:120], impl=str(allr[0])[:160])],
              distribution=dict(outcomes=dist, per_function=perfn, model_unmodelled=unmod, skipped_unrepresentable=len(allc) - len(rows)))
    return bad, allc, allr


if __name__ == "__main__":
    if "--impl" in sys.argv:
        impl_main()
