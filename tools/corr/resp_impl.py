"""Implementation side of C04: every response the conformant device of tools/spec_resp.py builds is handed to the
library's real parser; reports, per case, what the parser returned (or raised) and where it departs from what the
device encoded. Input: {seed, n_each}; the cases are regenerated here from the seed (bytes do not travel as JSON)."""
import json
import os
import random
import sys

sys.path.insert(0, os.path.dirname(os.path.dirname(os.path.abspath(__file__))))
import spec_resp  # noqa: E402


def parsers():
    from pyscsi.pyscsi.scsi_cdb_inquiry import Inquiry
    from pyscsi.pyscsi.scsi_cdb_readcapacity10 import ReadCapacity10
    from pyscsi.pyscsi.scsi_cdb_readcapacity16 import ReadCapacity16
    from pyscsi.pyscsi.scsi_cdb_getlbastatus import GetLBAStatus
    from pyscsi.pyscsi.scsi_cdb_report_luns import ReportLuns
    from pyscsi.pyscsi.scsi_cdb_report_priority import ReportPriority
    from pyscsi.pyscsi.scsi_cdb_report_target_port_groups import ReportTargetPortGroups
    from pyscsi.pyscsi.scsi_cdb_readelementstatus import ReadElementStatus
    from pyscsi.pyscsi.scsi_cdb_readdiscinformation import ReadDiscInformation
    from pyscsi.pyscsi.scsi_cdb_modesense6 import ModeSense6
    from pyscsi.pyscsi.scsi_cdb_modesense10 import ModeSense10
    from pyscsi.pyscsi import scsi_cdb_persistentreservein as pr
    d = dict(Inquiry=Inquiry, ReadCapacity10=ReadCapacity10, ReadCapacity16=ReadCapacity16, GetLBAStatus=GetLBAStatus,
             ReportLuns=ReportLuns, ReportPriority=ReportPriority, ReportTargetPortGroups=ReportTargetPortGroups,
             ReadElementStatus=ReadElementStatus, ReadDiscInformation=ReadDiscInformation, ModeSense6=ModeSense6,
             ModeSense10=ModeSense10)
    for n in ("PersistentReserveInReadKeys", "PersistentReserveInReadReservation", "PersistentReserveInReportCapabilities",
              "PersistentReserveInReadFullStatus"):
        d[n] = getattr(pr, n)
    return d


def normalise(call, res):
    """API shape only: REPORT LUNS reports each LUN as {"lun<i>": value}"""
    if call == "ReportLuns" and isinstance(res, dict) and isinstance(res.get("luns"), list):
        res = dict(res)
        res["luns"] = [list(x.values())[0] if isinstance(x, dict) and len(x) == 1 else x for x in res["luns"]]
    return res


def jsonable(x):
    if isinstance(x, dict):
        return {str(k): jsonable(v) for k, v in x.items()}
    if isinstance(x, (list, tuple)):
        return [jsonable(v) for v in x]
    if isinstance(x, (bytes, bytearray)):
        return {"__b": bytes(x).hex()}
    if isinstance(x, (int, str)) or x is None:
        return x
    return repr(x)


def main():
    req = json.load(sys.stdin)
    P = parsers()
    if "raw" in req:
        import signal

        class Budget(Exception):
            pass

        def on_alarm(signum, frame):
            raise Budget()
        signal.signal(signal.SIGALRM, on_alarm)
        out = []
        for call, args, data in req["raw"]:
            try:
                signal.setitimer(signal.ITIMER_REAL, 0.4)
                try:
                    res = P[call].unmarshall_datain(bytearray(data), **args)
                finally:
                    signal.setitimer(signal.ITIMER_REAL, 0)
                out.append(dict(result=jsonable(normalise(call, res))))
            except (Budget, MemoryError):
                out.append(dict(exn="Diverges"))
            except Exception as e:  # noqa
                out.append(dict(exn=type(e).__name__))
        print(json.dumps(out))
        return
    cases = spec_resp.cases(random.Random(req["seed"]), req["n_each"])
    out = []
    for i, c in enumerate(cases):
        cls = P[c["call"]]
        try:
            res = cls.unmarshall_datain(bytearray(c["data"]), **c["args"])
            why = spec_resp.subset(c["expect"], normalise(c["call"], res))
            out.append(dict(i=i, fmt=c["fmt"], why=why, result=jsonable(res)))
        except Exception as e:  # noqa
            out.append(dict(i=i, fmt=c["fmt"], why="raised %s: %s" % (type(e).__name__, str(e)[:80]), exn=type(e).__name__))
    print(json.dumps(out))


if __name__ == "__main__":
    main()
