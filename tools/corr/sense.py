"""Correspondence between Model/Sense.v (over the regenerated dispatch / lookup forms / tables) and
SCSICheckCondition, and the implementation-side oracle of C08."""
import json
import os
import random
import re
import sys

HERE = os.path.dirname(os.path.abspath(__file__))
sys.path.insert(0, os.path.dirname(HERE))


def impl_main():
    import contextlib
    import io
    from pyscsi.pyscsi.scsi_sense import SCSICheckCondition
    out, held = [], []
    for s in json.load(sys.stdin):
        r = {}
        try:
            cc = SCSICheckCondition(bytes(s), print_data=False)
            r["new"] = ["ok", cc.response_code, [[k, v] for k, v in cc.data.items()],
                        getattr(cc, "asc", None), getattr(cc, "ascq", None)]
            try:
                r["str"] = ["ok", str(cc)]
            except Exception as e:  # noqa
                r["str"] = ["exn", type(e).__name__]
            try:
                with contextlib.redirect_stdout(io.StringIO()):
                    cc.print_data()
                    cc2 = SCSICheckCondition(bytes(s), print_data=True)
                    str(cc2)
                r["print"] = ["ok"]
            except Exception as e:  # noqa
                r["print"] = ["exn", type(e).__name__]
            held.append((cc, r))
        except Exception as e:  # noqa
            r["new"] = ["exn", type(e).__name__]
        out.append(r)
    # the errors are still alive: converting an earlier one to text AFTER later ones were constructed must give the same answer
    for cc, r in held:
        try:
            r["late"] = ["ok", str(cc), [[k, v] for k, v in cc.data.items()], getattr(cc, "asc", None), getattr(cc, "ascq", None)]
        except Exception as e:  # noqa
            r["late"] = ["exn", type(e).__name__]
    print(json.dumps(out))


def assigned_codes():
    import vlib
    txt = open(os.path.join(vlib.COQ, "Gen", "SenseTables.v")).read()
    m = re.search(r"Definition sense_ascq_dict.*?:= \[(.*?)\]\.", txt, re.S)
    return [int(x) for x in re.findall(r"\((\d+), \"", m.group(1))]


def gen_cases(seed, count):
    rng = random.Random(seed ^ 0xC08)
    codes = assigned_codes()
    cases = []
    rcs = [0x70, 0x71, 0x72, 0x73, 0xF0, 0xF2, 0x00, 0x7F, 0x74, 0x6F]
    lens = [1, 2, 3, 4, 8, 13, 14, 18, 32, 252]

    def mk(rc, key, asc, ascq, n):
        s = [rng.randint(0, 255) for _ in range(max(n, 1))]
        s[0] = rc
        fixed = (rc & 0x7F) in (0x70, 0x71)
        pos = (2, 12, 13) if fixed else (1, 2, 3)
        for p, v in zip(pos, (key | (rng.choice([0, 0xE0, 0x10]) if fixed else 0), asc, ascq)):
            if p < len(s):
                s[p] = v & 0xFF
        return s[:max(n, 1)]
    # every response code x every sense key, boundary ASC/ASCQ
    for rc in rcs:
        for key in range(16):
            for asc, ascq in ((0, 0), (0x04, 0x01), (0x29, 0x00), (0x7F, 0x7F), (0x80, 0x00), (0x00, 0x80), (0xFF, 0xFF), (0x0B, 0x55)):
                cases.append(mk(rc, key, asc, ascq, 18))
    # every assigned pair (both formats), every length class
    for c in codes:
        cases.append(mk(rng.choice([0x70, 0x72]), rng.randint(0, 15), c >> 8, c & 0xFF, rng.choice([14, 18, 32])))
    for n in lens:
        for rc in rcs:
            cases.append(mk(rc, rng.randint(0, 15), rng.randint(0, 255), rng.randint(0, 255), n))
    while len(cases) < count:
        cases.append(mk(rng.choice(rcs + [rng.randint(0, 255)]), rng.randint(0, 15), rng.randint(0, 255), rng.randint(0, 255),
                        rng.choice(lens + [rng.randint(1, 40)])))
    return cases


def t10_subset():
    """Spec/SenseFmt.v t10_asc_subset -> {asc*256+ascq: TEXT}"""
    import vlib
    txt = open(os.path.join(vlib.COQ, "Spec", "SenseFmt.v")).read()
    txt = re.sub(r"\(\*.*?\*\)", "", txt, flags=re.S)
    m = re.search(r"Definition t10_asc_subset.*?:= \[(.*?)\]\.", txt, re.S)
    return {int(a) * 256 + int(b): t for a, b, t in re.findall(r'\((\d+) \* 256 \+ (\d+), "([^"]*)"\)', m.group(1))}


_T10 = {}


STR_RE = re.compile(r"^Check Condition: (.*)\(0x([0-9A-F]{2})\) ASC\+Q:(.*)\(0x([0-9A-F]{4})\)$", re.S)
UNK_RE = re.compile(r"^Check Condition: unknown sense data format \(response code 0x([0-9A-F]{2})\)$")


def oracle(s, r):
    """the property on the implementation"""
    if r["new"][0] != "ok":
        return "constructing CheckCondition raised %s" % r["new"][1]
    if r["str"][0] != "ok":
        return "str() of the CheckCondition raised %s" % r["str"][1]
    if r["print"][0] != "ok":
        return "printing the CheckCondition raised %s" % r["print"][1]
    late = r.get("late")
    if late is not None:
        if late[0] != "ok":
            return "str() of the CheckCondition raised %s once other sense buffers had been decoded" % late[1]
        if late[1] != r["str"][1] or late[2] != r["new"][2] or late[3:] != r["new"][3:]:
            return "the error changed after later sense buffers were decoded: text %r -> %r" % (r["str"][1], late[1])
    rc = s[0] & 0x7F
    pos = {0x70: (2, 12, 13), 0x71: (2, 12, 13), 0x72: (1, 2, 3), 0x73: (1, 2, 3)}.get(rc)
    if pos:
        def at(p):
            return s[p] if p < len(s) else 0
        data = dict((k, v) for k, v in r["new"][2])
        exp = (at(pos[0]) & 0x0F, at(pos[1]), at(pos[2]))
        got = (data.get("sense_key"), r["new"][3], r["new"][4])
        if got != exp:
            return "sense key/ASC/ASCQ reported %s, the buffer holds %s at the SPC positions" % (got, exp)
        m = STR_RE.match(r["str"][1])
        if not m or int(m.group(2), 16) != exp[0] or int(m.group(4), 16) != exp[1] * 256 + exp[2]:
            return "text %r does not report key %#x / ASCQ %#06x" % (r["str"][1], exp[0], exp[1] * 256 + exp[2])
        if not _T10:
            _T10.update(t10_subset())
        want = _T10.get(exp[1] * 256 + exp[2])
        if want is not None and m.group(3).strip().upper() != want.upper():
            return "ASC/ASCQ %02Xh/%02Xh is assigned by T10 as %r but is described as %r" % (exp[1], exp[2], want, m.group(3))
    return None


def coq_case(s, r):
    from vlib import cbytes, cstr, cexn

    def on(x):
        return "None" if x is None else "(Some %d)" % x
    if r["new"][0] == "ok" and not all(isinstance(v, int) and not isinstance(v, bool) for _k, v in r["new"][2]):
        # the implementation decoded something that is not a number (nested data): the model knows no such value — a disagreement, not a crash
        en, ed = "Raise (OtherExn \"non-integer value in the decoded sense data\")", "Raise KeyError"
    elif r["new"][0] == "ok":
        d = "[" + "; ".join("(%s, VI %d)" % (cstr(k), v) for k, v in r["new"][2]) + "]"
        en = "Ok (%d, %s, %s, %s)" % (r["new"][1], d, on(r["new"][3]), on(r["new"][4]))
        if r["str"][0] == "ok":
            t = r["str"][1]
            m, u = STR_RE.match(t), UNK_RE.match(t)
            if m:
                ed = "Ok (DKnown %s %d %s %d)" % (cstr(m.group(1)), int(m.group(2), 16), cstr(m.group(3)), int(m.group(4), 16))
            elif u:
                ed = "Ok (DUnknownFormat %d)" % int(u.group(1), 16)
            else:
                ed = "Raise (OtherExn %s)" % cstr("unparsed:" + t[:40])
        else:
            ed = "Raise %s" % cexn(r["str"][1])
    else:
        en, ed = "Raise %s" % cexn(r["new"][1]), "Raise KeyError"
    return "(%s, %s, %s)" % (cbytes(s), en, ed)


HEADER = """From Coq Require Import String.
From PS Require Import Base.Bytes Base.Result Model.Converter Model.CorrUtil Model.Sense Model.SenseCorr.
Open Scope string_scope. Open Scope N_scope.
"""


def run(rep, tier, seed):
    import vlib
    count = 3000 if tier == "quick" else 70000
    cases = gen_cases(seed, count)
    if tier == "thorough":
        rng = random.Random(seed)
        for c in range(65536):          # every ASC/ASCQ pair
            s = [0x70, 0, rng.randint(0, 15), 0, 0, 0, 0, 10, 0, 0, 0, 0, c >> 8, c & 0xFF, 0, 0, 0, 0]
            cases.append(s)
    results = vlib.run_impl("corr/sense.py", cases, args=["--impl"], timeout=900)
    with vlib.Lock():
        ok, log, _ = vlib.coq_make(["Model/SenseCorr.vo"])
    if not ok:
        rep.oblig("build:Model/SenseCorr.vo", False, vlib.coq_first_error(log))
        return [dict(case=None)], cases, results
    shards, SH = [], 400
    for s in range(0, len(cases), SH):
        body = ";\n  ".join(coq_case(c, r) for c, r in zip(cases[s:s + SH], results[s:s + SH]))
        shards.append(("cases_sense_%d" % (s // SH), HEADER +
                       "Definition cases : list sense_case := [\n  %s].\nEval vm_compute in (mismatches check_sense_case cases).\n" % body))
    outs = vlib.coqc_many(shards, timeout=600)
    bad = []
    for idx, (name, _) in enumerate(shards):
        rc, out = outs[name]
        mm = vlib.parse_eval_list(out)
        if rc != 0 or mm is None:
            rep.oblig("correspondence:sense shard %s compiles" % name, False, out[-600:])
            bad.append(dict(case=None, error=out[-600:]))
            continue
        for j in mm:
            bad.append(dict(case=cases[idx * SH + j], impl=results[idx * SH + j]))
    dist = {}
    for r in results:
        k = "new:" + r["new"][0] + ("/str:" + (r["str"][0] if r["str"][0] == "ok" else r["str"][1]) if r["new"][0] == "ok" else "")
        dist[k] = dist.get(k, 0) + 1
    rep.suite("SCSICheckCondition: construct / describe vs Model/Sense.v over the regenerated dispatch and tables",
              len(cases), len(bad), distinct=len({tuple(c) for c in cases}),
              samples=[dict(sense=cases[5], impl=results[5])], distribution=dist)
    return bad, cases, results


if __name__ == "__main__":
    if "--impl" in sys.argv:
        impl_main()
