"""Facade histories: sequences of facade calls on ONE SCSI object over the real SCSIDevice / ISCSIDevice (stub bindings), the target's
answers scripted per call as a LIST of outcomes (so that a second, hidden execution inside one call meets the next outcome).

Implementation-side oracle shared by C07 / C13 / C03 (the property texts, on what the implementation did):
  * one call = exactly one command handed to the binding                                                  (C13)
  * the call returns normally only if the FIRST answer of the target was GOOD; CHECK CONDITION surfaces as CheckCondition with the
    sense of that answer, every other failure as its own error; a failed call does not return a command   (C07)
  * operation code / CDB length are the T10 ones for that method whatever was called before               (C13)
  * the data-in buffer handed to the binding is as long as the allocation the CDB announces               (C03)
  * history independence: the same call with the same answers on a brand-new facade behaves the same      (C13/C07/C09)

  python facade_hist.py --impl : JSON list of histories -> list of per-step observations."""
import json
import os
import random
import sys

HERE = os.path.dirname(os.path.abspath(__file__))
sys.path.insert(0, os.path.dirname(HERE))

# method -> (positional args, kwargs, T10 opcode, CDB length, (offset, nbytes) of the allocation length or None)
METHODS = {
    "testunitready": ([], {}, 0x00, 6, None),
    "inquiry": ([], {}, 0x12, 6, (3, 2)),
    "inquiry_vpd": ([], {"evpd": 1, "page_code": 0x80, "alloclen": 64}, 0x12, 6, (3, 2)),
    "readcapacity10": ([], {}, 0x25, 10, None),
    "readcapacity16": ([], {}, 0x9E, 16, (10, 4)),
    "getlbastatus": ([5], {"alloclen": 72}, 0x9E, 16, (10, 4)),
    "reporttargetportgroups": ([], {"alloclen": 64}, 0xA3, 12, (6, 4)),
    "reportpriority": ([], {"alloclen": 64}, 0xA3, 12, (6, 4)),
    "reportluns": ([], {}, 0xA0, 12, (6, 4)),
    "reportluns_small": ([], {"alloclen": 16}, 0xA0, 12, (6, 4)),
    "read10": ([7, 1], {}, 0x28, 10, None),
    "read16": ([2 ** 33 + 7, 1], {}, 0x88, 16, None),
    "read10_tl0": ([7, 0], {}, 0x28, 10, None),           # TRANSFER LENGTH 0 is a valid request the device must still see
    "read16_tl0": ([7, 0], {}, 0x88, 16, None),
    "modesense6": ([0x0A], {"alloclen": 48}, 0x1A, 6, (4, 1)),
    "modesense10": ([0x0A], {"alloclen": 48}, 0x5A, 10, (7, 2)),
    "synchronizecache10": ([0, 0], {}, 0x35, 10, None),
    "atapassthrough12": ([4, 2, 1, 1, 0, 0, 0, 1, 0, 0xEC], {}, 0xA1, 12, None),
    "atapassthrough16": ([4, 2, 1, 1, 0, 0, 0, 1, 0, 0xEC], {}, 0x85, 16, None),
    # ... with the data-in buffer supplied by the caller (`data=`): a writable buffer that is not a bytearray (a view into a pool)
    "atapassthrough12_buf": ([4, 2, 1, 1, 0, 0, 0, 1, 0, 0xEC], {"data": "__memoryview__512"}, 0xA1, 12, None),
    "atapassthrough16_buf": ([4, 2, 1, 1, 0, 0, 0, 1, 0, 0xEC], {"data": "__memoryview__512"}, 0x85, 16, None),
    "readcd": ([16, 2], {"est": 2, "mcsb": 0x17}, 0xBE, 12, None),
    "readdiscinformation": ([0], {}, 0x51, 10, (7, 2)),
    "raw_execute": ([], {}, 0x00, 6, None),       # s.execute(TestUnitReady(...))
}
# the same kind of request with OTHER arguments (issued by somebody else while a call is with the device)
ALT_ARGS = {
    "readcd": ([500, 1], {"est": 2, "mcsb": 0x17}),
    "read10": ([99, 2], {}), "read16": ([2 ** 34, 3], {}), "read10_tl0": ([5, 1], {}), "read16_tl0": ([5, 1], {}),
    "getlbastatus": ([77], {"alloclen": 24}), "inquiry": ([], {"evpd": 1, "page_code": 0x83, "alloclen": 32}),
    "inquiry_vpd": ([], {}), "reportluns": ([], {"alloclen": 32}), "reportluns_small": ([], {}),
    "modesense6": ([0x1C], {"alloclen": 24}), "modesense10": ([0x1C], {"alloclen": 24}),
    "readcapacity16": ([], {"alloclen": 12}), "reporttargetportgroups": ([], {"alloclen": 16}), "reportpriority": ([], {"alloclen": 16}),
    "readdiscinformation": ([1], {}), "atapassthrough16": ([4, 2, 1, 1, 0, 0, 0, 2, 0, 0xEC], {}), "atapassthrough12": ([4, 2, 1, 1, 0, 0, 0, 2, 0, 0xEC], {}),
}
REAL = {"atapassthrough12_buf": "atapassthrough12", "atapassthrough16_buf": "atapassthrough16", "inquiry_vpd": "inquiry", "reportluns_small": "reportluns", "read10_tl0": "read10", "read16_tl0": "read16"}
OUTCOMES = ["good", "cc5", "cc6", "cc6b", "cc2", "busy", "oserror", "conflict"]
SENSE = {"cc5": (5, 0x24, 0x00), "cc6": (6, 0x29, 0x00), "cc6b": (6, 0x2A, 0x01), "cc2": (2, 0x04, 0x01)}
ISCSI_STATUS = {"busy": 0x08, "conflict": 0x18}


def is_cc(o):
    return o in SENSE or o.startswith("cc:")


def sense_of(o):
    """-> (key, asc, ascq, descriptor format?)"""
    if o in SENSE:
        return SENSE[o] + (False,)
    _, k, asc, ascq, fmt = o.split(":")
    return int(k), int(asc), int(ascq), fmt == "d"


def sense_bytes(kind):
    k, asc, ascq, desc = sense_of(kind)
    if kind.endswith(":u"):           # a response code outside 70h..73h (vendor specific 7Fh): still a CHECK CONDITION
        s = bytearray(18)
        s[0], s[2], s[7], s[12], s[13] = 0x7F, k, 10, asc, ascq
        return bytes(s)
    if kind.endswith(":z"):           # an all-zero sense buffer
        return bytes(18)
    if desc:
        s = bytearray(8)
        s[0], s[1], s[2], s[3] = 0x72, k, asc, ascq
        return bytes(s)
    s = bytearray(18)
    s[0], s[2], s[7], s[12], s[13] = 0x70, k, 10, asc, ascq
    return bytes(s)


def fill_bytes(step_seed, n, kind):
    rng = random.Random(step_seed)
    if kind == "zeros":
        return bytes(n)
    if kind == "ones":
        return b"\xff" * n
    b = bytearray(rng.randrange(256) for _ in range(n))
    if n >= 4:          # a moderate length field in the first four bytes
        b[0:4] = (rng.choice([0, 4, 8, 20, 88, 160, 312])).to_bytes(4, "big")
    return bytes(b)


def impl_main():
    import resource
    import signal
    import tempfile
    import shutil
    try:
        resource.setrlimit(resource.RLIMIT_AS, (3 << 30, 3 << 30))
    except Exception:  # noqa
        pass
    import iscsi
    import sgio
    from pyscsi.pyscsi.scsi import SCSI
    from pyscsi.pyscsi.scsi_cdb_testunitready import TestUnitReady
    from pyscsi.pyscsi.scsi_device import SCSIDevice
    from pyscsi.pyiscsi.iscsi_device import ISCSIDevice
    from pyscsi.pyscsi.scsi_enum_command import sbc

    class Budget(Exception):
        pass

    def on_alarm(signum, frame):
        raise Budget()
    signal.signal(signal.SIGALRM, on_alarm)
    d = tempfile.mkdtemp(prefix="verif-fh-", dir="/dev/shm")
    node = os.path.join(d, "sg0")
    open(node, "wb").close()
    state = dict(outcomes=[], fill=None, execs=[])

    def reenter():
        """while the command is with the device, the library is used for ANOTHER request (an error-recovery wrapper, a monitoring hook, another
        thread): another facade over another device object issues the same kind of command with other arguments"""
        fn = state.get("reenter")
        if fn is None or state.get("nested"):
            return
        state["nested"] = True
        keep = (state["outcomes"], state["execs"])
        state["outcomes"], state["execs"] = [], []
        try:
            fn()
        except Exception:  # noqa
            pass
        finally:
            state["outcomes"], state["execs"] = keep
            state["nested"] = False

    def sg_target(cdb, dout, din):
        reenter()
        state["execs"].append(dict(op=cdb[0], cdb=list(cdb), in_len=len(din) if din is not None else None,
                                   out_len=len(dout) if dout is not None else None))
        o = state["outcomes"].pop(0) if state["outcomes"] else "good"
        if o == "good":
            f = state["fill"](len(din)) if din is not None and len(din) else b""
            return ("fill", f) if f else ("good",)
        if is_cc(o):
            return ("cc", sense_bytes(o))
        if o == "ccnone":
            return ("cc", None)
        if o == "oserror":
            return ("raise", OSError(5, "EIO"))
        return ("raise", sgio.UnspecifiedError(o))

    def is_target(cdb, dout, din):
        reenter()
        state["execs"].append(dict(op=cdb[0], cdb=list(cdb), in_len=len(din) if din is not None else None,
                                   out_len=len(dout) if dout is not None else None))
        o = state["outcomes"].pop(0) if state["outcomes"] else "good"
        if o == "good":
            return 0, None, (state["fill"](len(din)) if din is not None else None)
        if is_cc(o):
            return 2, sense_bytes(o), None
        if o == "ccnone":
            return 2, "absent", None
        return ISCSI_STATUS.get(o, 0x28), None, None

    def fresh(transport):
        if transport == "sg":
            dev = SCSIDevice(node, detect_replugged=False)
        else:
            dev = ISCSIDevice("iscsi://127.0.0.1/iqn.verif/0", "iqn.init")
        s = SCSI(None, 512)
        s.device = dev
        dev.opcodes = sbc
        return s, dev

    from pyscsi.pyscsi.scsi_enum_command import mmc

    def do_step(s, dev, st, k):
        args, kw, _op, _len, _al = METHODS[st["m"]]
        state["outcomes"] = list(st["outcomes"])
        state["fill"] = lambda n, k=k, kind=st["fill"]: fill_bytes(st["seed"], n, kind)
        state["execs"] = []
        dev.opcodes = mmc if st["m"] in ("readcd", "readdiscinformation") else sbc
        state["reenter"] = None
        if st.get("reenter") and st["m"] != "raw_execute":
            s_o, dev_o = fresh(hist_t[0])
            dev_o.opcodes = dev.opcodes
            a2, k2 = ALT_ARGS.get(st["m"], (args, kw))
            state["reenter"] = lambda: getattr(s_o, REAL.get(st["m"], st["m"]))(*a2, **k2)
        r = dict()
        pool = None
        if any(isinstance(v, str) and v.startswith("__memoryview__") for v in kw.values()):
            pool = bytearray(4096)
            kw = dict(kw)
            for k2, v in list(kw.items()):
                if isinstance(v, str) and v.startswith("__memoryview__"):
                    kw[k2] = memoryview(pool)[1024:1024 + int(v[len("__memoryview__"):])]
        signal.setitimer(signal.ITIMER_REAL, 5.0)
        try:
            try:
                if st["m"] == "raw_execute":
                    cmd = TestUnitReady(sbc.TEST_UNIT_READY)
                    s.execute(cmd)
                else:
                    cmd = getattr(s, REAL.get(st["m"], st["m"]))(*args, **kw)
                r["outcome"] = ["return"]
                if cmd is None:
                    r["outcome"] = ["exn", "ReturnedNone"]
                else:
                    r["raw_sense"] = bool(cmd.raw_sense_data)
                    if state["execs"] and cmd.datain is not None:
                        n = state["execs"][0]["in_len"] or 0
                        exp = fill_bytes(st["seed"], n, st["fill"])
                        r["datain_ok"] = bytes(cmd.datain[:n]) == exp and len(cmd.datain) == n
                        if pool is not None:
                            # the caller's own buffer is where the device's data must be
                            r["caller_buffer_ok"] = bytes(pool[1024:1024 + n]) == exp
                        if getattr(cmd, "result", None):
                            try:
                                ukw = {"evpd": 1} if st["m"] == "inquiry_vpd" else ({"lba": 16, "tl": 2, "est": 2, "mcsb": 0x17} if st["m"] == "readcd" else {})
                                again = type(cmd).unmarshall_datain(bytearray(exp), **ukw)
                                r["result_ok"] = repr(again) == repr(cmd.result)
                            except Exception as e:  # noqa
                                r["result_ok"] = "re-decode raised %s" % type(e).__name__
            finally:
                signal.setitimer(signal.ITIMER_REAL, 0)
        except dev.CheckCondition as e:
            r["outcome"] = ["cc", getattr(e, "asc", None), getattr(e, "ascq", None)]
        except Budget:
            r["outcome"] = ["exn", "Diverges"]
        except BaseException as e:  # noqa
            r["outcome"] = ["exn", type(e).__name__]
        r["execs"] = state["execs"]
        return r

    out = []
    hist_t = ["sg"]
    try:
        sgio.DEVICE, iscsi.DEVICE = sg_target, is_target
        for hist in json.load(sys.stdin):
            hist_t[0] = hist["t"]
            s, dev = fresh(hist["t"])
            res = []
            for k, st in enumerate(hist["steps"]):
                r = do_step(s, dev, st, k)
                s2, dev2 = fresh(hist["t"])            # the same call with the same answers on a brand-new facade
                r2 = do_step(s2, dev2, st, k)
                r["fresh"] = r2
                try:
                    dev2.close()
                except Exception:  # noqa
                    pass
                res.append(r)
            try:
                dev.close()
            except Exception:  # noqa
                pass
            out.append(res)
    finally:
        sgio.DEVICE = iscsi.DEVICE = None
        shutil.rmtree(d, ignore_errors=True)
    print(json.dumps(out))


def gen_hists(seed, count):
    rng = random.Random(seed ^ 0xFAC)
    names = sorted(METHODS)
    hists = []
    # every ordered pair of methods, the first one GOOD / failing in each way, on both transports (systematic part)
    for t in ("sg", "iscsi"):
        for a in names:
            for o in ("good", "busy", "cc6"):
                b = rng.choice(names)
                hists.append(dict(t=t, steps=[dict(m=a, outcomes=[o, "cc6b"], fill="random", seed=rng.randrange(1 << 30)),
                                              dict(m=b, outcomes=[rng.choice(["good", "cc5"]), "cc2"], fill="random", seed=rng.randrange(1 << 30))]))
    # every sense key x characteristic ASC/ASCQ pairs x both sense formats: whatever the sense SAYS, a CHECK CONDITION is an error
    for t in ("sg", "iscsi"):
        for k in range(16):
            for asc, ascq in ((0, 0), (0, 0x1D), (0x29, 0), (0x04, 0x01), (0x24, 0), (0x3F, 0x0E), (0x5D, 0), (0x0B, 0x55), (0x80, 0), (0xFF, 0xFF)):
                for fmt in ("f", "d") + (("u", "z") if (asc, ascq) in ((0, 0), (0x29, 0)) else ()):
                    m = ("testunitready", "readcapacity10", "raw_execute", "inquiry")[(k + asc + ascq) % 4]
                    hists.append(dict(t=t, steps=[dict(m=m, outcomes=["cc:%d:%d:%d:%s" % (k, asc, ascq, fmt), "good"], fill="zeros", seed=1)]))
    # CHECK CONDITION reported without any sense data (the binding has none to give): whatever the library makes of it — today a TypeError from
    # decoding `None` — it happens AFTER the command went out: the command is not handed over again and the call does not return normally
    for t in ("sg", "iscsi"):
        for m in names:
            hists.append(dict(t=t, steps=[dict(m=m, outcomes=["ccnone", "good", "good"], fill="zeros", seed=1),
                                          dict(m=rng.choice(names), outcomes=["good", "good"], fill="random", seed=rng.randrange(1 << 30))]))
    # a call during which the library serves another request of the same kind with other arguments (re-entrancy): the outer call still
    # sends its own command once and decodes its own buffer with its own arguments
    for t in ("sg", "iscsi"):
        for m in names:
            hists.append(dict(t=t, steps=[dict(m=m, outcomes=["good", "good"], fill="random", seed=rng.randrange(1 << 30), reenter=True),
                                          dict(m=m, outcomes=["good", "good"], fill="random", seed=rng.randrange(1 << 30))]))
    fam = ["readcapacity16", "getlbastatus", "reporttargetportgroups", "reportpriority"]
    for t in ("sg", "iscsi"):
        for a in fam:
            for b in fam:
                hists.append(dict(t=t, steps=[dict(m=a, outcomes=["good"], fill="random", seed=rng.randrange(1 << 30)),
                                              dict(m=b, outcomes=["good"], fill="random", seed=rng.randrange(1 << 30))]))
    while len(hists) < count:
        steps = []
        for _ in range(rng.randint(2, 7)):
            first = rng.choice(["good", "good", "good", "cc5", "cc6", "cc6b", "cc2", "busy", "oserror", "conflict"])
            rest = [rng.choice(OUTCOMES) for _ in range(2)]
            steps.append(dict(m=rng.choice(names), outcomes=[first] + rest, fill=rng.choice(["random", "random", "zeros", "ones"]),
                              seed=rng.randrange(1 << 30)))
        hists.append(dict(t=rng.choice(["sg", "iscsi"]), steps=steps))
    return hists


def oracle_step(t, st, r, aspects):
    """-> None or (aspect, description); aspects: subset of {"once", "status", "opcode", "buffers", "history"}"""
    args, kw, op, ln, al = METHODS[st["m"]]
    first = st["outcomes"][0]
    o = r["outcome"]
    ex = r["execs"]
    if "once" in aspects and len(ex) != 1:
        return "once", "%s handed %d commands to the binding (answers %s)" % (st["m"], len(ex), st["outcomes"][:len(ex) + 1])
    if "status" in aspects:
        ata = st["m"].startswith("atapassthrough")
        if o[0] == "return" and first != "good":
            # the ATA PASS-THROUGH methods ask for raw sense: over SG_IO a CHECK CONDITION then comes back attached to the command
            # (over SG_IO a binding that has no sense data to give is outside the contract of §6 — CheckConditionError always carries bytes —
            # and not judged; over iSCSI a task without the attribute is a case ISCSIDevice.execute itself provides for, and is judged)
            if not (ata and ((is_cc(first) and r.get("raw_sense")) or (first == "ccnone" and t == "sg"))):
                return "status", "%s returned normally although the target answered %s" % (st["m"], first)
        status_errors = ("BusyStatus", "ReservationConflict", "TaskSetFull", "ACAActive", "TaskAborted", "ConditionsMet", "UnspecifiedError",
                         "OSError", "CheckConditionError")
        if first == "good" and len(ex) == 1 and (o[0] == "cc" or (o[0] == "exn" and o[1] in status_errors)):
            return "status", "%s raised %s although the target reported GOOD" % (st["m"], o)
        if is_cc(first) and not st["m"].startswith("atapassthrough"):
            k, asc, ascq, _d = sense_of(first)
            undecodable = first.endswith(":u") or first.endswith(":z")
            if o[0] != "cc" or (not undecodable and (o[1] != asc or o[2] != ascq)):
                return "status", "%s: CHECK CONDITION %02x/%02x surfaced as %s" % (st["m"], asc, ascq, o)
        if first == "ccnone" and o[0] == "return" and not ata:
            return "status", "%s returned normally although the target answered CHECK CONDITION (no sense data available)" % st["m"]
        if first in ("busy", "conflict", "oserror") and o[0] != "exn":
            return "status", "%s: %s surfaced as %s" % (st["m"], first, o)
        if o[0] == "return" and r.get("raw_sense") and not st["m"].startswith("atapassthrough"):
            return "status", "%s: raw sense attached to a command although it was not asked for" % st["m"]
    if "opcode" in aspects and ex:
        if ex[0]["op"] != op or len(ex[0]["cdb"]) != ln:
            return "opcode", "%s sent operation code %02Xh in a %d-byte CDB (T10: %02Xh, %d bytes)" % (st["m"], ex[0]["op"], len(ex[0]["cdb"]), op, ln)
    if "buffers" in aspects and al is not None:
        for e in ex:
            if len(e["cdb"]) >= al[0] + al[1]:
                announced = int.from_bytes(bytes(e["cdb"][al[0]:al[0] + al[1]]), "big")
                if e["in_len"] != announced:
                    return "buffers", "%s: the CDB announces ALLOCATION LENGTH %d but the data-in buffer handed to the transport has %s bytes" % (
                        st["m"], announced, e["in_len"])
    if "buffers" in aspects and o[0] == "return" and first == "good":
        if r.get("caller_buffer_ok") is False:
            return "buffers", "%s: the data-in buffer the caller supplied was not the one handed to the device (the caller's buffer does not hold what the device wrote)" % st["m"]
        if r.get("datain_ok") is False:
            return "buffers", "%s: the data-in buffer of the returned command is not what the device wrote" % st["m"]
        if r.get("result_ok") not in (None, True):
            return "buffers", "%s: the result is not the decoding of what the device wrote (%s)" % (st["m"], r.get("result_ok"))
    if "history" in aspects:
        f = r["fresh"]
        a = (o, [(e["op"], len(e["cdb"]), e["in_len"], e["out_len"]) for e in ex], r.get("raw_sense"))
        b = (f["outcome"], [(e["op"], len(e["cdb"]), e["in_len"], e["out_len"]) for e in f["execs"]], f.get("raw_sense"))
        if a != b:
            return "history", "%s behaves differently after earlier calls on the same facade: %s, on a new facade %s" % (st["m"], a, b)
    return None


def oracle(hist, res, aspects):
    for i, (st, r) in enumerate(zip(hist["steps"], res)):
        w = oracle_step(hist["t"], st, r, aspects)
        if w:
            return dict(step=i, aspect=w[0], what="step %d over %s: %s" % (i, hist["t"], w[1]))
    return None


def shrink(hist, aspects, run_one):
    """drop steps while the history still fails"""
    cur = hist
    changed = True
    while changed and len(cur["steps"]) > 1:
        changed = False
        for i in range(len(cur["steps"])):
            cand = dict(t=cur["t"], steps=cur["steps"][:i] + cur["steps"][i + 1:])
            if oracle(cand, run_one(cand), aspects):
                cur, changed = cand, True
                break
    return cur


def run_hists(hists):
    import vlib
    out = []
    for i in range(0, len(hists), 150):
        out += vlib.run_impl("corr/facade_hist.py", hists[i:i + 150], args=["--impl"], extra_path=[os.path.join(vlib.TOOLS, "stubs")], timeout=900)
    return out


def run(rep, tier, seed, aspects, pid):
    """-> list of violation dicts (kind='facade-history')"""
    count = 900 if tier == "quick" else 2500
    hists = gen_hists(seed, count)
    try:
        results = run_hists(hists)
    except Exception as e:  # noqa
        rep.oblig("facade histories driver runs", False, str(e)[-600:])
        return [dict(kind="broken-driver", what=str(e)[-300:])]
    hits, seen = [], set()
    dist = {}
    for h, r in zip(hists, results):
        for st, x in zip(h["steps"], r):
            k = "%s:%s" % (st["outcomes"][0], x["outcome"][0])
            dist[k] = dist.get(k, 0) + 1
        w = oracle(h, r, aspects)
        if w:
            import re
            sig = "%s:%s" % (w["aspect"], re.sub(r"\d+", "N", w["what"].split(": ", 1)[1])[:80])
            if sig in seen:
                continue
            seen.add(sig)
            small = shrink(h, aspects, lambda c: run_hists([c])[0])
            w2 = oracle(small, run_hists([small])[0], aspects) or w
            hits.append(dict(kind="facade-history", id=sig, history=small, aspects=sorted(aspects), observed=w2["what"]))
    rep.suite("facade histories (%s): calls on one SCSI object over SCSIDevice / ISCSIDevice and the stub bindings, the target's answers "
              "scripted per call (several, so a hidden re-execution meets the next one); each step also on a brand-new facade" % "/".join(sorted(aspects)),
              len(hists), len(hits), samples=[dict(history=hists[-1]["steps"][:2])],
              distribution=dict(steps=sum(len(h["steps"]) for h in hists), first_answer_vs_outcome=dist))
    return hits


def replay(obj):
    r = run_hists([obj["history"]])[0]
    w = oracle(obj["history"], r, set(obj.get("aspects") or ["once", "status", "opcode", "buffers", "history"]))
    return w is None, ("on the implementation: %s" % (w["what"] if w else "every step behaved as the property demands"))


if __name__ == "__main__":
    if "--impl" in sys.argv:
        impl_main()
