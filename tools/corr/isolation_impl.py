"""Implementation-side oracle of C09: (a) sequential histories of constructions / static decode / encode over many
classes, every observation compared with the observation made right after the command's own construction;
(b) two threads constructing commands under a controlled line-granular scheduler (sys.settrace), all schedules
with one switch in each thread; (c) caller-supplied dictionaries are not modified; (d) repeated marshalling is
deterministic."""
import copy
import json
import os
import sys
import threading

import importlib
from pyscsi.pyscsi.scsi_opcode import OpCode


def prepare(spec):
    """everything that is not the construction itself (imports, the OpCode object, the argument values)"""
    mod = importlib.import_module("pyscsi.pyscsi." + spec["stem"])
    cls = getattr(mod, spec["cls"])
    op = OpCode("x", spec["op"], dict(spec["sa"]))
    args = [bytearray(a[1]) if a[0] == "b" else a[1] for a in spec["pos"]]
    return cls, op, args


def build(spec, prepared=None):
    cls, op, args = prepared or prepare(spec)
    return cls, cls(op, *args)


def observe(cls, cmd):
    dec = cls.unmarshall_cdb(cmd.cdb)
    # what the command object itself decodes from its (deterministically filled) data-in buffer, with no arguments and with the
    # arguments READ CD-style decoders take — whatever it is (a result or an exception), it must not depend on other commands
    res = []
    if cmd.datain is not None:
        for i in range(min(len(cmd.datain), 4096)):
            cmd.datain[i] = (i * 37 + 11) & 0xFF
    for kw in ({}, {"lba": 16, "tl": 1, "est": 2, "mcsb": 0x17}):
        try:
            cmd.unmarshall(**kw)
            res.append(repr(cmd.result)[:4000])
        except Exception as e:  # noqa
            res.append("exn:" + type(e).__name__)
    return dict(cdb=list(cmd.cdb), dec=sorted((k, v if isinstance(v, int) else list(v)) for k, v in dec.items()),
                enc=list(cls.marshall_cdb(dec)), out=None if cmd.dataout is None else len(cmd.dataout),
                inn=None if cmd.datain is None else len(cmd.datain), res=res)


def safe_observe(cls, cmd):
    try:
        return observe(cls, cmd)
    except Exception as e:  # noqa
        return dict(exn=type(e).__name__)


def sequential(hist):
    """hist: list of specs; after every construction, re-observe ALL earlier commands"""
    made = []
    for i, spec in enumerate(hist):
        try:
            cls, cmd = build(spec)
        except Exception:  # noqa
            if spec.get("variant"):
                continue           # other argument values that this class refuses: not a command, nothing to interfere with
            raise
        base = safe_observe(cls, cmd)
        made.append((cls, cmd, base, i))
        for cls2, cmd2, base2, j in made[:-1]:
            now = safe_observe(cls2, cmd2)
            if now != base2:
                return dict(kind="sequential", victim=j, after=i, alone=base2, in_context=now)
    return None


class Stepper(object):
    """runs fn in a thread, stopping before every source line of the pyscsi package"""

    def __init__(self, fn):
        self.fn = fn
        self.go = threading.Semaphore(0)
        self.stopped = threading.Semaphore(0)
        self.done = False
        self.result = None
        self.t = threading.Thread(target=self._run)
        self.t.daemon = True

    def _trace(self, frame, event, arg):
        fn = frame.f_code.co_filename
        if not (fn.endswith("scsi_command.py") or "scsi_cdb_" in fn):
            return None
        if event == "line":
            self.stopped.release()
            self.go.acquire()
        return self._trace

    def _run(self):
        self.go.acquire()
        sys.settrace(self._trace)
        try:
            self.result = self.fn()
        except Exception as e:  # noqa
            self.result = e
        finally:
            sys.settrace(None)
            self.done = True
            self.stopped.release()

    def start(self):
        self.t.start()

    def step(self):
        """run until the next line event (or the end); returns False when finished"""
        if self.done:
            return False
        self.go.release()
        self.stopped.acquire()
        return not self.done


def count_lines(spec):
    pre = prepare(spec)
    s = Stepper(lambda: build(spec, pre))
    s.start()
    n = 0
    while s.step():
        n += 1
    return n


def threaded(specA, specB, i, j):
    """A runs i lines, B runs j lines, A finishes, B finishes"""
    pa, pb = prepare(specA), prepare(specB)
    a, b = Stepper(lambda: build(specA, pa)), Stepper(lambda: build(specB, pb))
    a.start()
    b.start()
    for _ in range(i):
        if not a.step():
            break
    for _ in range(j):
        if not b.step():
            break
    while a.step():
        pass
    while b.step():
        pass
    out = []
    for s, spec in ((a, specA), (b, specB)):
        if isinstance(s.result, Exception):
            out.append(dict(exn=type(s.result).__name__))
        else:
            cls, cmd = s.result
            out.append(dict(cdb=list(cmd.cdb)))
    return out


def alone(spec):
    cls, cmd = build(spec)
    return dict(cdb=list(cmd.cdb))


def main():
    inp = json.load(sys.stdin)
    res = dict(sequential=[], threads=[], mutation=[], determinism=[])
    for h in inp["histories"]:
        res["sequential"].append(sequential(h))
    for pair in inp["pairs"]:
        A, B = pair["a"], pair["b"]
        na, nb = count_lines(A), count_lines(B)
        want = [alone(A), alone(B)]
        bad = None
        tried = 0
        stride = pair.get("stride", 1)
        while stride > 0 and ((na // stride) + 1) * ((nb // stride) + 1) > pair.get("max_schedules", 10 ** 9):
            stride += 1
        for i in range(0, na + 1, stride):
            for j in range(0, nb + 1, stride):
                tried += 1
                got = threaded(A, B, i, j)
                if got != want:
                    bad = dict(kind="schedule", a_lines=i, b_lines=j, alone=want, interleaved=got)
                    break
            if bad:
                break
        res["threads"].append(dict(lines=[na, nb], schedules=tried, bad=bad))
    # what decoding / encoding a CDB returns belongs to the caller: changing it must not change what the next call returns
    res["cdb_fresh"] = None
    seen_cls = set()
    for h in inp["histories"]:
        for spec in h:
            if spec["cls"] in seen_cls or res["cdb_fresh"]:
                continue
            seen_cls.add(spec["cls"])
            try:
                cls, cmd = build(spec)
                d1 = cls.unmarshall_cdb(cmd.cdb)
                snap = dict(d1)
                for k in list(d1):
                    d1[k] = -1
                d1["__changed_by_the_caller__"] = 1
                d2 = cls.unmarshall_cdb(cmd.cdb)
                if d2 != snap:
                    res["cdb_fresh"] = "%s.unmarshall_cdb: after the caller changed the dictionary a first decode returned, decoding the same CDB again gives %s instead of %s" % (
                        spec["cls"], str(d2)[:160], str(snap)[:160])
                    continue
                b1 = cls.marshall_cdb(snap)
                keep = bytes(b1)
                for i in range(len(b1)):
                    b1[i] ^= 0xFF
                b2 = cls.marshall_cdb(snap)
                if bytes(b2) != keep:
                    res["cdb_fresh"] = "%s.marshall_cdb: after the caller changed the bytes a first encode returned, encoding the same dictionary again gives %s instead of %s" % (
                        spec["cls"], bytes(b2).hex(), keep.hex())
            except Exception:  # noqa
                continue
    # caller-supplied dictionaries / lists are not modified
    from pyscsi.pyscsi.scsi_cdb_extended_copy_spc4 import ExtendedCopy as X4
    from pyscsi.pyscsi.scsi_cdb_extended_copy_spc5 import ExtendedCopy as X5
    for name, cls, tkey in (("xcopy4", X4, None), ("xcopy5", X5, None)):
        seg = [{"descriptor_type_code": 0x02, "dc": 1, "source_target_descriptor_id": 0, "destination_target_descriptor_id": 1,
                "block_device_number_of_blocks": 16, "source_block_device_logical_block_address": 0,
                "destination_block_device_logical_block_address": 64},
               {"descriptor_type_code": "block -> block", "block_device_number_of_blocks": 1}]
        before = copy.deepcopy(seg)
        try:
            op = OpCode("x", 0x83, {})
            if cls is X4:
                c1 = cls(op, 0, 0, 0, 0, [], seg, bytearray(0))
                c2 = cls(op, 0, 0, 0, 0, [], seg, bytearray(0))
            else:
                c1 = cls(op, 0, 0, 0, 0, 0, 0, [], seg, bytearray(0))
                c2 = cls(op, 0, 0, 0, 0, 0, 0, [], seg, bytearray(0))
            res["mutation"].append(dict(name=name, changed=(seg != before), before=str(before)[:200], after=str(seg)[:200]))
            res["determinism"].append(dict(name=name, same=(bytes(c1.dataout) == bytes(c2.dataout))))
        except Exception as e:  # noqa
            res["mutation"].append(dict(name=name, changed=(seg != before), exn=type(e).__name__, before=str(before)[:200], after=str(seg)[:200]))
    # building a command again from equal arguments gives equal bytes, whatever was built in between
    # (all parameter-list commands with rich arguments: TransportID lists, descriptor lists, mode pages)
    sys.path.insert(0, os.path.dirname(os.path.dirname(os.path.abspath(__file__))))
    import random
    import spec_params
    from params_impl import conv
    from pyscsi.pyscsi.scsi_enum_command import spc
    from pyscsi.pyscsi.scsi_cdb_modesense6 import ModeSelect6
    from pyscsi.pyscsi.scsi_cdb_modesense10 import ModeSelect10
    from pyscsi.pyscsi.scsi_cdb_persistentreserveout import PersistentReserveOut
    C = dict(ModeSelect6=(ModeSelect6, spc.MODE_SELECT_6), ModeSelect10=(ModeSelect10, spc.MODE_SELECT_10),
             PersistentReserveOut=(PersistentReserveOut, spc.PERSISTENT_RESERVE_OUT), ExtendedCopy4=(X4, spc.EXTENDED_COPY),
             ExtendedCopy5=(X5, spc.EXTENDED_COPY))
    cases = spec_params.cases(random.Random(inp.get("seed", 0)), inp.get("n_rebuild", 6))

    def mk(c):
        cls, op = C[c["cls"]]
        cmd = cls(op, *conv(copy.deepcopy(c["pos"])), **conv(copy.deepcopy(c["kw"])))
        return bytes(cmd.cdb), bytes(cmd.dataout)
    first = []
    for c in cases:
        try:
            first.append(mk(c))
        except Exception as e:  # noqa
            first.append(type(e).__name__)
    for i, c in enumerate(cases):
        try:
            again = mk(c)
        except Exception as e:  # noqa
            again = type(e).__name__
        if again != first[i]:
            res["determinism"].append(dict(name="%s (case %d of the parameter-list generator)" % (c["kind"], i), same=False))
            break
    else:
        res["determinism"].append(dict(name="parameter-list commands rebuilt", same=True, n=len(cases)))
    # (e) decoded results are isolated: decoding a response never changes what an earlier decode returned
    import spec_resp
    from resp_impl import parsers

    def plain(x):
        if isinstance(x, dict):
            return {k: plain(v) for k, v in x.items()}
        if isinstance(x, (list, tuple)):
            return [plain(v) for v in x]
        if isinstance(x, (bytes, bytearray)):
            return bytes(x)
        return x
    P = parsers()
    rcases = spec_resp.cases(random.Random(inp.get("seed", 0)), inp.get("n_decode", 3))
    kept, bad_dec = [], None
    for i, c in enumerate(rcases):
        try:
            d = P[c["call"]].unmarshall_datain(bytearray(c["data"]), **c["args"])
        except Exception:  # noqa
            continue
        for j, fmt, obj, snap in kept:
            if obj is d and isinstance(d, (dict, list)):
                bad_dec = dict(kind="decode-alias", victim=j, after=i, what="decoding %s returned the very object an earlier decode of %s returned" % (c["fmt"], fmt))
                break
            if plain(obj) != snap:
                bad_dec = dict(kind="decode-isolation", victim=j, after=i,
                               what="the result of decoding %s (case %d) changed when %s (case %d) was decoded afterwards" % (fmt, j, c["fmt"], i))
                break
        if bad_dec:
            break
        kept.append((i, c["fmt"], d, plain(d)))
    res["decode"] = dict(n=len(kept), bad=bad_dec)
    # (g) parameter-list commands in a history — valid ones, and the same with one nested key removed so that the construction FAILS
    # half-way: what OTHER command classes decode / encode afterwards is what they decoded / encoded before (a table borrowed from another
    # class and not handed back, a half-updated shared structure)
    from pyscsi.pyscsi.scsi_cdb_inquiry import Inquiry
    VPD83 = bytes([0x00, 0x83, 0x00, 0x18,
                   0x61, 0x93, 0x00, 0x08, 0x50, 0x01, 0x02, 0x03, 0x04, 0x05, 0x06, 0x07,          # NAA, PIV, target port
                   0x02, 0x01, 0x00, 0x08, 0x41, 0x42, 0x43, 0x44, 0x45, 0x46, 0x47, 0x48])         # T10 vendor id

    def probes():
        out = []
        try:
            d = Inquiry.unmarshall_datain(bytearray(VPD83), evpd=1)
            out.append(repr(plain(d)))
            out.append(bytes(Inquiry.marshall_datain(d)).hex())
        except Exception as e:  # noqa
            out.append("exn:" + type(e).__name__)
        for c0 in cases[:3]:
            try:
                out.append(mk(c0)[1].hex())
            except Exception as e:  # noqa
                out.append("exn:" + type(e).__name__)
        return out

    def nested_keys(x, depth=0, acc=None):
        acc = [] if acc is None else acc
        if isinstance(x, dict):
            for k, v in x.items():
                if depth >= 1 and not (isinstance(k, str) and k == "b"):
                    acc.append((x, k))
                nested_keys(v, depth + 1, acc)
        elif isinstance(x, list):
            for v in x:
                nested_keys(v, depth + 1, acc)
        return acc
    res["param_history"] = None
    rng_g = random.Random(inp.get("seed", 0) ^ 0x6)
    gcases = spec_params.cases(random.Random(inp.get("seed", 0) ^ 0x66), inp.get("n_param_hist", 4))
    base_p = probes()
    for i, c in enumerate(gcases):
        for corrupted in (False, True):
            kw = copy.deepcopy(c["kw"])
            if corrupted:
                ks = nested_keys(kw)
                if not ks:
                    continue
                dct, k = rng_g.choice(ks)
                del dct[k]
            try:
                cls_g, op_g = C[c["cls"]]
                cls_g(op_g, *conv(copy.deepcopy(c["pos"])), **conv(kw))
                outcome = "built"
            except Exception as e:  # noqa
                outcome = "refused with " + type(e).__name__
            now_p = probes()
            if now_p != base_p:
                idx = next(n for n, (a, b) in enumerate(zip(base_p, now_p)) if a != b)
                res["param_history"] = dict(case=i, corrupted=corrupted, command=c["kind"],
                                            what="after a %s command was %s (%s arguments), %s gives %s instead of %s" % (
                                                c["kind"], outcome, "incomplete" if corrupted else "valid",
                                                ["decoding a Device Identification VPD page with Inquiry", "rebuilding that page with Inquiry",
                                                 "building parameter list 0", "building parameter list 1", "building parameter list 2"][min(idx, 4)],
                                                str(now_p[idx])[:160], str(base_p[idx])[:160]))
                break
        if res["param_history"]:
            break
    # (h) a command that was DISCARDED is gone: a later command with a data-in buffer of the same size gets its own zero-filled buffer, and a
    # buffer the caller kept from the discarded command is not handed out again (sizes up to those of large reads)
    import gc
    res["recycled"] = None
    try:
        from pyscsi.pyscsi.scsi_cdb_report_luns import ReportLuns
        from pyscsi.pyscsi.scsi_cdb_getlbastatus import GetLBAStatus
        from pyscsi.pyscsi.scsi_cdb_read16 import Read16
        from pyscsi.pyscsi.scsi_enum_command import sbc as _sbc
        for size in (96, 4096, 65536, 131072, 1 << 20):
            first = ReportLuns(_sbc.REPORT_LUNS, alloclen=size)
            kept = first.datain
            for i in range(0, len(kept), 97):
                kept[i] = 0xA5                      # what the device wrote for the first command
            snap = bytes(kept)
            del first
            gc.collect()
            for mk2, label in ((lambda: GetLBAStatus(_sbc.SBC_OPCODE_9E, 0, alloclen=size), "GET LBA STATUS"),
                               (lambda: ReportLuns(_sbc.REPORT_LUNS, alloclen=size), "REPORT LUNS"),
                               (lambda: Read16(_sbc.READ_16, 512, 0, size // 512) if size >= 512 else None, "READ(16)")):
                second = mk2()
                if second is None or second.datain is None or len(second.datain) != size:
                    continue
                if second.datain is kept:
                    res["recycled"] = "a %s command with a %d-byte data-in buffer was handed the very buffer a discarded REPORT LUNS command had (the caller still holds it)" % (label, size)
                elif any(second.datain):
                    res["recycled"] = "a new %s command's %d-byte data-in buffer is not zero-filled: it holds what a discarded command received" % (label, size)
                for i in range(0, len(second.datain), 89):
                    second.datain[i] = 0x5A
                if bytes(kept) != snap and not res["recycled"]:
                    res["recycled"] = "writing into a new %s command's data-in buffer (%d bytes) changed the buffer kept from a discarded command" % (label, size)
                del second
                gc.collect()
                if res["recycled"]:
                    break
            if res["recycled"]:
                break
    except Exception as e:  # noqa
        res["recycled"] = None
        res["recycled_error"] = "%s: %s" % (type(e).__name__, e)
    # (f) first use: two threads using one command class for the first time in the process (modules imported afresh for every schedule)
    res["cold"] = []
    for pair in inp.get("cold_pairs", []):
        A, B = pair["a"], pair["b"]

        def purge():
            for k in [k for k in sys.modules if k == "pyscsi" or k.startswith("pyscsi.")]:
                del sys.modules[k]
        purge()
        want = [alone(A), alone(B)]
        purge()
        na = count_lines(A)
        bad, tried = None, 0
        stride = max(1, pair.get("stride", 1))
        for i in range(0, na + 1, stride):
            purge()
            tried += 1
            got = threaded(A, B, i, 10 ** 6)           # A runs i lines, B runs to completion, A resumes
            if got != want:
                bad = dict(kind="cold-schedule", a_lines=i, alone=want, interleaved=got)
                break
        purge()
        res["cold"].append(dict(lines=na, schedules=tried, bad=bad))
    print(json.dumps(res))


if __name__ == "__main__":
    main()
