"""Implementation side of the transfer set-up probes (C03): ISCSIDevice.execute / SCSIDevice.execute are given command
objects with the listed buffers; reports what the substituted bindings were handed (direction, expected transfer length,
buffer lengths). Input: list of {out: [bytes], inn: n}."""
import json
import os
import sys
import tempfile

import sgio      # noqa: E402  (stub)
import iscsi     # noqa: E402  (stub)
import pyscsi.pyscsi.scsi_device as scsi_device  # noqa: E402
import pyscsi.pyiscsi.iscsi_device as iscsi_device  # noqa: E402


class Cmd(object):
    def __init__(self, out, inn):
        self.cdb = bytearray(6)
        self.dataout = bytearray(out)
        self.datain = bytearray(inn)
        self.sense = None
        self.raw_sense_data = None


def main():
    scsi_device._has_sgio = True
    iscsi_device._has_iscsi = True
    fd, path = tempfile.mkstemp(prefix="sg", dir="/dev/shm")
    os.close(fd)
    out = []
    try:
        idev = iscsi_device.ISCSIDevice("iscsi://127.0.0.1/iqn.verif:t/0")
        sdev = scsi_device.SCSIDevice(path, True)
        for c in json.load(sys.stdin):
            del iscsi.LOG[:]
            del sgio.LOG[:]
            r = {}
            try:
                idev.execute(Cmd(c["out"], c["inn"]))
                e = iscsi.LOG[-1]
                r["iscsi"] = dict(dir=e["dir"], xferlen=e["xferlen"], out_len=e["out_len"], in_len=e["in_len"])
            except Exception as ex:  # noqa
                r["iscsi"] = dict(exn=type(ex).__name__)
            try:
                sdev.execute(Cmd(c["out"], c["inn"]))
                e = sgio.LOG[-1]
                r["sgio"] = dict(out_len=e["out_len"], in_len=e["in_len"])
            except Exception as ex:  # noqa
                r["sgio"] = dict(exn=type(ex).__name__)
            out.append(r)
        sdev.close()
    finally:
        os.unlink(path)
    print(json.dumps(out))


if __name__ == "__main__":
    main()
