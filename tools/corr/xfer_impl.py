"""Implementation side of the transfer set-up probes (C03): ISCSIDevice.execute / SCSIDevice.execute are given command
objects with the listed buffers; reports what the substituted bindings were handed (direction, expected transfer length,
buffer lengths). Input: list of {out: [bytes], inn: n}."""
import json
import os
import sys
import tempfile

import sgio      # noqa: E402  (stub)
import iscsi     # noqa: E402  (stub)
import pyscsi.pyscsi.scsi_device as scsi_device  # noqa: E402
import pyscsi.pyiscsi.iscsi_device as iscsi_device  # noqa: E402


class Cmd(object):
    def __init__(self, out, inn):
        self.cdb = bytearray(6)
        self.dataout = bytearray(out)
        self.datain = bytearray(inn)
        self.sense = None
        self.raw_sense_data = None


def main():
    scsi_device._has_sgio = True
    iscsi_device._has_iscsi = True
    fd, path = tempfile.mkstemp(prefix="sg", dir="/dev/shm")
    os.close(fd)
    out = []
    try:
        idev = iscsi_device.ISCSIDevice("iscsi://127.0.0.1/iqn.verif:t/0")
        sdev = scsi_device.SCSIDevice(path, True)
        for c in json.load(sys.stdin):
            del iscsi.LOG[:]
            del sgio.LOG[:]
            r = {}
            # the same command object is issued twice; the first time the device transfers fewer bytes than were allocated
            ic, sc = Cmd(c["out"], c["inn"]), Cmd(c["out"], c["inn"])
            for tag in ("", "_again"):
                short = bytes([0x5A]) * (c["inn"] // 3)
                try:
                    if hasattr(iscsi, "SCRIPT"):
                        del iscsi.SCRIPT[:]
                        iscsi.SCRIPT.append((0, None, short))
                    idev.execute(ic)
                    e = iscsi.LOG[-1]
                    r["iscsi" + tag] = dict(dir=e["dir"], xferlen=e["xferlen"], out_len=e["out_len"], in_len=e["in_len"])
                except Exception as ex:  # noqa
                    r["iscsi" + tag] = dict(exn=type(ex).__name__)
                try:
                    del sgio.SCRIPT[:]
                    sgio.SCRIPT.append(("fill", short))
                    sdev.execute(sc)
                    e = sgio.LOG[-1]
                    r["sgio" + tag] = dict(out_len=e["out_len"], in_len=e["in_len"])
                except Exception as ex:  # noqa
                    r["sgio" + tag] = dict(exn=type(ex).__name__)
            out.append(r)
        sdev.close()
    finally:
        os.unlink(path)
    print(json.dumps(out))


if __name__ == "__main__":
    main()
