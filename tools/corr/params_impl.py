"""Implementation side of C05: every valid parameter dictionary of tools/spec_params.py is handed to the real
constructor; the CDB and data-out it produced are read back at the standards' positions. Input {seed, n_each};
the cases are regenerated here from the seed."""
import json
import os
import random
import sys

sys.path.insert(0, os.path.dirname(os.path.dirname(os.path.abspath(__file__))))
import spec_params  # noqa: E402


def conv(x):
    if isinstance(x, dict) and set(x.keys()) == {"b"}:
        return bytearray(x["b"])
    if isinstance(x, dict):
        return {k: conv(v) for k, v in x.items()}
    if isinstance(x, list):
        return [conv(v) for v in x]
    return x


def mutable(x):
    """every bytes value as a bytearray (what the library's own decoders return and callers pass on)"""
    if isinstance(x, bytes):
        return bytearray(x)
    if isinstance(x, dict):
        return {k: mutable(v) for k, v in x.items()}
    if isinstance(x, list):
        return [mutable(v) for v in x]
    return x


def main():
    req = json.load(sys.stdin)
    from pyscsi.pyscsi.scsi_enum_command import spc
    from pyscsi.pyscsi.scsi_cdb_modesense6 import ModeSelect6
    from pyscsi.pyscsi.scsi_cdb_modesense10 import ModeSelect10
    from pyscsi.pyscsi.scsi_cdb_persistentreserveout import PersistentReserveOut
    from pyscsi.pyscsi.scsi_cdb_extended_copy_spc4 import ExtendedCopy as ExtendedCopy4
    from pyscsi.pyscsi.scsi_cdb_extended_copy_spc5 import ExtendedCopy as ExtendedCopy5
    C = dict(ModeSelect6=(ModeSelect6, spc.MODE_SELECT_6), ModeSelect10=(ModeSelect10, spc.MODE_SELECT_10),
             PersistentReserveOut=(PersistentReserveOut, spc.PERSISTENT_RESERVE_OUT),
             ExtendedCopy4=(ExtendedCopy4, spc.EXTENDED_COPY), ExtendedCopy5=(ExtendedCopy5, spc.EXTENDED_COPY))
    cases = spec_params.cases(random.Random(req["seed"]), req["n_each"])
    out = []
    for i, c in enumerate(cases):
        cls, op = C[c["cls"]]
        try:
            import copy
            pos, kw = mutable(conv(copy.deepcopy(c["pos"]))), mutable(conv(copy.deepcopy(c["kw"])))
            before = repr((pos, kw))
            cmd = cls(op, *pos, **kw)
            why = c["check"](bytes(cmd.cdb), bytes(cmd.dataout))
            if why is None:
                # the same argument objects handed to the constructor a second (and third) time: equal inputs, equal bytes — and the
                # caller's dictionaries, lists and byte buffers are still what they were
                for rep in (2, 3):
                    again = cls(op, *pos, **kw)
                    if bytes(again.cdb) != bytes(cmd.cdb) or bytes(again.dataout) != bytes(cmd.dataout):
                        why = "construction no. %d from the same arguments gives a different command: data-out %s, the first time %s" % (
                            rep, bytes(again.dataout).hex()[:160], bytes(cmd.dataout).hex()[:160])
                        break
                if why is None and repr((pos, kw)) != before:
                    why = "the caller's arguments were changed by the constructor: %s, before %s" % (repr((pos, kw))[:200], before[:200])
            out.append(dict(i=i, kind=c["kind"], why=why, cdb=list(cmd.cdb), dataout=list(cmd.dataout)))
        except Exception as e:  # noqa
            out.append(dict(i=i, kind=c["kind"], why="cannot be constructed: %s: %s" % (type(e).__name__, str(e)[:100]), exn=type(e).__name__))
    print(json.dumps(out))


if __name__ == "__main__":
    main()
