"""Correspondence between Model/Converter.v (+ Base/Bytes.v) and pyscsi/utils/converter.py.

`python converter.py --impl` : implementation side (stdin: JSON cases, stdout: JSON results)
run(rep, tier, seed)         : generator + Coq side, used by the runner
"""
import json
import os
import random
import sys

HERE = os.path.dirname(os.path.abspath(__file__))
sys.path.insert(0, os.path.dirname(HERE))


# ---------------------------------------------------------------------------------------------
# implementation side


def impl_main():
    import signal
    from pyscsi.utils import converter as cv

    class Hang(Exception):
        pass

    def on_alarm(signum, frame):
        raise Hang()

    signal.signal(signal.SIGALRM, on_alarm)

    def to_layout(L):
        d = {}
        for k, e in L:
            if e[0] == "mask":
                d[k] = [e[1], e[2]]
            else:
                d[k] = ({1: "b", 2: "w", 4: "dw"}[e[1]], e[2], e[3])
        return d

    def to_val(v):
        return v[1] if v[0] == "i" else bytearray(v[1])

    def from_val(v):
        if isinstance(v, int):
            return ["i", v]
        return ["b", list(v)]

    cases = json.load(sys.stdin)
    out = []
    for c in cases:
        signal.setitimer(signal.ITIMER_REAL, 0.25)
        try:
            if c["op"] == "i2b":
                r = ["ok", list(cv.scsi_int_to_ba(c["v"], c["n"]))]
            elif c["op"] == "b2i":
                r = ["ok", cv.scsi_ba_to_int(bytearray(c["b"]))]
            elif c["op"] == "dec":
                res = {}
                cv.decode_bits(bytearray(c["data"]), to_layout(c["L"]), res)
                r = ["ok", [[k, from_val(v)] for k, v in res.items()]]
            elif c["op"] == "enc":
                buf = bytearray(c["r"])
                cv.encode_dict({k: to_val(v) for k, v in c["d"]}, to_layout(c["L"]), buf)
                r = ["ok", list(buf)]
            else:
                r = ["exn", "BadCase"]
        except Hang:
            r = ["exn", "Diverges"]
        except Exception as e:  # noqa
            r = ["exn", type(e).__name__]
        finally:
            signal.setitimer(signal.ITIMER_REAL, 0)
        out.append(r)
    print(json.dumps(out))


# ---------------------------------------------------------------------------------------------
# generator


def contiguous_mask(rng, maxbits=72):
    w = rng.choice([1, 1, 2, 3, 4, 5, 7, 8, 9, 12, 16, 24, 32, 36, 48, 64, rng.randint(1, maxbits)])
    z = rng.randint(0, 7)
    return ((1 << w) - 1) << z, w, z


def nbytes(m):
    n = 1
    while m > 0xFF:
        m >>= 8
        n += 1
    return n


def gen_layout(rng, n, valid=True):
    """non-overlapping fields inside n bytes (valid) or arbitrary (not valid)"""
    L, used = [], set()
    tries = 0
    while tries < 40 and len(L) < rng.randint(1, 8):
        tries += 1
        name = "f%d" % len(L)
        if rng.random() < 0.8:
            m, w, z = contiguous_mask(rng)
            k = nbytes(m)
            if valid:
                if k > n:
                    continue
                o = rng.randint(0, n - k)
                lo = 8 * (n - o - k) + z
                bits = set(range(lo, lo + w))
                if bits & used:
                    continue
                used |= bits
            else:
                o = rng.randint(0, n + 1)
                r = rng.random()
                if r < 0.06:
                    m = 0
                elif r < 0.3:
                    m = rng.getrandbits(rng.randint(1, 40)) or 5   # arbitrary, maybe non-contiguous
            L.append([name, ["mask", m, o]])
        else:
            u = rng.choice([1, 2, 4])
            ln = rng.randint(0, 4)
            if valid:
                if u * ln > n:
                    continue
                o = rng.randint(0, n - u * ln)
                bits = set(range(8 * (n - o - u * ln), 8 * (n - o)))
                if bits & used:
                    continue
                used |= bits
            else:
                o = rng.randint(0, n + 2)
            L.append([name, ["blob", u, o, ln]])
    return L


def field_value(rng, e, in_range=True):
    if e[0] == "mask":
        m = e[1]
        if m == 0:
            return ["i", rng.randint(0, 3)]
        z = (m & -m).bit_length() - 1
        w = (m >> z).bit_length()
        hi = (1 << w) - 1
        if in_range:
            v = rng.choice([0, 1, hi, 1 << rng.randint(0, w - 1), rng.randint(0, hi)])
        else:
            v = rng.choice([hi + 1, hi << 1, rng.getrandbits(w + 9)])
        return ["i", v]
    ln = e[1] * e[3]
    if not in_range:
        ln = max(0, ln + rng.choice([-1, 1, 2]))
    return ["b", [rng.randint(0, 255) for _ in range(ln)]]


def gen_cases(seed, count):
    rng = random.Random(seed)
    cases = []
    dist = dict(i2b=0, b2i=0, enc_valid=0, dec_valid=0, enc_malformed=0, dec_malformed=0, exhaustive_small=0)
    # boundary + random int<->bytes
    for n in range(0, 11):
        for v in (0, 1, 255, 256, (1 << (8 * n)) - 1 if n else 0, 1 << (8 * n), rng.getrandbits(8 * n + 5)):
            cases.append(dict(op="i2b", v=v, n=n)); dist["i2b"] += 1
    for _ in range(count // 20):
        n = rng.randint(0, 12)
        cases.append(dict(op="b2i", b=[rng.randint(0, 255) for _ in range(n)])); dist["b2i"] += 1
    # all contiguous masks of <= 16 bits at offset 0/1 with boundary values  (exhaustive over the masks)
    for w in range(1, 17):
        for z in range(0, 17 - w):
            m = ((1 << w) - 1) << z
            k = nbytes(m)
            for v in {0, 1, (1 << w) - 1, 1 << (w - 1)}:
                prior = [rng.randint(0, 255) for _ in range(k + 2)]
                cases.append(dict(op="enc", d=[["x", ["i", v]]], L=[["x", ["mask", m, 1]]], r=prior))
                cases.append(dict(op="dec", data=prior, L=[["x", ["mask", m, 1]]]))
                dist["exhaustive_small"] += 2
    # structured valid stream
    while len(cases) < count * 0.7:
        n = rng.randint(1, 24)
        L = gen_layout(rng, n, valid=True)
        keys = [k for k, _ in L]
        sub = [k for k in keys if rng.random() < 0.8]
        rng.shuffle(sub)
        d = [[k, field_value(rng, dict(L)[k])] for k in sub]
        if rng.random() < 0.2:
            d.insert(rng.randint(0, len(d)), ["not_in_layout", ["i", 7]])
        r0 = [0] * n if rng.random() < 0.6 else [rng.randint(0, 255) for _ in range(n)]
        cases.append(dict(op="enc", d=d, L=L, r=r0)); dist["enc_valid"] += 1
        data = [rng.randint(0, 255) for _ in range(n)]
        cases.append(dict(op="dec", data=data, L=L)); dist["dec_valid"] += 1
    # malformed stream
    while len(cases) < count:
        n = rng.randint(0, 12)
        L = gen_layout(rng, max(n, 1), valid=rng.random() < 0.3)
        kind = rng.random()
        d = []
        for k, e in L:
            if rng.random() < 0.8:
                v = field_value(rng, e, in_range=rng.random() < 0.5)
                if kind < 0.1 and rng.random() < 0.3:
                    v = ["b", [1, 2]] if v[0] == "i" else ["i", 3]   # wrong kind of value
                d.append([k, v])
        r0 = [rng.randint(0, 255) for _ in range(n)]
        has_zero_mask = any(e[0] == "mask" and e[1] == 0 for _, e in L)
        if has_zero_mask and dist.get("zero_mask", 0) >= 12:
            continue
        if has_zero_mask:
            dist["zero_mask"] = dist.get("zero_mask", 0) + 1
        cases.append(dict(op="enc", d=d, L=L, r=r0)); dist["enc_malformed"] += 1
        cases.append(dict(op="dec", data=r0[:rng.randint(0, n)] if rng.random() < 0.5 else r0, L=L))
        dist["dec_malformed"] += 1
    return cases, dist


# ---------------------------------------------------------------------------------------------
# Coq side


def coq_case(c, r):
    from vlib import cbytes, cstr, cexn, cnat

    def fdesc(e):
        return "Mask %d %d" % (e[1], e[2]) if e[0] == "mask" else "Blob %d %d %d" % (e[1], e[2], e[3])

    def layout(L):
        return "[" + "; ".join("(%s, %s)" % (cstr(k), fdesc(e)) for k, e in L) + "]"

    def val(v):
        return "VI %d" % v[1] if v[0] == "i" else "VB %s" % cbytes(v[1])

    def kvs(d):
        return "[" + "; ".join("(%s, %s)" % (cstr(k), val(v)) for k, v in d) + "]"

    if c["op"] == "i2b":
        return "CI2B %d %s %s" % (c["v"], cnat(c["n"]), cbytes(r[1]))
    if c["op"] == "b2i":
        return "CB2I %s %d" % (cbytes(c["b"]), r[1])
    if c["op"] == "dec":
        exp = "(Ok %s)" % kvs(r[1]) if r[0] == "ok" else "(Raise %s)" % cexn(r[1])
        return "CDec %s %s %s" % (cbytes(c["data"]), layout(c["L"]), exp)
    exp = "(Ok %s)" % cbytes(r[1]) if r[0] == "ok" else "(Raise %s)" % cexn(r[1])
    return "CEnc %s %s %s %s" % (kvs(c["d"]), layout(c["L"]), cbytes(c["r"]), exp)


def run(rep, tier, seed):
    import vlib
    count = 6000 if tier == "quick" else 120000
    cases, dist = gen_cases(seed, count)
    # minimised corpus of earlier disagreements runs first
    corpus_p = os.path.join(HERE, "corpus", "converter.json")
    corpus = json.load(open(corpus_p)) if os.path.exists(corpus_p) else []
    cases = corpus + cases
    results = []
    CH = 4000
    for i in range(0, len(cases), CH):
        results += vlib.run_impl("corr/converter.py", cases[i:i + CH], args=["--impl"], timeout=900)
    shards = []
    SH = 500
    for s in range(0, len(cases), SH):
        body = ";\n  ".join(coq_case(c, r) for c, r in zip(cases[s:s + SH], results[s:s + SH]))
        text = ("From Coq Require Import String.\nFrom PS Require Import Base.Bytes Base.Result Model.Converter Model.CorrUtil.\n"
                "Open Scope string_scope. Open Scope N_scope.\n"
                "Definition cases : list ccase := [\n  %s].\nEval vm_compute in (mismatches check_ccase cases).\n" % body)
        shards.append(("cases_converter_%d" % (s // SH), text))
    outs = vlib.coqc_many(shards, timeout=600)
    bad = []
    for idx, (name, _) in enumerate(shards):
        rc, out = outs[name]
        mm = vlib.parse_eval_list(out)
        if rc != 0 or mm is None:
            rep.oblig("correspondence:converter shard %s compiles" % name, False, out[-600:])
            bad.append(dict(case=None, shard=name, error=out[-600:]))
            continue
        for j in mm:
            bad.append(dict(case=cases[idx * SH + j], impl=results[idx * SH + j]))
    distinct = len({json.dumps(c, sort_keys=True) for c in cases})
    dist["exceptions_impl"] = {}
    for r in results:
        if r[0] == "exn":
            dist["exceptions_impl"][r[1]] = dist["exceptions_impl"].get(r[1], 0) + 1
    rep.suite("converter (scsi_int_to_ba, scsi_ba_to_int, decode_bits, encode_dict)", len(cases), len(bad),
              distinct=distinct, samples=[dict(case=cases[len(cases) // 2], impl=results[len(cases) // 2])],
              distribution=dist)
    return bad


if __name__ == "__main__":
    if "--impl" in sys.argv:
        impl_main()
