"""Implementation side of the stack correspondence (C12): the real SCSI facade on a real SCSIDevice / ISCSIDevice
whose binding (tools/stubs/sgio.py, iscsi.py) hands every command to the standards-written target of
tools/sim_target.py. Input: list of {bs, nblk, calls:[{m, args, kw}]}; output per history and transport the
result of every call (data-in bytes or the exception class) and the final medium."""
import json
import os
import sys
import tempfile

sys.path.insert(0, os.path.dirname(os.path.dirname(os.path.abspath(__file__))))
import sgio      # noqa: E402  (stub)
import iscsi     # noqa: E402  (stub)
from sim_target import Target  # noqa: E402
from pyscsi.pyscsi.scsi import SCSI  # noqa: E402
import pyscsi.pyscsi.scsi_device as scsi_device  # noqa: E402
import pyscsi.pyiscsi.iscsi_device as iscsi_device  # noqa: E402


def val(v):
    if isinstance(v, dict) and "b" in v:
        return bytearray(v["b"])
    return v


def excname(e):
    n = type(e).__name__
    if "CheckCondition" in n:
        return "CheckCondition"
    return n


def run(hist, transport, path):
    tgt = Target(hist["bs"], hist["nblk"], bytes(hist.get("ident") or bytes(36)))
    sgio.DEVICE, iscsi.DEVICE = None, None
    if transport == "sgio":
        sgio.DEVICE = tgt.sgio_device
        dev = scsi_device.SCSIDevice(path, True)
    else:
        iscsi.DEVICE = tgt.iscsi_device
        dev = iscsi_device.ISCSIDevice("iscsi://127.0.0.1/iqn.verif:t/0")
    res = []
    held = []          # (index, the data-in buffer object of a READ whose command object was dropped): looked at again after the history
    try:
        facade = SCSI(dev, hist.get("facade_bs", hist["bs"]))
        attach = [list(c) for c in tgt.log]
        for c in hist["calls"]:
            n0 = len(tgt.log)
            if c["m"] == "_ua":            # not a call: the target establishes unit attention conditions (power on, parameters changed, ...)
                ua = []
                for k in range(c["n"]):
                    sb = bytearray(18)
                    # unit attentions, and a DEFERRED error (response code 71h) with sense key RECOVERED ERROR: SPC-4 4.5.7 — the command it
                    # is reported on was terminated and has NOT been performed, whatever the sense key says
                    kind = (k + c.get("kind", 0)) % 4
                    if kind == 3:
                        sb[0], sb[2], sb[7], sb[12], sb[13] = 0x71, 1, 10, 0x0C, 0x01
                    else:
                        sb[0], sb[2], sb[7], sb[12], sb[13] = 0x70, 6, 10, [0x29, 0x2A, 0x3F][kind], [0x00, 0x01, 0x0E][kind]
                    ua.append(bytes(sb))
                tgt.ua += ua
                res.append(dict(ua=c["n"], cdbs=[]))
                continue
            try:
                cmd = getattr(facade, c["m"])(*[val(v) for v in c.get("pos", [])], **{k: val(v) for k, v in c.get("kw", {}).items()})
                r = dict(ok=list(cmd.datain), result={k: v for k, v in (cmd.result or {}).items() if isinstance(v, int)} if c["m"].startswith("readcap") else None)
                if c["m"].startswith("read1"):
                    held.append((len(res), cmd.datain))     # keep only the buffer (examples/read16.py: s.read16(..).datain), drop the command
                cmd = None
            except Exception as e:  # noqa
                r = dict(exn=excname(e))
            r["cdbs"] = [list(x) for x in tgt.log[n0:]]
            r["ua_terminated"] = [j - n0 for j in tgt.ua_log if j >= n0]
            res.append(r)
        import gc
        gc.collect()
        for i, buf in held:
            res[i]["late"] = list(buf)
    finally:
        try:
            dev.close()
        except Exception:  # noqa
            pass
    return dict(attach=attach, res=res, medium={str(k): list(v) for k, v in sorted(tgt.blocks.items())})


def main():
    scsi_device._has_sgio = True
    iscsi_device._has_iscsi = True
    fd, path = tempfile.mkstemp(prefix="sg", dir="/dev/shm")
    os.close(fd)
    out = []
    try:
        for hist in json.load(sys.stdin):
            out.append({tr: run(hist, tr, path) for tr in ("sgio", "iscsi")})
    finally:
        os.unlink(path)
    print(json.dumps(out))


if __name__ == "__main__":
    main()
