"""Implementation-side oracle of C11: every response / sense decoder is run under a source-line budget that is
linear in the buffer length (1500 lines per byte + 5000: one iteration may decode a table of some twenty fields) on a malformed stream in which every embedded length /
count field takes the values 0, 1, maximal and inconsistent ones, on random buffers and on truncated buffers.
The line count is the work measure; exceeding the budget = does not terminate within linear work."""
import json
import random
import signal
import sys


class Budget(Exception):
    pass


def run_budget(fn, budget):
    count = [0]

    def tracer(frame, event, arg):
        if event == "line":
            count[0] += 1
            if count[0] > budget:
                raise Budget()
        return tracer

    def on_alarm(s, f):
        raise Budget()
    signal.signal(signal.SIGALRM, on_alarm)
    signal.setitimer(signal.ITIMER_REAL, 20.0)
    sys.settrace(tracer)
    try:
        fn()
        return ["ok", count[0]]
    except Budget:
        return ["budget", count[0]]
    except MemoryError:
        return ["budget", count[0]]
    except Exception as e:  # noqa
        return ["exn:" + type(e).__name__, count[0]]
    finally:
        sys.settrace(None)
        signal.setitimer(signal.ITIMER_REAL, 0)


def decoders():
    from pyscsi.pyscsi.scsi_cdb_getlbastatus import GetLBAStatus
    from pyscsi.pyscsi.scsi_cdb_inquiry import Inquiry
    from pyscsi.pyscsi.scsi_cdb_modesense6 import ModeSense6
    from pyscsi.pyscsi.scsi_cdb_modesense10 import ModeSense10
    from pyscsi.pyscsi.scsi_cdb_persistentreservein import (PersistentReserveInReadKeys, PersistentReserveInReadReservation,
                                                              PersistentReserveInReportCapabilities, PersistentReserveInReadFullStatus)
    from pyscsi.pyscsi.scsi_cdb_readcapacity10 import ReadCapacity10
    from pyscsi.pyscsi.scsi_cdb_readcapacity16 import ReadCapacity16
    from pyscsi.pyscsi.scsi_cdb_readcd import ReadCd
    from pyscsi.pyscsi.scsi_cdb_readdiscinformation import ReadDiscInformation
    from pyscsi.pyscsi.scsi_cdb_readelementstatus import ReadElementStatus
    from pyscsi.pyscsi.scsi_cdb_report_luns import ReportLuns
    from pyscsi.pyscsi.scsi_cdb_report_priority import ReportPriority
    from pyscsi.pyscsi.scsi_cdb_report_target_port_groups import ReportTargetPortGroups
    from pyscsi.pyscsi.scsi_sense import SCSICheckCondition
    d = {
        "getlbastatus": lambda b: GetLBAStatus.unmarshall_datain(b),
        "inquiry_std": lambda b: Inquiry.unmarshall_datain(b, evpd=0),
        "inquiry_vpd": lambda b: Inquiry.unmarshall_datain(b, evpd=1),
        "modesense6": lambda b: ModeSense6.unmarshall_datain(b),
        "modesense10": lambda b: ModeSense10.unmarshall_datain(b),
        "prin_keys": lambda b: PersistentReserveInReadKeys.unmarshall_datain(b),
        "prin_resv": lambda b: PersistentReserveInReadReservation.unmarshall_datain(b),
        "prin_caps": lambda b: PersistentReserveInReportCapabilities.unmarshall_datain(b),
        "prin_full": lambda b: PersistentReserveInReadFullStatus.unmarshall_datain(b),
        "readcapacity10": lambda b: ReadCapacity10.unmarshall_datain(b),
        "readcapacity16": lambda b: ReadCapacity16.unmarshall_datain(b),
        "readcd": lambda b: ReadCd.unmarshall_datain(b, lba=0, tl=max(1, len(b) // 3072), est=0, mcsb=0x1E, c2ei=1, scsb=2),
        # the same decoder the way a caller holding only the buffer calls it: without a transfer length, with rarely used selections
        "readcd_bare": lambda b: ReadCd.unmarshall_datain(b),
        "readcd_userdata": lambda b: ReadCd.unmarshall_datain(b, mcsb=0x02),
        "readcd_rawsub": lambda b: ReadCd.unmarshall_datain(b, scsb=1),
        "readcd_m2": lambda b: ReadCd.unmarshall_datain(b, lba=3, est=2, mcsb=0x17, c2ei=2, scsb=4),
        "readdiscinfo": lambda b: ReadDiscInformation.unmarshall_datain(b),
        "readelementstatus": lambda b: ReadElementStatus.unmarshall_datain(b),
        "reportluns": lambda b: ReportLuns.unmarshall_datain(b),
        "reportpriority": lambda b: ReportPriority.unmarshall_datain(b),
        "rtpg": lambda b: ReportTargetPortGroups.unmarshall_datain(b),
        "sense": lambda b: str(SCSICheckCondition(b)) if len(b) else None,
    }
    return d


def timed_main():
    """no tracer: CPU time per call (work done inside C code — a regular expression, a huge allocation — is invisible to the line count)"""
    import time
    inp = json.load(sys.stdin)
    decs = decoders()
    out = []
    for name, buf in inp:
        b = bytearray(buf)
        t0 = time.process_time()
        try:
            decs[name](b)
            r = "ok"
        except MemoryError:
            r = "budget"
        except Exception as e:  # noqa
            r = "exn:" + type(e).__name__
        out.append([r, round(time.process_time() - t0, 4)])
    print(json.dumps(out))


def main():
    if "--timed" in sys.argv:
        return timed_main()
    inp = json.load(sys.stdin)
    decs = decoders()
    out = []
    for name, buf in inp:
        b = bytearray(buf)
        budget = 1500 * len(b) + 5000
        r = run_budget(lambda: decs[name](b), budget)
        out.append(r + [budget])
    print(json.dumps(out))


if __name__ == "__main__":
    main()
