"""Implementation-side probes for the refusals of C17 that go through the facade or the parameter-list
marshallers: each scenario must raise its specific error, send nothing, and return no command."""
import json
import sys

from pyscsi.pyscsi import scsi_enum_command as ec
from pyscsi.pyscsi.scsi import SCSI
from pyscsi.pyscsi.scsi_opcode import OpCode
from pyscsi.utils.enum import Enum
from recdev import RecordingDevice


def facade(opcodes, blocksize=512):
    dev = RecordingDevice(opcodes)
    s = SCSI(None, blocksize)
    s.device = dev
    return s, dev


def attempt(name, expect, fn, dev):
    try:
        r = fn()
        return dict(name=name, expect=expect, outcome="returned", returned=type(r).__name__, sent=len(dev.log))
    except Exception as e:  # noqa
        return dict(name=name, expect=expect, outcome=type(e).__name__, sent=len(dev.log))


def main():
    out = []
    sets = dict(spc=ec.spc, sbc=ec.sbc, ssc=ec.ssc, smc=ec.smc, mmc=ec.mmc)
    # 1. PERSISTENT RESERVE IN with an unknown service action
    for sname in ("spc", "sbc", "ssc", "smc"):
        # every value that is not one of the four service actions — also the ones below zero (a table indexed from the end would
        # accept them) and the ones that are not numbers at all
        for sa in list(range(4, 40)) + [0x1F, 0x20, 255, 256, 1000, 2 ** 32] + list(range(-40, 0)) + [-255, -256, -2 ** 32, None, "READ_KEYS", "0", ()]:
            s, dev = facade(sets[sname])
            out.append(attempt("prin %s sa=%r" % (sname, sa), "ValueError", lambda: s.persistentreservein(sa), dev))
    # 2. block transfers without a block size
    data = bytearray(512)
    for sname in ("sbc",):
        for mname, call in (("read10", lambda s: s.read10(5, 2)), ("read12", lambda s: s.read12(5, 2)),
                            ("read16", lambda s: s.read16(5, 2)), ("write10", lambda s: s.write10(5, 1, data)),
                            ("write12", lambda s: s.write12(5, 1, data)), ("write16", lambda s: s.write16(5, 1, data)),
                            ("writesame10", lambda s: s.writesame10(5, 1, data)),
                            ("writesame16", lambda s: s.writesame16(5, 1, data)),
                            ("writesame16 ndob=0", lambda s: s.writesame16(5, 1, data, ndob=0, unmap=1)),
                            ("ata16 byt_blok t_type", lambda s: s.atapassthrough16(4, 2, 1, 1, 1, 0, 0, 1, 0, 0xEC)),
                            ("ata12 byt_blok t_type", lambda s: s.atapassthrough12(4, 2, 1, 1, 1, 0, 0, 1, 0, 0xEC))):
            s, dev = facade(sets[sname], blocksize=0)
            out.append(attempt("blocksize0 %s" % mname, "MissingBlocksizeException", (lambda c=call, s=s: c(s)), dev))
    # 2b. the same after the block size of a facade object was cleared again (histories of stores: the last one counts)
    for hist in ([0], [512, 0], [512, 4096, 0], [0, 512, 0], [512, "reattach", 0], [512, 0, "reattach"]):
        for mname, call in (("read10", lambda s: s.read10(5, 2)), ("read16", lambda s: s.read16(5, 2)),
                            ("write10", lambda s: s.write10(5, 1, data)), ("writesame16", lambda s: s.writesame16(5, 1, data))):
            s, dev = facade(sets["sbc"], blocksize=512)
            for h in hist:
                if h == "reattach":
                    dev = RecordingDevice(sets["sbc"])
                    s.device = dev
                else:
                    s.blocksize = h
            out.append(attempt("blocksize history %s then %s" % (hist, mname), "MissingBlocksizeException", (lambda c=call, s=s: c(s)), dev))
    # 3. operation codes without a fixed CDB length, through the facade
    for v in (0x60, 0x7E, 0x7F, 0xC0, 0xE7, 0xFF):
        tbl = Enum({"READ_10": OpCode("READ_10", v, {}), "INQUIRY": OpCode("INQUIRY", v, {}),
                    "TEST_UNIT_READY": OpCode("TEST_UNIT_READY", v, {})})
        for mname, call in (("read10", lambda s: s.read10(1, 1)), ("inquiry", lambda s: s.inquiry()),
                            ("testunitready", lambda s: s.testunitready())):
            s, dev = facade(tbl)
            out.append(attempt("opcode %#x %s" % (v, mname), "OpcodeException", (lambda c=call, s=s: c(s)), dev))
    # 4. EXTENDED COPY descriptors with unknown keys / codes / lu_id_type
    good_t = {"descriptor_type_code": 0xE4, "peripheral_device_type": 0x00}
    odd_keys = [("empty-string key", ""), ("blank key", " "), ("key 0", 0), ("key None", None), ("upper-case known key", "PERIPHERAL_DEVICE_TYPE")]
    bad_targets = [("unknown key", [dict(good_t, bogus_key=1)])] + [("unknown key: %s" % lab, [dict(list(good_t.items()) + [(k, 1)])]) for lab, k in odd_keys] + [
                   ("two unknown keys one of them empty", [dict(list(good_t.items()) + [("", 1), ("bogus", 2)])]), ("unknown descriptor type code", [dict(good_t, descriptor_type_code=0x99)]),
                   ("unknown descriptor type name", [dict(good_t, descriptor_type_code="no such descriptor")]),
                   ("unknown device type", [dict(good_t, peripheral_device_type=0x77)]),
                   ("lu_id_type 1", [dict(good_t, lu_id_type=1)]), ("lu_id_type 3", [dict(good_t, lu_id_type=3)])]
    bad_segments = [("segment unknown key", [{"descriptor_type_code": 0x02, "bogus": 1}])] + [
                    ("segment unknown key: %s" % lab, [{"descriptor_type_code": 0x02, k: 1}]) for lab, k in odd_keys] + [
                    ("segment unknown type code", [{"descriptor_type_code": 0x55}]),
                    ("segment unknown type name", [{"descriptor_type_code": "teleport"}])]
    for which, meth in (("xcopy4", "extendedcopy4"), ("xcopy5", "extendedcopy5")):
        tkey = "target_descriptor_list" if which == "xcopy4" else "cscd_descriptor_list"
        for label, tl in bad_targets:
            s, dev = facade(sets["spc"])
            out.append(attempt("%s %s" % (which, label), "ValueError",
                               (lambda s=s, tl=tl: getattr(s, meth)(**{tkey: tl})), dev))
        for label, sl in bad_segments:
            s, dev = facade(sets["spc"])
            out.append(attempt("%s %s" % (which, label), "ValueError",
                               (lambda s=s, sl=sl: getattr(s, meth)(segment_descriptor_list=sl)), dev))
    # 4b. a key that belongs to ANOTHER segment descriptor type (valid in a sibling layout, unknown in this one) is an unknown key too
    import importlib
    for which, meth, modname in (("xcopy4", "extendedcopy4", "scsi_cdb_extended_copy_spc4"), ("xcopy5", "extendedcopy5", "scsi_cdb_extended_copy_spc5")):
        X = importlib.import_module("pyscsi.pyscsi." + modname).ExtendedCopy
        lay = {0x00: X._segment_descriptor_bits_block_to_stream, 0x0B: X._segment_descriptor_bits_block_to_stream,
               0x01: X._segment_descriptor_bits_stream_to_block, 0x0C: X._segment_descriptor_bits_stream_to_block,
               0x02: X._segment_descriptor_bits_block_to_block, 0x0D: X._segment_descriptor_bits_block_to_block}
        allkeys = sorted(set().union(*[set(v) for v in lay.values()]))
        for code, table in sorted(lay.items()):
            for k in allkeys:
                if k in table:
                    continue
                s, dev = facade(sets["spc"])
                sl = [{"descriptor_type_code": code, k: 1}]
                out.append(attempt("%s segment type %#04x with key %s of another segment type" % (which, code, k), "ValueError",
                                   (lambda s=s, sl=sl: getattr(s, meth)(segment_descriptor_list=sl)), dev))
    # 4c. a name (or description) that one of the three code tables knows, given for a field backed by ANOTHER table, is an unknown code there —
    # also after that very name was resolved, validly, against its own table earlier in the process
    for which, meth, modname in (("xcopy4", "extendedcopy4", "scsi_cdb_extended_copy_spc4"), ("xcopy5", "extendedcopy5", "scsi_cdb_extended_copy_spc5")):
        X = importlib.import_module("pyscsi.pyscsi." + modname).ExtendedCopy
        tkey = "target_descriptor_list" if which == "xcopy4" else "cscd_descriptor_list"
        ttab = getattr(X, "_target_descriptor_type_codes", None) or getattr(X, "_cscd_descriptor_type_codes", {})
        tables = dict(target=ttab, device=getattr(X, "_device_type_codes", {}), segment=getattr(X, "_segment_descriptor_type_codes", {}))

        def names(tab):
            out = set()
            for v in tab.values():
                for f in ("name", "description"):
                    if isinstance(v, dict) and isinstance(v.get(f), str):
                        out.add(v[f])
            return out
        nm = {k: names(v) for k, v in tables.items()}

        def use(field, name):
            """a request that gives `name` for the field backed by table `field`"""
            if field == "segment":
                return dict(segment_descriptor_list=[{"descriptor_type_code": name}])
            t = dict(good_t)
            t["descriptor_type_code" if field == "target" else "peripheral_device_type"] = name
            return {tkey: [t]}
        for own in ("segment", "device", "target"):
            for other in ("segment", "device", "target"):
                if own == other:
                    continue
                for name in sorted(nm[own] - nm[other])[:6]:
                    s, dev = facade(sets["spc"])
                    try:
                        getattr(s, meth)(**use(own, name))          # a valid use first (may still be refused for other reasons)
                    except Exception:  # noqa
                        pass
                    s, dev = facade(sets["spc"])
                    out.append(attempt("%s: the %s name %r given as a %s code (after a valid use of that name)" % (which, own, name, other), "ValueError",
                                       (lambda s=s, kw=use(other, name): getattr(s, meth)(**kw)), dev))
    # 5. inconsistent iSCSI TransportIDs (REGISTER AND MOVE and REGISTER with SPEC_I_PT)
    ISCSI = 5
    bad_tids = [("session id without format", {"protocol_id": ISCSI, "iscsi_name": "iqn.x", "iscsi_initiator_session_id": "1234"}),
                ("session id with format 0", {"protocol_id": ISCSI, "tpid_format": 0, "iscsi_name": "iqn.x", "iscsi_initiator_session_id": "1234"}),
                ("format without session id", {"protocol_id": ISCSI, "tpid_format": 1, "iscsi_name": "iqn.x"}),
                ("format with empty session id", {"protocol_id": ISCSI, "tpid_format": 1, "iscsi_name": "iqn.x", "iscsi_initiator_session_id": ""})]
    for label, tid in bad_tids:
        s, dev = facade(sets["spc"])
        out.append(attempt("tid RAM %s" % label, "ValueError",
                           (lambda s=s, tid=tid: s.persistentreserveout(7, transport_id=tid, reservation_key=1)), dev))
        s, dev = facade(sets["spc"])
        out.append(attempt("tid REGISTER %s" % label, "ValueError",
                           (lambda s=s, tid=tid: s.persistentreserveout(0, spec_i_pt=1, transport_ids=[tid])), dev))
    print(json.dumps(out))


if __name__ == "__main__":
    json.load(sys.stdin)
    main()
