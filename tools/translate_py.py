"""translate_py.py — third part of the translator: the BODIES of the response decoders / builders of the command modules
(every function of every class in pyscsi/pyscsi/scsi_cdb_*.py other than __init__, and the module-level helpers there)
as programs of the small Python of coq/Model/Py.v  ->  coq/Gen/PyFuncs.v.

Syntax comes from `ast`.  Names that are not local variables (cls._x_bits, cls.ELEMENT_TYPE.STORAGE, PROTOCOL_ID.ISCSI,
cls.MODESENSE6.page_zero_bits, cls.unmarshall_designator, _pad4_len ...) are resolved against the IMPORTED package, i.e. to
the object the running code would get: an int / str constant, a layout table (named as in Gen/Tables.v) or another
translated function.  Fail-closed: whatever is outside the recognised shapes becomes EUnknown / SUnknown "<source>", which
evaluates to the exception `unmodelled:<source>` — never silently dropped; a function in which a mutable object is stored
somewhere and changed afterwards (where Python's reference semantics and the model's value semantics differ) is
translated to a single SUnknown "aliasing: ..."."""
import ast
import importlib
import os
import sys

from translate import HEADER, coq_str, src_of, REPO

MUTATORS = {"update", "append", "extend", "pop", "clear", "setdefault", "insert", "remove", "popitem", "sort", "reverse"}
BINOPS = {ast.Add: "BAdd", ast.Sub: "BSub", ast.Mult: "BMul", ast.FloorDiv: "BFloorDiv", ast.Mod: "BMod", ast.BitAnd: "BAnd",
          ast.BitOr: "BOr", ast.BitXor: "BXor", ast.LShift: "BShl", ast.RShift: "BShr"}
CMPOPS = {ast.Eq: "CEq", ast.NotEq: "CNe", ast.Lt: "CLt", ast.LtE: "CLe", ast.Gt: "CGt", ast.GtE: "CGe"}
EXNS = {"KeyError", "IndexError", "ValueError", "TypeError", "AttributeError", "NotImplementedError"}


def dotted(node):
    parts = []
    while isinstance(node, ast.Attribute):
        parts.append(node.attr)
        node = node.value
    if isinstance(node, ast.Name):
        parts.append(node.id)
        return ".".join(reversed(parts))
    return None


def root_name(node):
    while isinstance(node, (ast.Attribute, ast.Subscript, ast.Call)):
        node = node.value if not isinstance(node, ast.Call) else node.func
    return node.id if isinstance(node, ast.Name) else None


class World(object):
    """the imported package: constants, tables and functions the names in a function body refer to"""

    def __init__(self):
        self.ok, self.err = True, ""
        self.table_ids, self.func_names, self.modules = {}, {}, {}
        if REPO not in sys.path:
            sys.path.insert(0, REPO)
        try:
            import pyscsi.pyscsi  # noqa
            import pkgutil
            import pyscsi
            for m in pkgutil.walk_packages(pyscsi.__path__, "pyscsi."):
                try:
                    self.modules[m.name.split(".")[-1]] = importlib.import_module(m.name)
                except Exception:  # noqa
                    pass
        except Exception as e:  # noqa
            self.ok, self.err = False, "%s: %s" % (type(e).__name__, e)
            return
        import inspect
        for stem, mod in sorted(self.modules.items()):
            for name, val in vars(mod).items():
                if isinstance(val, dict) and not name.startswith("__"):
                    self.table_ids.setdefault(id(val), "%s.%s" % (stem, name))
                if inspect.isclass(val) and val.__module__ == mod.__name__:
                    for an, av in vars(val).items():
                        if isinstance(av, dict):
                            self.table_ids.setdefault(id(av), "%s.%s.%s" % (stem, name, an))

    def resolve(self, node, stem, clsname):
        """-> ("const", v) | ("table", qual) | ("func", qual) | None"""
        if not self.ok or stem not in self.modules:
            return None
        mod = self.modules[stem]
        loc = {}
        if clsname:
            c = getattr(mod, clsname, None)
            if c is None:
                return None
            loc["cls"] = c
        try:
            v = eval(compile(ast.Expression(body=node), "<resolve>", "eval"), dict(vars(mod)), loc)
        except Exception:  # noqa
            return None
        if v is None or isinstance(v, (bool, int, str, bytes)):
            return ("const", v)
        if isinstance(v, bytearray):
            return ("const", bytes(v))
        if isinstance(v, dict):
            q = self.table_ids.get(id(v))
            return ("table", q) if q else None
        f = getattr(v, "__func__", v)
        if callable(f) and hasattr(f, "__qualname__") and hasattr(f, "__module__") and (f.__module__ or "").startswith("pyscsi."):
            return ("func", "%s.%s" % (f.__module__.split(".")[-1], f.__qualname__))
        return None


def cpv(v):
    if v is None:
        return "PNone"
    if isinstance(v, bool):
        return "PBool %s" % ("true" if v else "false")
    if isinstance(v, int):
        return "PInt %d" % v if v >= 0 else "PInt (%d)" % v
    if isinstance(v, str):
        if all(32 <= ord(c) < 127 for c in v):
            return "PStr %s" % coq_str(v)
        return None
    if isinstance(v, (bytes, bytearray)):
        return "PBytes [%s]" % "; ".join(str(b) for b in v)
    return None


class Fn(object):
    def __init__(self, world, mod, clsname, fn, known_funcs):
        self.w, self.mod, self.cls, self.fn, self.known = world, mod, clsname, fn, known_funcs
        self.unknown = []
        self.prim_codec = True      # scsi_ba_to_int / scsi_int_to_ba are primitives of the model (False inside converter.py itself)
        self.outparam = None        # a parameter the function changes in place INSTEAD of returning a value (converter.py): the model returns it
        self.locals = {a.arg for a in fn.args.args + fn.args.kwonlyargs}
        if fn.args.vararg:
            self.locals.add(fn.args.vararg.arg)
        if fn.args.kwarg:
            self.locals.add(fn.args.kwarg.arg)
        for n in ast.walk(fn):
            if isinstance(n, ast.Name) and isinstance(n.ctx, (ast.Store, ast.Del)):
                self.locals.add(n.id)
        self.locals.discard("cls")

    def src(self, node):
        return " ".join(src_of(node, self.mod.text).split())[:100]

    def eunk(self, node):
        s = self.src(node)
        self.unknown.append(s)
        return "(EUnknown %s)" % coq_str(s)

    def sunk(self, node):
        s = self.src(node)
        self.unknown.append(s)
        return "SUnknown %s" % coq_str(s)

    # ---------------------------------------------------------------- expressions
    def opt(self, node):
        return "None" if node is None else "(Some %s)" % self.ex(node)

    def is_local(self, node):
        r = root_name(node)
        return r is not None and r in self.locals

    def table(self, node):
        if self.is_local(node):
            return None
        r = self.w.resolve(node, self.mod.stem, self.cls)
        return r[1] if r and r[0] == "table" else None

    def ex(self, e):
        if isinstance(e, ast.Constant):
            c = cpv(e.value)
            return "(EConst (%s))" % c if c else self.eunk(e)
        if isinstance(e, ast.Name):
            if e.id in self.locals:
                return "(EVar %s)" % coq_str(e.id)
            return self.resolved(e)
        if isinstance(e, ast.Attribute):
            if self.is_local(e):
                # an attribute of a local object (opcode.serviceaction.REGISTER): objects are dictionaries of their attributes in the model
                if isinstance(e.ctx, ast.Load) and not e.attr.startswith("__"):
                    return "(EAttr %s %s)" % (self.ex(e.value), coq_str(e.attr))
                return self.eunk(e)
            return self.resolved(e)
        if isinstance(e, ast.List):
            return "(EList [%s])" % "; ".join(self.ex(x) for x in e.elts)
        if isinstance(e, ast.Dict):
            if all(isinstance(k, ast.Constant) and isinstance(k.value, str) for k in e.keys):
                return "(EDict [%s])" % "; ".join("(%s, %s)" % (coq_str(k.value), self.ex(v)) for k, v in zip(e.keys, e.values))
            return self.eunk(e)
        if isinstance(e, ast.Subscript):
            if isinstance(e.slice, ast.Slice):
                if e.slice.step is not None:
                    return self.eunk(e)
                return "(ESlice %s %s %s)" % (self.ex(e.value), self.opt(e.slice.lower), self.opt(e.slice.upper))
            return "(EIndex %s %s)" % (self.ex(e.value), self.ex(e.slice))
        if isinstance(e, ast.BinOp):
            if isinstance(e.op, ast.Mod) and isinstance(e.left, ast.Constant) and isinstance(e.left.value, str):
                s = e.left.value
                if s.count("%s") == 1 and s.count("%") == 1 and not isinstance(e.right, ast.Tuple):
                    pre, post = s.split("%s")
                    return "(EFmt %s %s %s)" % (coq_str(pre), self.ex(e.right), coq_str(post))
                return self.eunk(e)
            op = BINOPS.get(type(e.op))
            return "(EBin %s %s %s)" % (op, self.ex(e.left), self.ex(e.right)) if op else self.eunk(e)
        if isinstance(e, ast.UnaryOp):
            if isinstance(e.op, ast.Not):
                return "(ENot %s)" % self.ex(e.operand)
            if isinstance(e.op, ast.USub) and isinstance(e.operand, ast.Constant) and isinstance(e.operand.value, int):
                return "(EConst (PInt (%d)))" % (-e.operand.value)
            return self.eunk(e)
        if isinstance(e, ast.BoolOp):
            op = "EAnd" if isinstance(e.op, ast.And) else "EOr"
            acc = self.ex(e.values[-1])
            for v in reversed(e.values[:-1]):
                acc = "(%s %s %s)" % (op, self.ex(v), acc)
            return acc
        if isinstance(e, ast.Compare):
            if len(e.ops) != 1:
                return self.eunk(e)
            o, a, b = e.ops[0], e.left, e.comparators[0]
            if isinstance(o, (ast.In, ast.NotIn)):
                return "(EIn %s %s %s)" % ("true" if isinstance(o, ast.NotIn) else "false", self.ex(a), self.ex(b))
            if isinstance(o, (ast.Is, ast.IsNot)) and isinstance(b, ast.Constant) and b.value is None:
                return "(ECmp %s %s (EConst PNone))" % ("CNe" if isinstance(o, ast.IsNot) else "CEq", self.ex(a))
            op = CMPOPS.get(type(o))
            return "(ECmp %s %s %s)" % (op, self.ex(a), self.ex(b)) if op else self.eunk(e)
        if isinstance(e, ast.JoinedStr):
            parts = []
            for v in e.values:
                if isinstance(v, ast.Constant) and isinstance(v.value, str):
                    parts.append("(EConst (%s))" % cpv(v.value) if cpv(v.value) else self.eunk(v))
                elif isinstance(v, ast.FormattedValue) and v.conversion == -1 and v.format_spec is None:
                    parts.append("(EFmt \"\" %s \"\")" % self.ex(v.value))
                else:
                    return self.eunk(e)
            if not parts:
                return "(EConst (PStr \"\"))"
            acc = parts[0]
            for p in parts[1:]:
                acc = "(EBin BAdd %s %s)" % (acc, p)
            return acc
        if isinstance(e, ast.DictComp):
            if len(e.generators) == 1:
                g = e.generators[0]
                if not g.ifs and not g.is_async and isinstance(g.target, ast.Name):
                    return "(EDictComp %s %s %s %s)" % (self.ex(e.key), self.ex(e.value), coq_str(g.target.id), self.ex(g.iter))
            return self.eunk(e)
        if isinstance(e, (ast.GeneratorExp, ast.ListComp)):
            if len(e.generators) == 1:
                g = e.generators[0]
                if not g.ifs and not g.is_async and isinstance(g.target, ast.Name):
                    return "(EComp %s %s %s)" % (self.ex(e.elt), coq_str(g.target.id), self.ex(g.iter))
            return self.eunk(e)
        if isinstance(e, ast.Call):
            return self.call(e)
        return self.eunk(e)

    def resolved(self, e):
        r = self.w.resolve(e, self.mod.stem, self.cls)
        if r and r[0] == "const":
            c = cpv(r[1])
            if c:
                return "(EConst (%s))" % c
        return self.eunk(e)

    def call(self, e):
        if e.keywords and any(k.arg is None for k in e.keywords):
            return self.eunk(e)
        f = e.func
        d = dotted(f) or ""
        nargs, nkw = len(e.args), len(e.keywords)
        base = d.split(".")[-1]
        if not self.is_local(f) or isinstance(f, ast.Name) and f.id not in self.locals:
            if base == "len" and d == "len" and nargs == 1 and not nkw:
                return "(ELen %s)" % self.ex(e.args[0])
            if d == "reversed" and nargs == 1 and not nkw:
                return "(EReversed %s)" % self.ex(e.args[0])
            if d == "sum" and nargs == 1 and not nkw:
                return "(ESum %s)" % self.ex(e.args[0])
            if base == "scsi_ba_to_int" and nargs == 1 and not nkw and self.prim_codec:
                return "(EBaToInt %s)" % self.ex(e.args[0])
            if base == "scsi_int_to_ba" and nargs in (1, 2) and not nkw and self.prim_codec:
                return "(EIntToBa %s %s)" % (self.ex(e.args[0]), self.ex(e.args[1]) if nargs == 2 else "(EConst (PInt 4))")
            if d == "bytearray" and nargs <= 1 and not nkw:
                return "(EBytearray %s)" % (self.ex(e.args[0]) if nargs else "(EConst (PBytes []))")
            if d == "range" and nargs == 1 and not nkw:
                return "(ERange %s)" % self.ex(e.args[0])
        if isinstance(f, ast.Attribute) and f.attr == "join" and isinstance(f.value, ast.Constant) and f.value.value == b"" and nargs == 1 and not nkw:
            return "(EJoin %s)" % self.ex(e.args[0])
        # methods of local objects
        if isinstance(f, ast.Attribute) and self.is_local(f.value) or (isinstance(f, ast.Attribute) and isinstance(f.value, (ast.Subscript, ast.Call))):
            if f.attr == "values" and nargs == 0 and not nkw and self.is_local(f.value):
                return "(EValues %s)" % self.ex(f.value)
            if f.attr == "copy" and nargs == 0 and not nkw and self.is_local(f.value):
                return "(ECopy %s)" % self.ex(f.value)
            if f.attr == "get" and nargs in (1, 2) and not nkw:
                return "(EGet %s %s %s)" % (self.ex(f.value), self.ex(e.args[0]), self.opt(e.args[1] if nargs == 2 else None))
            if f.attr == "rstrip" and nargs == 1 and isinstance(e.args[0], ast.Constant) and e.args[0].value == "\0" \
                    and isinstance(f.value, ast.Call) and isinstance(f.value.func, ast.Attribute) and f.value.func.attr == "decode" \
                    and len(f.value.args) == 1 and isinstance(f.value.args[0], ast.Constant) and f.value.args[0].value == "utf-8":
                return "(EDecodeStr %s)" % self.ex(f.value.func.value)
            if f.attr == "encode" and nargs == 1 and isinstance(e.args[0], ast.Constant) and e.args[0].value == "utf-8":
                return "(EEncodeStr %s)" % self.ex(f.value)
            return self.eunk(e)
        # another function of the package
        if not self.is_local(f):
            r = self.w.resolve(f, self.mod.stem, self.cls)
            if r and r[0] == "func" and not nkw and r[1] in self.known:
                return "(ECall %s [%s])" % (coq_str(r[1]), "; ".join(self.ex(a) for a in e.args))
        return self.eunk(e)

    # ---------------------------------------------------------------- statements
    def lval_path(self, node):
        """x[p1]..[pn] -> (x, [p1..pn]) for a local x"""
        path = []
        while isinstance(node, ast.Subscript) and not isinstance(node.slice, ast.Slice):
            path.append(node.slice)
            node = node.value
        if isinstance(node, ast.Name) and node.id in self.locals:
            return node.id, list(reversed(path))
        return None, None

    def block(self, stmts, loop=False):
        """loop=True: the statements are the body of a loop; `if c: continue` directly in it is rewritten to
        `if c: pass  else: <the rest of the body>` (the only form of `continue` the translator accepts)"""
        out = []
        for i, s in enumerate(stmts):
            if isinstance(s, ast.Expr) and isinstance(s.value, ast.Constant):
                continue
            if loop and isinstance(s, ast.If) and not s.orelse and len(s.body) == 1 and isinstance(s.body[0], ast.Continue):
                out.append("SIf %s\n     []\n     %s" % (self.ex(s.test), self.block(stmts[i + 1:], loop=True)))
                break
            out += self.stmt(s)
        return "[%s]" % ";\n      ".join(out)

    @staticmethod
    def pure(node):
        return not any(isinstance(n, (ast.Call, ast.Await, ast.Yield, ast.YieldFrom, ast.NamedExpr)) for n in ast.walk(node))

    def stmt(self, s):
        if isinstance(s, ast.Pass):
            return ["SPass"]
        if isinstance(s, ast.Return):
            return ["SReturn %s" % (self.ex(s.value) if s.value is not None else "(EConst PNone)")]
        if isinstance(s, ast.Raise):
            if s.exc is not None and s.cause is None:
                n = dotted(s.exc.func if isinstance(s.exc, ast.Call) else s.exc) or ""
                if n in EXNS:
                    return ["SRaise %s" % n]
                if n and n not in self.locals:
                    return ["SRaise (OtherExn %s)" % coq_str(n.split(".")[-1])]
            return [self.sunk(s)]
        if isinstance(s, ast.If):
            return ["SIf %s\n     %s\n     %s" % (self.ex(s.test), self.block(s.body), self.block(s.orelse))]
        if isinstance(s, ast.While):
            if s.orelse:
                return [self.sunk(s)]
            return ["SWhile %s\n     %s" % (self.ex(s.test), self.block(s.body, loop=True))]
        if isinstance(s, ast.For):
            if s.orelse or not isinstance(s.target, ast.Name):
                return [self.sunk(s)]
            it = s.iter
            # for k in d.keys()  ==  for k in d      (d a local dictionary; the model iterates a dict over its keys)
            if isinstance(it, ast.Call) and isinstance(it.func, ast.Attribute) and it.func.attr == "keys" and not it.args and not it.keywords \
                    and isinstance(it.func.value, ast.Name) and it.func.value.id in self.locals:
                it = it.func.value
            return ["SFor %s %s\n     %s" % (coq_str(s.target.id), self.ex(it), self.block(s.body, loop=True))]
        if isinstance(s, ast.Delete):
            out = []
            for t in s.targets:
                if isinstance(t, ast.Subscript) and isinstance(t.value, ast.Name) and t.value.id in self.locals and not isinstance(t.slice, ast.Slice):
                    out.append("SDel %s %s" % (coq_str(t.value.id), self.ex(t.slice)))
                else:
                    return [self.sunk(s)]
            return out
        if isinstance(s, ast.AugAssign):
            op = BINOPS.get(type(s.op))
            if op and isinstance(s.target, ast.Name) and s.target.id in self.locals:
                return ["SAug %s %s %s" % (coq_str(s.target.id), op, self.ex(s.value))]
            # x[p..][k] op= e   ->   x[p..][k] = x[p..][k] op e      (index expressions without calls: evaluated twice, same value)
            if op and isinstance(s.target, ast.Subscript) and not isinstance(s.target.slice, ast.Slice) and self.pure(s.target):
                x, path = self.lval_path(s.target)
                if x is not None:
                    return ["SStore %s [%s] %s (EBin %s %s %s)" % (coq_str(x), "; ".join(self.ex(p) for p in path[:-1]), self.ex(path[-1]),
                                                                   op, self.ex(s.target), self.ex(s.value))]
            return [self.sunk(s)]
        if isinstance(s, ast.Assign):
            if len(s.targets) != 1:
                return [self.sunk(s)]
            t, v = s.targets[0], s.value
            if isinstance(t, ast.Name):
                return ["SAssign %s %s" % (coq_str(t.id), self.ex(v))]
            if isinstance(t, (ast.Tuple, ast.List)) and t.elts and all(isinstance(x, ast.Name) for x in t.elts):
                return ["SUnpack [%s] %s" % ("; ".join(coq_str(x.id) for x in t.elts), self.ex(v))]
            if isinstance(t, ast.Subscript):
                if isinstance(t.slice, ast.Slice):
                    if isinstance(t.value, ast.Name) and t.value.id in self.locals and t.slice.step is None:
                        return ["SStoreSlice %s %s %s %s" % (coq_str(t.value.id), self.opt(t.slice.lower), self.opt(t.slice.upper), self.ex(v))]
                    return [self.sunk(s)]
                x, path = self.lval_path(t)
                if x is None:
                    return [self.sunk(s)]
                # x[k] = x.pop(k2)   ->   x[k] = x[k2]; del x[k2]
                if isinstance(v, ast.Call) and isinstance(v.func, ast.Attribute) and v.func.attr == "pop" and isinstance(v.func.value, ast.Name) \
                        and v.func.value.id == x and len(path) == 1 and len(v.args) == 1 and not v.keywords:
                    return ["SStore %s [] %s (EIndex (EVar %s) %s)" % (coq_str(x), self.ex(path[0]), coq_str(x), self.ex(v.args[0])),
                            "SIf (ECmp CEq %s %s) [] [SDel %s %s]" % (self.ex(path[0]), self.ex(v.args[0]), coq_str(x), self.ex(v.args[0]))]
                return ["SStore %s [%s] %s %s" % (coq_str(x), "; ".join(self.ex(p) for p in path[:-1]), self.ex(path[-1]), self.ex(v))]
            return [self.sunk(s)]
        if isinstance(s, ast.Expr) and isinstance(s.value, ast.Call):
            c = s.value
            d = dotted(c.func) or ""
            base = d.split(".")[-1]
            if base in ("decode_bits", "encode_dict") and len(c.args) == 3 and not c.keywords and not self.is_local(c.func):
                tq = self.table(c.args[1])
                if tq and isinstance(c.args[2], ast.Name) and c.args[2].id in self.locals:
                    kind = "SDecode" if base == "decode_bits" else "SEncode"
                    return ["%s %s %s %s" % (kind, self.ex(c.args[0]), coq_str(tq), coq_str(c.args[2].id))]
                return [self.sunk(s)]
            if isinstance(c.func, ast.Attribute) and c.func.attr in ("update", "append") and len(c.args) == 1 and not c.keywords:
                x, path = self.lval_path(c.func.value) if isinstance(c.func.value, ast.Subscript) else \
                    ((c.func.value.id, []) if isinstance(c.func.value, ast.Name) and c.func.value.id in self.locals else (None, None))
                a0 = c.args[0]
                if x is not None and c.func.attr == "update" and isinstance(a0, ast.Dict) and len(a0.keys) == 1 and a0.keys[0] is not None \
                        and not (isinstance(a0.keys[0], ast.Constant) and isinstance(a0.keys[0].value, str)):
                    # x.update({k: v})  ==  x[k] = v
                    return ["SStore %s [%s] %s %s" % (coq_str(x), "; ".join(self.ex(p) for p in path), self.ex(a0.keys[0]), self.ex(a0.values[0]))]
                if x is not None:
                    return ["%s %s [%s] %s" % ("SUpdate" if c.func.attr == "update" else "SAppend", coq_str(x),
                                               "; ".join(self.ex(p) for p in path), self.ex(c.args[0]))]
                return [self.sunk(s)]
            e = self.call(c)
            return ["SExpr %s" % e]
        return [self.sunk(s)]

    # ---------------------------------------------------------------- aliasing
    def alias_unsafe(self):
        """a local that was stored somewhere (appended, put in a dict / list, assigned to another name) and is changed in place
        afterwards — on some path, loops taken twice"""
        fn = self.fn

        def names_in_value(v):
            """names whose OBJECT (not a copy) becomes part of the value"""
            if isinstance(v, ast.Name):
                return {v.id}
            if isinstance(v, (ast.List, ast.Tuple)):
                out = set()
                for x in v.elts:
                    out |= names_in_value(x)
                return out
            if isinstance(v, ast.Dict):
                out = set()
                for x in v.values:
                    out |= names_in_value(x)
                return out
            if isinstance(v, ast.BoolOp):
                out = set()
                for x in v.values:
                    out |= names_in_value(x)
                return out
            return set()

        bad = []

        def scan(stmts, captured):
            for s in stmts:
                if isinstance(s, (ast.If,)):
                    a = scan(s.body, set(captured))
                    b = scan(s.orelse, set(captured))
                    captured = a | b
                    continue
                if isinstance(s, (ast.While, ast.For)):
                    c1 = scan(s.body, set(captured))
                    captured = scan(s.body, set(c1) | captured) | captured
                    continue
                # mutations
                mut = set()
                if isinstance(s, ast.Assign):
                    for t in s.targets:
                        if isinstance(t, ast.Subscript):
                            r = root_name(t)
                            if r:
                                mut.add(r)
                if isinstance(s, ast.AugAssign):
                    r = root_name(s.target)
                    # `x >>= e`, `x <<= e`, `x //= e`, `x %= e` on a plain name rebind it: no built-in container defines these in place
                    rebinds = isinstance(s.target, ast.Name) and isinstance(s.op, (ast.RShift, ast.LShift, ast.FloorDiv, ast.Mod))
                    if r and not rebinds:
                        mut.add(r)
                if isinstance(s, ast.Delete):
                    for t in s.targets:
                        r = root_name(t)
                        if r and isinstance(t, ast.Subscript):
                            mut.add(r)
                for c in ast.walk(s):
                    if isinstance(c, ast.Call):
                        d = dotted(c.func) or ""
                        if d.split(".")[-1] in ("decode_bits", "encode_dict") and len(c.args) == 3:
                            r = root_name(c.args[2])
                            if r:
                                mut.add(r)
                        if isinstance(c.func, ast.Attribute) and c.func.attr in MUTATORS:
                            r = root_name(c.func.value)
                            if r:
                                mut.add(r)
                for m in mut:
                    if m in captured:
                        bad.append("%s is changed after it was stored elsewhere: %s" % (m, self.src(s)))
                # captures
                if isinstance(s, ast.Assign):
                    cap = names_in_value(s.value)
                    for t in s.targets:
                        if isinstance(t, ast.Name):
                            captured.discard(t.id)
                            if isinstance(s.value, ast.Name):
                                cap = cap | {t.id}
                        captured |= {c for c in cap if c in self.locals}
                for c in ast.walk(s):
                    if isinstance(c, ast.Call) and isinstance(c.func, ast.Attribute) and c.func.attr in ("append", "update", "extend", "insert", "setdefault"):
                        for a in c.args:
                            captured |= {n for n in names_in_value(a) if n in self.locals}
            return captured
        params = {a.arg for a in fn.args.args if a.arg not in ("cls", "self") and a.arg != self.outparam}
        scan(fn.body, set())
        # a parameter that is changed in place (other than an out-buffer the model treats by value) is shared with the caller
        for s in ast.walk(fn):
            if isinstance(s, ast.Call) and isinstance(s.func, ast.Attribute) and s.func.attr in MUTATORS and isinstance(s.func.value, ast.Name) \
                    and s.func.value.id in params:
                bad.append("parameter %s is changed in place: %s" % (s.func.value.id, self.src(s)))
            if isinstance(s, (ast.Assign, ast.AugAssign, ast.Delete)):
                for t in (s.targets if not isinstance(s, ast.AugAssign) else [s.target]):
                    if isinstance(t, ast.Subscript) and isinstance(t.value, ast.Name) and t.value.id in params:
                        bad.append("parameter %s is changed in place: %s" % (t.value.id, self.src(s)))
        # a local that IS (part of) an object the caller handed in — bound by `x = p`, `x = p[k]`, `x = p.get(k, ...)`, `for x in p[k]` — and
        # is then changed in place (`x += ..` extends a bytearray / list in place, `x[i] = ..`, `x.append(..)`, an out-buffer of the codec):
        # the caller's object changes, so a second call with the same argument does not see equal inputs (flow-insensitive, conservative)
        def borrows(v, borrowed):
            if isinstance(v, ast.Name):
                return v.id in borrowed
            if isinstance(v, ast.Subscript):
                return not isinstance(v.slice, ast.Slice) and borrows(v.value, borrowed)
            if isinstance(v, ast.Call) and isinstance(v.func, ast.Attribute) and v.func.attr in ("get", "setdefault", "pop", "values", "items"):
                return borrows(v.func.value, borrowed)
            if isinstance(v, ast.IfExp):
                return borrows(v.body, borrowed) or borrows(v.orelse, borrowed)
            if isinstance(v, ast.BoolOp):
                return any(borrows(x, borrowed) for x in v.values)
            if isinstance(v, ast.Call):
                # another function of the package may hand back the very object it was given (a pass-through branch); the built-in
                # constructors and the converter functions always make a new one
                d = dotted(v.func) or ""
                last = d.split(".")[-1]
                if last in FRESH or (isinstance(v.func, ast.Attribute) and last in FRESH_METHODS):
                    return False
                return any(borrows(a, borrowed) for a in list(v.args) + [k.value for k in v.keywords])
            return False
        FRESH = {"bytearray", "bytes", "len", "int", "str", "list", "dict", "tuple", "set", "sorted", "range", "sum", "min", "max", "bool",
                 "scsi_int_to_ba", "scsi_ba_to_int", "reversed", "enumerate", "zip", "type", "isinstance", "getattr", "hasattr", "print", "format"}
        FRESH_METHODS = {"copy", "encode", "decode", "join", "format", "keys", "split", "strip", "hex", "to_bytes", "index", "count", "startswith", "endswith"}
        borrowed = set(params)
        changed = True
        while changed:
            changed = False
            for s in ast.walk(fn):
                tgts, val = [], None
                if isinstance(s, ast.Assign):
                    tgts, val = s.targets, s.value
                elif isinstance(s, ast.For):
                    tgts, val = [s.target], s.iter
                if val is None or not borrows(val, borrowed):
                    continue
                for t in tgts:
                    for n in ([t] if isinstance(t, ast.Name) else (list(t.elts) if isinstance(t, ast.Tuple) else [])):
                        if isinstance(n, ast.Name) and n.id not in borrowed:
                            borrowed.add(n.id)
                            changed = True
        derived = borrowed - params
        for s in ast.walk(fn):
            hit = None
            if isinstance(s, ast.AugAssign) and isinstance(s.target, ast.Name) and s.target.id in derived \
                    and isinstance(s.op, (ast.Add, ast.Mult, ast.BitOr, ast.BitAnd, ast.BitXor, ast.Sub)):
                hit = s.target.id
            if isinstance(s, (ast.Assign, ast.AugAssign, ast.Delete)):
                for t in (s.targets if not isinstance(s, ast.AugAssign) else [s.target]):
                    if isinstance(t, ast.Subscript) and isinstance(t.value, ast.Name) and t.value.id in derived:
                        hit = t.value.id
            if isinstance(s, ast.Call):
                if isinstance(s.func, ast.Attribute) and s.func.attr in MUTATORS and isinstance(s.func.value, ast.Name) and s.func.value.id in derived:
                    hit = s.func.value.id
                d = dotted(s.func) or ""
                if d.split(".")[-1] in ("decode_bits", "encode_dict") and len(s.args) == 3 and isinstance(s.args[2], ast.Name) and s.args[2].id in derived:
                    hit = s.args[2].id
            if hit:
                bad.append("%s is (part of) an object the caller handed in and is changed in place: %s" % (hit, self.src(s)))
        return bad

    def translate(self):
        fn = self.fn
        deco = [dotted(d.func if isinstance(d, ast.Call) else d) or "?" for d in fn.decorator_list]
        args = [a.arg for a in fn.args.args]
        if "staticmethod" not in deco and self.cls and args and args[0] in ("cls", "self"):
            if args[0] == "self":
                return None
            args = args[1:]
        nd = len(fn.args.defaults)
        defaults = [None] * (len(args) - nd) + list(fn.args.defaults)
        odd = [d for d in deco if d not in ("classmethod", "staticmethod")]
        if odd:
            # a decorator replaces the function by something else (a cache, a wrapper): the body alone says nothing
            self.unknown.append("decorator: @%s" % odd[0])
            ps, body = [], "[SUnknown %s]" % coq_str("decorator: @%s" % odd[0])
        elif fn.args.vararg or fn.args.kwarg or fn.args.kwonlyargs:
            ps, body = [], "[%s]" % self.sunk(fn.args.vararg or fn.args.kwarg or fn.args.kwonlyargs[0])
        else:
            ps = []
            for a, dflt in zip(args, defaults):
                if dflt is None:
                    ps.append("(%s, None)" % coq_str(a))
                else:
                    c = cpv(dflt.value) if isinstance(dflt, ast.Constant) else None
                    if c is None:
                        self.unknown.append("default of %s" % a)
                        c = "PStr \"unmodelled-default\""
                    ps.append("(%s, Some (%s))" % (coq_str(a), c))
            bad = self.alias_unsafe()
            if bad:
                self.unknown.append("aliasing: " + bad[0])
                body = "[SUnknown %s]" % coq_str(("aliasing: " + bad[0])[:140])
            elif self.outparam:
                if any(isinstance(n, ast.Return) for n in ast.walk(fn)) or self.outparam not in args:
                    self.unknown.append("out-parameter convention: explicit return")
                    body = "[SUnknown \"out-parameter convention: explicit return\"]"
                else:
                    body = self.block(fn.body)[:-1] + ";\n      SReturn (EVar %s)]" % coq_str(self.outparam)
            else:
                body = self.block(fn.body)
        return "mkFun [%s]\n     %s" % ("; ".join(ps), body)


def gen_pyfuncs(mods):
    world = World()
    targets = []
    for mod in mods:
        if not (mod.stem.startswith("scsi_cdb_") and "pyscsi/pyscsi/" in mod.rel.replace(os.sep, "/")):
            continue
        for node in mod.tree.body:
            if isinstance(node, ast.FunctionDef):
                targets.append((mod, "", node))
            if isinstance(node, ast.ClassDef):
                for f in node.body:
                    if isinstance(f, ast.FunctionDef) and f.name != "__init__":
                        targets.append((mod, node.name, f))
    known = {"%s.%s%s" % (m.stem, (c + ".") if c else "", f.name) for m, c, f in targets}
    lines = [HEADER.format(src="the decoders / builders of pyscsi/pyscsi/scsi_cdb_*.py (function bodies)", extra=" Model.Py").replace(
        "From Coq Require Import String NArith List.", "From Coq Require Import String NArith ZArith List.")]
    info, defs, unknown = [], [], []
    if not world.ok:
        unknown.append("the package does not import: " + world.err)
    for mod, cname, fn in targets:
        qual = "%s.%s%s" % (mod.stem, (cname + ".") if cname else "", fn.name)
        tr = Fn(world, mod, cname, fn, known)
        body = tr.translate()
        if body is None:
            continue
        ident = "PF_" + "".join(ch if ch.isalnum() else "_" for ch in qual)
        lines.append("(* %s:%d *)\nDefinition %s : fundef :=\n  %s.\n" % (mod.rel, fn.lineno, ident, body))
        defs.append((qual, ident))
        for u in tr.unknown:
            unknown.append("%s: %s" % (qual, u))
        info.append(dict(qual=qual, ident=ident, params=[a.arg for a in fn.args.args if a.arg not in ("cls",)], unknown=tr.unknown,
                         line=fn.lineno, file=mod.rel))
    lines.append("Definition py_program : program := [\n  %s].\n" % ";\n  ".join("(%s, %s)" % (coq_str(q), i) for q, i in defs))
    lines.append("Definition py_unknown : list string := [\n  %s].\n" % ";\n  ".join(coq_str(u[:160]) for u in unknown))
    # builders / decoders that change, in place, an object that belongs to their caller (other than the documented out-buffer parameters):
    # a second call with the same argument then does not see equal inputs
    borrowed = [u for u in unknown if "an object the caller handed in" in u]
    lines.append("Definition py_caller_mutations : list string := [%s].\n" % "; ".join(coq_str(u[:160]) for u in borrowed))
    return "\n".join(lines), dict(functions=info, unknown=unknown, import_ok=world.ok)


# ------------------------------------------------------------------------------------------------ pyscsi/utils/converter.py
CONVERTER_FUNCS = {"scsi_int_to_ba": None, "scsi_ba_to_int": None, "decode_bits": "result_dict", "encode_dict": "result"}


def gen_pyconv(mods):
    """the four functions of pyscsi/utils/converter.py as programs of Model/Py.v -> Gen/PyConv.v.  decode_bits / encode_dict change their
    last argument in place and return nothing; the model (value semantics) makes them RETURN that argument (out-parameter convention)."""
    world = World()
    mod = [m for m in mods if m.rel.replace(os.sep, "/") == "pyscsi/utils/converter.py"]
    lines = [HEADER.format(src="pyscsi/utils/converter.py (function bodies)", extra=" Model.Py").replace(
        "From Coq Require Import String NArith List.", "From Coq Require Import String NArith ZArith List.")]
    info, defs, unknown = [], [], []
    if not world.ok:
        unknown.append("the package does not import: " + world.err)
    if not mod:
        unknown.append("pyscsi/utils/converter.py not found")
    else:
        mod = mod[0]
        fns = {n.name: n for n in mod.tree.body if isinstance(n, ast.FunctionDef)}
        known = {"converter.%s" % n for n in fns}
        for name, outp in CONVERTER_FUNCS.items():
            if name not in fns:
                unknown.append("converter.%s: not defined" % name)
                continue
            tr = Fn(world, mod, "", fns[name], known)
            tr.prim_codec, tr.outparam = False, outp
            body = tr.translate()
            ident = "PC_" + name
            lines.append("(* %s:%d *)\nDefinition %s : fundef :=\n  %s.\n" % (mod.rel, fns[name].lineno, ident, body))
            defs.append(("converter." + name, ident))
            for u in tr.unknown:
                unknown.append("converter.%s: %s" % (name, u))
            info.append(dict(qual="converter." + name, ident=ident, unknown=tr.unknown, line=fns[name].lineno, outparam=outp))
    lines.append("Definition conv_program : program := [\n  %s].\n" % ";\n  ".join("(%s, %s)" % (coq_str(q), i) for q, i in defs))
    lines.append("Definition conv_unknown : list string := [\n  %s].\n" % ";\n  ".join(coq_str(u[:160]) for u in unknown))
    return "\n".join(lines), dict(functions=info, unknown=unknown, import_ok=world.ok)
