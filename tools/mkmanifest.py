#!/usr/bin/env python3
"""writes MANIFEST.json from the table below (kept in one place so it is always valid)"""
import json
import os

VERIF = os.path.dirname(os.path.dirname(os.path.abspath(__file__)))
ALL = ["C%02d" % i for i in range(1, 20)]

CLAIMED = {
    "C01": dict(
        text="Machine-checked proof (Coq) that for every one of the 42 command classes and ALL argument values the CDB has the SAM "
             "length and carries each argument / the operation code / the T10 service action at the byte and bit position the "
             "standard assigns, every other bit zero. One generic theorem over a constructor IR (Proofs/CtorSound.v, CdbSpec.v) + "
             "the general codec laws; the per-class obligation is a decidable side condition evaluated by vm_compute on the "
             "constructor IR and mask tables REGENERATED from /repo on every run against a hand-written Spec/CdbFormats.v. "
             "The IR semantics is tied to the real constructors by a 6300-case correspondence run.",
        ref="DESIGN.md §3.4, §4 C01",
        note="Trusted: Coq kernel + vm_compute; translator (validated by reflection + constructor correspondence); Spec/CdbFormats.v "
             "(my transcription of the standards' CDB tables); hand-written IR semantics (Model/Ctor.v) tied by correspondence. "
             "The SAT LBA byte shuffle is treated as a named helper in the theorem (its byte order is checked on the implementation by the probe oracle).",
        technique="Coq proof by reflection over a regenerated constructor IR + vm_compute correspondence"),
    "C02": dict(
        text="Machine-checked proof (Coq): for every class, decoding the CDB a constructor built returns the values it was built from, "
             "re-encoding any canonical CDB reproduces its bytes, and changing one field changes only that field — instances of the "
             "general codec theorems under the side condition wf_layout(class table) evaluated on the regenerated tables, with field "
             "widths equal to the standard's. marshall_cdb/unmarshall_cdb right after construction are compared with the model on every run.",
        ref="DESIGN.md §4 C02",
        note="As C01. Stated for the class-level state left by constructing a command of that class; interference by other commands is C09.",
        technique="Coq proof (codec laws instantiated on regenerated tables) + vm_compute correspondence"),
    "C03": dict(
        text="Machine-checked proof (Coq) over the regenerated constructor IR: for every non-ATA class and ALL arguments, data-in is a zero "
             "buffer exactly as long as the standard's transfer (allocation length / transfer length x block size / 0), data-out is the "
             "caller's data / an empty buffer / the composed parameter list, never None (generic theorem xfer_sound + per-class decidable "
             "check against Spec xfer_specs). ATA PASS-THROUGH(12/16): complete sweep of 2304 combinations inside the kernel (T_LENGTH x BYT_BLOK x T_TYPE x T_DIR x block size x "
             "extra_tl x caller data x COUNT in {0, 5, 256} x FEATURES in {0, 3}; finite, stated as such; COUNT / FEATURES 0 announce no data). PARAMETER LIST LENGTH = len(data-out) is decided syntactically on the IR plus a lemma about len().",
        ref="DESIGN.md §4 C03",
        note="As C01. Partial: the ATA statement is a finite flag sweep with the other arguments fixed; READ CD's 3072 bytes/sector is read "
             "as sufficiency. The transfer set-up of ISCSIDevice.execute (direction, expected transfer length, Task / command arguments) and the "
             "argument list of sgio.execute are REGENERATED and proved for all buffer lengths (C03_iscsi_direction, C03_sgio_arguments); what the "
             "real bindings do with them is assumed. The failing-input search also builds all parameter-list commands and probes both execute()s.",
        technique="Coq proof by reflection over a regenerated constructor IR + kernel sweep + vm_compute correspondence"),
    "C17": dict(
        text="Machine-checked proof (Coq) on the regenerated constructor IR: block size 0 is refused with MissingBlocksizeException before "
             "anything is constructed, for all other arguments (7 classes + WRITE SAME(16) unless NDOB; ATA by flag sweep); no constructor "
             "of any of the 42 classes returns a command for any of the 96 operation codes without a fixed CDB length. The refusals that go "
             "through the facade and the parameter-list marshallers (PR IN service action, EXTENDED COPY keys/codes, TransportID, nothing "
             "sent) are checked on the implementation by 430 scenario probes with a recording device on every run (PR IN with every value 4..39, -40..-1, large, negative large, None, strings, (); EXTENDED COPY descriptors with the unknown keys "", " ", 0, None, an upper-case known key, and with the names of each code table given for the fields of the other two); "
             "the PERSISTENT RESERVE IN method is REGENERATED and must be exactly the chain `if sa == X: ... elif ... else: raise ValueError` over the four service actions (C17_prin_dispatch_is_a_closed_chain).",
        ref="DESIGN.md §4 C17",
        note="As C01. Partial: the facade/marshaller refusals are decided by exhaustive scenario probes of the implementation, not yet by a "
             "theorem about a model (see C13/C05).",
        technique="Coq proof by reflection over a regenerated constructor IR + implementation scenario probes"),
    "C07": dict(
        text="Machine-checked statements (Coq) about the status dispatch of ISCSIDevice.execute and the CheckConditionError handler of "
             "SCSIDevice.execute, both REGENERATED from the source on every run: complete enumeration inside the kernel over all 256 status "
             "bytes x raw-sense on/off x (no / stale) cached sense, lifted to every history of executions incl. re-used command objects by "
             "induction (returns normally only for GOOD; CHECK CONDITION raises CheckCondition with THIS execution's sense or, only when "
             "asked, attaches the raw sense; each other status raises its named error). The semantics of the small act language is tied to "
             "the real device classes over stub bindings by a 6400-history correspondence run (all 256 statuses exhaustively; every fixed-length operation code x the five command sets a device object may carry x "
             "the statuses that are a success of SOME command — CONDITION MET, INTERMEDIATE ...: what a status means depends neither on the command nor on the attached command set). Histories of facade calls on ONE SCSI object over the real SCSIDevice / ISCSIDevice (stub bindings), the answers of the target scripted per call as a list (a hidden "
             "re-execution meets the next one), incl. a sweep of all 16 sense keys x 10 ASC/ASCQ pairs x both sense formats, are judged on every run: a call returns normally only if the "
             "FIRST answer was GOOD; SCSI.execute is regenerated and must be the plain pass-through.",
        ref="DESIGN.md §4 C07",
        note="Partial: the behaviour of the real sgio/iscsi C bindings is the stated contract (the stubs implement exactly it); the facade's "
             "pass-through of the error is covered by the facade model of C13.",
        technique="Coq: kernel enumeration over a regenerated program + induction over histories + vm_compute correspondence"),
    "C08": dict(
        text="Machine-checked proof (Coq): for EVERY non-empty byte string the CheckCondition error is constructed and described without "
             "raising, and sense key / ASC / ASCQ are the bytes at the SPC-4 positions of the format (absent bytes read 0) — general "
             "theorems over a model whose format dispatch, lookup forms (.get with default vs. subscript, guard for undecoded data) and "
             "tables are REGENERATED from scsi_sense.py on every run, under decidable side conditions evaluated by vm_compute; a subset of "
             "28 T10 ASC/ASCQ texts is compared entry by entry. Tied by a 3000-case correspondence run (all response-code classes x all "
             "16 keys x boundary and all assigned ASC/ASCQ x 10 length classes). The ORDER of the tests in _describe_ascq is regenerated as a list of steps and C08_described_by_t10_text proves that every code of the T10 subset - "
             "including 40h/00h and 5Dh/FFh, whose qualifier is 00h of a parametric family resp. lies in the vendor specific range - is DESCRIBED by its T10 text; the printed text is "
             "compared with T10 on the implementation, and error objects are printed again after later sense buffers were decoded.",
        ref="DESIGN.md §4 C08",
        note="Partial: only a subset of the T10 ASC/ASCQ text list is in Spec/SenseFmt.v (totality and positions are full); texts are "
             "compared case-insensitively; text formatting ('%02X') is observed through a parser of str() in the harness.",
        technique="Coq proof over a regenerated model (reflection side conditions) + vm_compute correspondence"),
    "C13": dict(
        text="Machine-checked proof (Coq) over the 38 facade methods REGENERATED as action lists: every method is look-up, construct with "
             "that opcode (arguments wired to the same-named constructor parameters), execute once, optionally decode, return; a generic "
             "theorem derives, for every point of failure, that at most one command is handed to the device, nothing is sent when "
             "construction is refused, nothing is decoded or returned when the device reports an error; get_opcode's suffix search finds the "
             "9Eh/A3h entries with their service actions in every set; documented keyword names are constructor parameters. Tied by a "
             "2550-call correspondence with a recording device (5 command sets, optional-argument subsets, zero/random fill, device error), "
             "which also checks buffer identity, T10 opcode and decode-after-execute on the implementation. Everything else in class SCSI "
             "is REGENERATED too and must have exactly the known shape (execute = hand the command to the device once and re-raise; "
             "__enter__/__exit__; blocksize property; no other member, decorator or class-level attribute). Histories of calls on ONE facade "
             "over the real SCSIDevice / ISCSIDevice (stub bindings, scripted answers incl. hidden re-executions) are judged on every run: "
             "exactly one command per call, T10 opcode whatever was called before, same behaviour as on a brand-new facade; the scripted answers include a CHECK CONDITION for which the binding has no sense data "
             "(whatever the library raises then, the command is not handed over a second time), and re-entrant steps (while a call is with the device another facade serves the same kind of request with other arguments: the outer call still decodes its own buffer with its own arguments).",
        ref="DESIGN.md §4 C13",
        note="The event-trace semantics of the action language is hand-written (Model/Facade.v) and tied by correspondence; buffer identity "
             "and decode-after-execute are observed on the implementation, not modelled.",
        technique="Coq proof by reflection over regenerated action lists + vm_compute correspondence"),
    "C15": dict(
        text="Machine-checked proof (Coq) by induction over ALL sequences of execute / replug / unplug / close-failure / close / exit "
             "events: with detection on every command goes through a handle on the node that exists at that moment, a vanished node is an "
             "error, after an execute the device holds a handle on the current node also when closing the stale handle failed; with "
             "detection off the original handle is kept; every handle is released at most once and close()/__exit__ release the current "
             "one. The shape of execute()'s replug prologue and of _is_replugged/open/close/__exit__ is REGENERATED and checked; the state "
             "machine is tied by 2300 event sequences run against the real SCSIDevice on a real file system under /dev/shm, also with the device path being an alias (symlink) of the node that a replug re-points, and (implementation oracle only) with re-opens that fail.",
        ref="DESIGN.md §4 C15",
        note="Partial: OS behaviour (inode reuse, race between stat and open) is outside the model; the file-system contract is listed in the "
             "evidence assumptions. ISCSIDevice connect/disconnect pairing is exercised by the C19 and C07 drivers, not proved here.",
        technique="Coq invariant proof by induction over event histories + vm_compute correspondence on a real file system"),
    "C16": dict(
        text="Machine-checked (Coq): the decision table of __init_opcode, the INQUIRY data table and the opcode sets are REGENERATED; complete "
             "enumeration inside the kernel over all 32 device types x 5 current sets shows SBC for 0/4/7, SSC for 1, MMC for 5, SMC for 8 and "
             "a set with the primary commands otherwise; the type is bits 4:0 of byte 0 for every buffer (qualifier cannot leak); attach is "
             "one standard INQUIRY; for every history of attaches over several device objects the device attached last carries the set of "
             "its own type and no other device changes. Tied by 930 attach histories (all 256 first bytes, fresh/re-used devices and facades; the rest of the INQUIRY data all zeroes, all ones, high bytes, random; also over three objects of the real SCSIDevice / ISCSIDevice classes).",
        ref="DESIGN.md §4 C16",
        note="Both transports share the facade code path; the histories run over a recording device object (the facade works over any device object).",
        technique="Coq: kernel enumeration over regenerated tables + history lemma + vm_compute correspondence"),
    "C19": dict(
        text="Machine-checked proof (Coq) for ALL device strings, access modes and initiator names x the four presence combinations of the "
             "bindings: init_device and the device constructors return the matching class opened on exactly the requested path / URL, or "
             "refuse with NotImplementedError before any file or connection is opened — over the prefix tests and constructor guards "
             "REGENERATED from utils/__init__.py, scsi_device.py, iscsi_device.py (slice length = literal length is checked, so [:n]== is a "
             "prefix test). The import half runs in four fresh interpreters (import hook hides/provides the stub bindings): all 59 modules "
             "import, commands build/encode/decode and the facade works, identically; 2988 dispatch cases are compared with the model.",
        ref="DESIGN.md §4 C19",
        note="Partial: Python's import machinery is exercised, not modelled; the bindings are stand-ins.",
        technique="Coq proof over regenerated dispatch tables + 4-configuration correspondence"),
    "C09": dict(
        text="Machine-checked proof (Coq): the constructor semantics threads the class-level state the library used to keep, and for every "
             "regenerated constructor it is proved that no statement reads or writes it — for ANY two values of that state (any history of "
             "other commands) the same arguments build the same command; decode/encode with a class are stateless functions of its own "
             "table; a generic theorem shows that threads whose steps touch only thread-local state obtain, under ANY schedule, what they "
             "obtain alone. The premise is tied to the code by a footprint scan (writes to class attributes, globals, caller dict/list "
             "arguments inside functions of the command modules) REGENERATED on every run and required empty, by the constructor "
             "correspondence, and by an implementation run: 700 sequential histories (all ordered class pairs, triples), ~1000 two-thread "
             "schedules under a settrace-controlled line-granular scheduler, input-mutation and determinism probes. The inventory of class SCSICommand (its codec methods must be exactly the text Model/Command.v models, properties only touch their own slot, no other member, decorator "
             "or mutable class-level object) is an obligation of C01, C02 and C09; class-level mutables changed in place through any receiver, overrides of base-class methods and "
             "memoisation decorators are part of the footprint; every class is also built against itself with other (also optional) argument values and cmd.unmarshall() of every earlier command is observed. "
             "'Equal inputs, equal bytes': no regenerated builder / decoder body changes in place an object borrowed from its caller (x = p[k], x = p.get(..), for x in p[k], what another package function returned for it; "
             "C09_py_builders_leave_the_callers_objects_alone), and the real constructors are handed every parameter dictionary (byte values as bytearrays) three times.",
        ref="DESIGN.md §4 C09",
        note="Partial: schedules are explored at source-line granularity (the property's); CPython's bytecode-granular preemption and the GIL "
             "are outside the model — with an empty footprint the conclusion does not depend on the granularity. The footprint scan (class "
             "attributes, module globals, caller-owned containers, mutable default arguments changed in place) is a "
             "syntactic over-approximation with two stated exceptions (slice writes into library-allocated buffers; helpers handed fresh copies).",
        technique="Coq non-interference proof over regenerated constructors + regenerated footprint scan + controlled-scheduler runs"),
    "C11": dict(
        text="Machine-checked proof (Coq): every `while` loop of every response / sense / parameter decoder is REGENERATED from /repo as a "
             "skeleton (loop condition, bytes consumed per iteration); the generic theorem skeleton_terminates shows that a loop whose "
             "every iteration consumes at least one byte finishes within len(buffer) iterations for ALL byte strings and whatever the "
             "body computes; the per-loop obligation (stride >= 1, decided by vm_compute on the regenerated skeleton) and the `for` loops "
             "(over a buffer slice, a caller range or a dict) are checked on every run. Every public decoder is also run on the real code "
             "under a line-count budget linear in the buffer length on empty, truncated, all-zero, all-0xFF, zero-length-field, "
             "huge-length-field and random buffers. For GET LBA STATUS, PERSISTENT RESERVE IN / READ KEYS and REPORT LUNS the REGENERATED decoder bodies themselves are proved total on EVERY byte string under Model/Py.v: "
             "with fuel len(data)+3 they return a value (no exception, no fuel exhaustion) that is spelled out (C11_py_*_every_input, C11_py_no_divergence); the same for the two decoders whose loop stride is READ FROM THE BUFFER — "
             "REPORT PRIORITY (descriptor length field: zero, or past the end), REPORT TARGET PORT GROUPS (two nested loops, the inner one bounded by a count from the buffer and by the bytes that remain; list lengths bounded by the buffer: C11_py_rtpg_linear) "
             "and READ ELEMENT STATUS (pages x descriptors with strides and stop conditions from the buffer, five conditional parts: returns Ok within 2 len + 4 units of fuel on every byte string, by a generic decreasing-measure rule for while loops); "
             "C11_py_loop_decoders_return_on_every_input states it for all six loop-carrying decoders at once. A second, "
             "process-level budget (CPU time per call, batches under a deadline, bisected) covers work inside C code (regular expressions) and nested sense descriptors.",
        ref="DESIGN.md §4 C11",
        note="Trusted: Coq kernel + vm_compute; the loop-skeleton translator (fail-closed: unknown loop shapes are listed and must be empty); "
             "the budget oracle's constant (1500 lines/byte + 5000). Partial: the skeleton abstracts the loop bodies (they only matter "
             "through the stride); memory growth is bounded through the iteration count, not measured.",
        technique="Coq termination proof over regenerated loop skeletons + linear line-budget runs of the implementation"),
    "C12": dict(
        text="Machine-checked refinement proof (Coq): for ALL histories of READ/WRITE(10/12/16), WRITE SAME(10/16, incl. NDOB), SYNCHRONIZE "
             "CACHE(10/16), READ CAPACITY(10/16) and INQUIRY requests with all LBAs (up to 2^64 for the 16-byte forms), transfer lengths, "
             "block sizes, flag values and payloads the command forms can express, the stack facade -> opcode table -> constructor -> "
             "transport -> target is transparent: the target (Spec/Target.v, written from SBC-3/SPC-4, decoding CDBs at the standards' "
             "positions) ends with exactly the caller's data in exactly the addressed blocks, every READ returns the data last written to "
             "each block, READ CAPACITY decodes to the target's geometry through the library's own tables, and SG_IO and iSCSI give the same "
             "results. The facade action lists, opcode values, constructor IR and mask tables are REGENERATED from /repo on every run and each "
             "command form is evaluated symbolically (all argument values at once) through the IR semantics inside the kernel. The same "
             "histories are run through the real facade/devices over substituted sgio/iscsi modules backed by an independent Python target, "
             "compared with the model and with a shadow map of last-written data. The target simulator also queues unit attention conditions between calls (a call none of whose commands was performed must not return normally), and the data-in "
             "buffers of READs are kept alone (commands dropped) and compared again after the history.",
        ref="DESIGN.md §4 C12",
        note="Trusted: Coq kernel + vm_compute; translators (validated by reflection, constructor and facade correspondences); Spec/Target.v and "
             "its Python twin tools/sim_target.py (my reading of SBC-3/SPC-4); hand model of the transport glue (wire/fill, tied by the stack "
             "correspondence); the substituted bindings' contract. Partial: requests that a command form cannot express (e.g. LBA >= 2^32 in "
             "READ(10)) are outside the theorem (the library truncates them silently); keyword flags are passed explicitly in the theorem, "
             "defaulted forms are covered by the correspondence runs; WRITE SAME with 0 blocks is refused by the Spec target (WSNZ=1).",
        technique="Coq refinement proof by symbolic evaluation of the regenerated stack + vm_compute correspondence against a simulated target"),
    "C04": dict(
        text="Machine-checked proof (Coq): 33 response / parameter-data formats are stated in Spec/RespFormats.v in the standards' notation "
             "(byte, msb, width; written by hand from SPC-4/SBC-3/SMC-3/MMC-6). For every format and EVERY buffer, decoding with the library's "
             "tables (REGENERATED on every run) cannot fail and reports under each of the library's names exactly what a reader of the standard "
             "finds at that position (generic theorem table_reads_standard + a decidable per-field condition evaluated by vm_compute). The "
             "skeletons of the decoders (which tables, VPD page codes, page cut, list start / length bytes / base / stride) are REGENERATED and "
             "compared with the specification; for REPORT LUNS, GET LBA STATUS and PR IN READ KEYS a generic theorem shows that for every "
             "descriptor count and content the list is returned whole, in order, nothing beyond the reported length; for the self-describing "
             "descriptors (designation descriptors, READ FULL STATUS and REPORT PRIORITY descriptors, element status pages) the regenerated "
             "walk parameters equal the standard's and a second generic theorem gives the exact walk for every count. All 26 response kinds "
             "(incl. designators, TransportIDs, READ ELEMENT STATUS pages, RTPG groups, mode pages) are generated by an independent conformant "
             "device (tools/spec_resp.py) and decoded by the real parsers on every run.",
        ref="DESIGN.md §4 C04",
        note="Trusted: Coq kernel + vm_compute; translator (validated by reflection); Spec/RespFormats.v = tools/spec_formats.py and the list "
             "rules of tools/spec_resp.py (my reading of the standards). Partial: the loop structure of the nested decoders (RTPG, READ ELEMENT "
             "STATUS element descriptors inside a page, TransportID / designator bodies, MODE SENSE page walk, READ CD) is decided by the "
             "conformant-device runs, not by a theorem; their tables and the outer descriptor walks are covered by theorems. READ CD sector layouts are not covered. Known finding: MODE SENSE decodes "
             "only the first mode page.",
        technique="Coq proof by reflection over regenerated tables and decoder skeletons + generic list theorem + conformant-device runs"),
    "C05": dict(
        text="Machine-checked proof (Coq): for each of the 22 parameter-list formats the library composes (PR OUT basic and REGISTER AND MOVE "
             "lists, TransportID header, EXTENDED COPY LID1/LID4 headers, CSCD and segment descriptors, mode parameter headers and pages) and "
             "EVERY valid dictionary, encoding with the library's table (REGENERATED) succeeds, has the format's length and a reader of the "
             "standard finds each supplied value at the standard's byte/bit position (encode_places_standard + decidable per-format condition). "
             "Every length-field store of every builder is REGENERATED (buffer, field bytes, base) and must equal Spec/ParamRules.v; such a store "
             "provably reads back as the number of bytes that follow, for every buffer. _pad4_len is REGENERATED as an arithmetic expression and "
             "proved to give a multiple of four with room for the terminator, for all name lengths. PARAMETER LIST LENGTH = len(data-out) is the "
             "C03 theorem on the regenerated constructors. All five commands are constructed for generated valid dictionaries on every run and "
             "their CDB / data-out read back by an independent standard decoder (all TransportID kinds, name lengths across padding boundaries, "
             "non-ASCII names, 0..3 CSCD / segment descriptors of every implemented type, 1..3 mode pages). The builder of the PERSISTENT RESERVE OUT lists and the iSCSI TransportID builder are REGENERATED as programs of the small Python "
             "(Gen/PyFuncs.v) and proved: REGISTER AND MOVE / REGISTER+SPEC_I_PT lists carry length fields equal to the TransportID bytes that follow, for any "
             "number of TransportIDs; the iSCSI TransportID of every ASCII name has an honest, four-aligned ADDITIONAL LENGTH and a NUL-terminated name (C05_py_*).",
        ref="DESIGN.md §4 C05",
        note="Trusted: Coq kernel + vm_compute; translator; Spec/RespFormats.v, Spec/ParamRules.v, tools/spec_params.py (my reading of SPC-4). "
             "Partial: how the builders concatenate descriptors (list assembly in marshall_parameter_list / marshall_dataout / the mode page loop) "
             "is decided by the constructed-command runs, not by a theorem; the MODE DATA LENGTH of MODE SELECT is accepted as 0 or honest.",
        technique="Coq proof by reflection over regenerated tables, length stores and padding helper + independent standard decoder runs"),
    "C06": dict(
        text="Machine-checked proof (Coq): the tables that a class both encodes and decodes, with the size of the buffer they are encoded "
             "into, are REGENERATED from /repo (39 pairs: INQUIRY standard data and VPD pages, all designator layouts, mode parameter headers "
             "and pages, READ CAPACITY 10/16, GET LBA STATUS, REPORT LUNS, RTPG, READ ELEMENT STATUS, REPORT PRIORITY, TransportID). For each "
             "pair well-formedness is decided by vm_compute and the general codec theorems give, for ALL valid dictionaries and ALL canonical "
             "byte strings: decode(build d) = d, build(decode b) = b byte for byte, and read-modify-write of one value changes only that "
             "field's bits (rmw_only_that_field). For GET LBA STATUS and REPORT LUNS the builder's length store and the decoder's list "
             "parameters (both regenerated) agree, and a generic theorem gives the list round trip for every number of descriptors. All 15 "
             "structures plus every TransportID and designator kind are round-tripped through the real parser/builder pairs on every run. Both directions of a list structure over the REGENERATED bodies of builder and decoder (Gen/PyFuncs.v under Model/Py.v): GET LBA STATUS "
             "built from any number of complete valid descriptor dictionaries has the standard layout with an honest PARAMETER DATA LENGTH, and decoding what was built "
             "returns the dictionaries whole and in order (C06_py_getlbastatus_build, C06_py_getlbastatus_parse_inverts_build; the same for REPORT LUNS, whose builder is proved to follow the order of the caller's list: C06_py_reportluns_*; "
             "for REPORT PRIORITY, whose descriptors carry their own length (C06_py_reportpriority_*), and for REPORT TARGET PORT GROUPS, a list of groups each with its own list of ports (C06_py_rtpg_*: any number of groups and ports, both header formats); every TransportID kind of fixed size "
             "(FC, SBP, SRP, SAS, SOP) and the iSCSI TransportID (TPID format 00b, every ASCII name) decode to what they were built from (C06_py_transport_id_*, C06_py_iscsi_transport_id_round_trip)). Rebuilds are also run with the keys of every "
             "dictionary reversed / shuffled, with 10..130 list entries, and with UTF-8 names.",
        ref="DESIGN.md §4 C06",
        note="Trusted: Coq kernel + vm_compute; translator; the canonical-response generator tools/spec_resp.py. Partial: how builders and "
             "parsers of the nested structures (designators, RTPG groups, READ ELEMENT STATUS pages, mode page lists) assemble their parts is "
             "decided by the implementation round-trip runs, not by a theorem. Known finding: mode parameter block descriptors are dropped.",
        technique="Coq proof (codec laws + read-modify-write theorem instantiated on regenerated encode/decode table pairs) + implementation round trips"),
    "C10": dict(
        text="Machine-checked proof (Coq 8.16.1) of the codec laws for every buffer size, every contiguous mask at any "
             "alignment, every offset, every in-range value, every field order and arbitrary prior contents "
             "(13 theorems in coq/Properties/C10.v, closed under the global context) about a Gallina model of "
             "pyscsi/utils/converter.py; and that model IS what the source computes: the four functions of converter.py are REGENERATED "
             "on every run into programs of a deep embedding of their Python fragment (Gen/PyConv.v, semantics Model/Py.v) and proved, "
             "for every value / width / byte string / well-formed layout / dictionary, to return exactly what the model returns "
             "(C10_py_int_to_ba, C10_py_ba_to_int, C10_py_decode_bits, C10_py_encode_dict; all 143 regenerated tables are in the theorems' "
             "scope, C10_py_every_table_in_scope). The Python semantics and the hand model are also run against the real functions on "
             ">= 6600 generated cases incl. malformed ones, and the laws themselves are re-checked on the implementation on every run.",
        ref="DESIGN.md §0.1b, §3.2, §4 C10",
        note="Trusted: Coq kernel + vm_compute; the translator tools/translate_py.py (fail-closed; four documented rewrites; decorators are "
             "unknown) and the hand-written semantics of the small Python (Model/Py.v), both tied to CPython by the correspondence runs "
             "(generator quality bounds them); CPython int/bytearray/slice semantics as transcribed. The decode / encode theorems are stated "
             "for tables whose masks are non-zero and at most 4096 bits wide with b/w/dw blobs and distinct names, dictionaries with "
             "distinct keys, byte buffers; outside that the correspondence run decides. No axioms (Print Assumptions: closed).",
        technique="Coq proof by bit-extensionality over a codec model + Coq refinement proof from the regenerated source (deep embedding) to that model + vm_compute correspondence"),
    "C14": dict(
        text="Complete enumeration inside the Coq kernel (vm_compute, lifted to quantified statements by forallb_forall) of every "
             "entry of the five opcode tables, their service-action tables and the status table REGENERATED from "
             "scsi_enum_command.py on every run, against a hand-written T10 table (Spec/T10Opcodes.v, Spec/SAM.v); consistency of "
             "names across sets; init_cdb's range table (regenerated from scsi_command.py) equals the SAM group rule for all 256 "
             "operation codes. Finite domains, exhaustive, bounds in the statements. The tables are judged a second time as a caller finds them AFTER the library was used in the process (a facade attached and re-attached to devices of all 32 "
             "peripheral device types x 5 fillings of the other INQUIRY bytes, every facade method called once). A name is looked up as an ordinary attribute of class Enum, whose members are compared as syntax trees with the modelled text on every run "
             "(C14_lookup_is_the_table: no __getattr__ fallback), and every name some set lists, in every CDB size variant, is looked up in every set that does NOT list it: it must fail or give the T10 value of that name. "
             "The table every ATTACHED device object carries (all 32 types) is dumped and judged like the shared sets; before that the application makes its own OpCode objects with listed names / values and changes them through the setters.",
        ref="DESIGN.md §4 C14",
        note="Trusted: Coq kernel + vm_compute; the translator (validated against runtime reflection of the Enum objects on every run); "
             "Spec/T10Opcodes.v and Spec/SAM.v (my transcription of T10's assignments); 8-line hand model of the range-table "
             "semantics tied by exhaustive correspondence over 0..255.",
        technique="Coq proof by reflection (vm_compute over regenerated tables vs. T10 spec) + exhaustive correspondence"),
    "C18": dict(
        text="Machine-checked refinement proof (Coq): for all initial mappings and ALL sequences of add/remove/lookup/reverse-lookup/keys "
             "operations the Enum metaclass answers exactly like an ordinary insertion-ordered dictionary (simulation by induction over the "
             "operation list), under a decidable condition on the `keys` filter REGENERATED from enum.py (it lists a name iff it is not a "
             "dunder name, for every kind of value). The operations are a hand model tied by a correspondence run over 3 live enumerations "
             "with ints, strings, dicts, OpCode objects, functions, classes and bound methods; the implementation is also compared with a real dict. class Enum has exactly the members the model was written for, each with exactly that text "
             "(compared as syntax trees on every run, C18_enum_class_is_the_modelled_text).",
        ref="DESIGN.md §4 C18",
        note="Trusted: Coq kernel; translator for the filter expression; hand model of __new__/add/remove/__getitem__ (correspondence); "
             "names beginning with '__' and the metaclass's own attribute names are outside the quantifier (names_ok, stated).",
        technique="Coq simulation proof (induction over histories) over a partly regenerated model + vm_compute correspondence"),
}

NOT_YET = "not yet built in this round (machinery under construction); see DESIGN.md §4 for the planned Coq model and theorems"


def main():
    checks = []
    for pid in ALL:
        if pid not in CLAIMED:
            continue
        c = CLAIMED[pid]
        checks.append(dict(
            property_id=pid,
            quick_cmd="./check %s --tier quick" % pid,
            thorough_cmd="./check %s --tier thorough" % pid,
            evidence_file="/verif/evidence/%s.json" % pid,
            replay_cmd_template="./check %s --replay {path}" % pid,
            engine="coq-proof+correspondence",
            level_claimed=dict(category="proof", text=c["text"], design_ref=c["ref"]),
            level_note=c["note"],
            technique=c["technique"]))
    m = dict(
        version=1,
        setup_cmd="./setup.sh",
        hooks=dict(guard="ROSJAT_PYTHON_SCSI_VERIF", enable="no source hooks are installed; checks export ROSJAT_PYTHON_SCSI_VERIF=1 for the implementation drivers anyway",
                   baseline_off_cmd="cd /repo && env -u ROSJAT_PYTHON_SCSI_VERIF /venv/bin/python -m pytest -ra -q -p no:cacheprovider --timeout=900 --continue-on-collection-errors",
                   source_commits=[], add_only=True),
        engines=[dict(name="coq-proof+correspondence", path="/verif/check",
                      serves_properties=sorted(CLAIMED),
                      kind_free_text="Coq 8.16.1 theorems over a model that is partly regenerated from /repo by tools/translate.py "
                                     "and partly hand-written and tied by vm_compute correspondence runs against the implementation")],
        checks=checks,
        notes="See DESIGN.md. Every check rebuilds coq/Gen from /repo's working tree, rebuilds the affected .vo files (full build, no -vos), "
              "re-runs Print Assumptions and the correspondence suites, and writes evidence/<id>.json.",
        not_applicable=[dict(property_id=p, reason=NOT_YET) for p in ALL if p not in CLAIMED])
    with open(os.path.join(VERIF, "MANIFEST.json"), "w") as f:
        json.dump(m, f, indent=1)
    print("MANIFEST.json: %d checks, %d not claimed" % (len(checks), len(m["not_applicable"])))


if __name__ == "__main__":
    main()
