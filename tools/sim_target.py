"""A standards-conformant direct-access block target (SBC-3 / SPC-4), written from the standards' CDB layouts and
NOT from the library's tables: the Python twin of coq/Spec/Target.v, used as the device behind the substituted
sgio / iscsi bindings (C12) and as the oracle of what a history of writes leaves on the medium."""

ILLEGAL_REQUEST = bytes([0x70, 0, 0x05, 0, 0, 0, 0, 10, 0, 0, 0, 0, 0x24, 0x00, 0, 0, 0, 0])


def rd(cdb, byte, msb, width):
    """the field of `width` bits whose most significant bit is bit `msb` of byte `byte` (MSB first)"""
    lo = 8 * (len(cdb) - byte - 1) + msb + 1 - width
    return (int.from_bytes(cdb, "big") >> lo) & ((1 << width) - 1)


class Target(object):
    def __init__(self, bs, nblk, ident=None):
        self.bs, self.nblk = bs, nblk
        self.ident = bytes(ident) if ident is not None else bytes(36)
        self.blocks = {}           # lba -> bytes (absent: zeros)
        self.log = []              # CDBs received
        self.ua = []               # pending unit attention conditions (sense bytes): SAM-5 5.14 — the next command other than INQUIRY /
        self.ua_log = []           # REPORT LUNS / REQUEST SENSE is terminated with CHECK CONDITION and NOT performed; one condition per command

    def block(self, a):
        return self.blocks.get(a, bytes(self.bs))

    def read(self, lba, tl):
        if lba + tl > self.nblk:
            return None
        return b"".join(self.block(a) for a in range(lba, lba + tl))

    def write(self, lba, tl, data):
        if lba + tl > self.nblk or len(data) != tl * self.bs:
            return None
        for i in range(tl):
            self.blocks[lba + i] = bytes(data[i * self.bs:(i + 1) * self.bs])
        return b""

    def write_same(self, lba, nb, blk):
        if nb < 1 or lba + nb > self.nblk or len(blk) != self.bs:
            return None
        for i in range(nb):
            self.blocks[lba + i] = bytes(blk)
        return b""

    def execute(self, cdb, dataout):
        """-> bytes (GOOD, data-in) or None (CHECK CONDITION)"""
        cdb = bytes(cdb)
        dataout = bytes(dataout) if dataout is not None else b""
        self.log.append(cdb)
        if self.nblk < 1 or len(cdb) == 0:
            return None
        opc, n = cdb[0], len(cdb)
        if (opc, n) == (0x28, 10):
            return self.read(rd(cdb, 2, 7, 32), rd(cdb, 7, 7, 16))
        if (opc, n) == (0xA8, 12):
            return self.read(rd(cdb, 2, 7, 32), rd(cdb, 6, 7, 32))
        if (opc, n) == (0x88, 16):
            return self.read(rd(cdb, 2, 7, 64), rd(cdb, 10, 7, 32))
        if (opc, n) == (0x2A, 10):
            return self.write(rd(cdb, 2, 7, 32), rd(cdb, 7, 7, 16), dataout)
        if (opc, n) == (0xAA, 12):
            return self.write(rd(cdb, 2, 7, 32), rd(cdb, 6, 7, 32), dataout)
        if (opc, n) == (0x8A, 16):
            return self.write(rd(cdb, 2, 7, 64), rd(cdb, 10, 7, 32), dataout)
        if (opc, n) == (0x41, 10):
            return self.write_same(rd(cdb, 2, 7, 32), rd(cdb, 7, 7, 16), dataout)
        if (opc, n) == (0x93, 16):
            if rd(cdb, 1, 0, 1) == 1:
                if len(dataout):
                    return None
                return self.write_same(rd(cdb, 2, 7, 64), rd(cdb, 10, 7, 32), bytes(self.bs))
            return self.write_same(rd(cdb, 2, 7, 64), rd(cdb, 10, 7, 32), dataout)
        if (opc, n) == (0x35, 10):
            return b"" if rd(cdb, 2, 7, 32) + rd(cdb, 7, 7, 16) <= self.nblk else None
        if (opc, n) == (0x91, 16):
            return b"" if rd(cdb, 2, 7, 64) + rd(cdb, 10, 7, 32) <= self.nblk else None
        if (opc, n) == (0x25, 10):
            return min(self.nblk - 1, 0xFFFFFFFF).to_bytes(4, "big") + self.bs.to_bytes(4, "big")
        if (opc, n) == (0x9E, 16):
            if rd(cdb, 1, 4, 5) != 0x10:
                return None
            return ((self.nblk - 1).to_bytes(8, "big") + self.bs.to_bytes(4, "big") + bytes(20))[:rd(cdb, 10, 7, 32)]
        if (opc, n) == (0x12, 6):
            if rd(cdb, 1, 0, 1) != 0:
                return None
            return self.ident[:rd(cdb, 3, 7, 16)]
        return None

    # the hooks of the substituted bindings
    def take_ua(self, cdb):
        if self.ua and bytes(cdb)[:1] not in (b"\x12", b"\xa0", b"\x03"):
            self.log.append(bytes(cdb))
            self.ua_log.append(len(self.log) - 1)
            return self.ua.pop(0)
        return None

    def sgio_device(self, cdb, dataout, datain):
        u = self.take_ua(cdb)
        if u is not None:
            return ("cc", u)
        r = self.execute(cdb, dataout)
        return ("cc", ILLEGAL_REQUEST) if r is None else ("fill", r)

    def iscsi_device(self, cdb, dataout, datain):
        u = self.take_ua(cdb)
        if u is not None:
            return (2, u, None)
        r = self.execute(cdb, dataout)
        return (2, ILLEGAL_REQUEST, None) if r is None else (0, None, r)
