#!/usr/bin/env python3
"""Runner:  check.py <PID> [--tier quick|thorough] [--replay file]

translate /repo -> coq/Gen, build the property's theorems (full .vo build), run the correspondence
suites of the hand-modelled units the property depends on, write evidence/<PID>.json, print
KNOWN-FINDING / VIOLATION lines, exit 0/1."""
import argparse
import importlib
import json
import os
import sys
import traceback

HERE = os.path.dirname(os.path.abspath(__file__))
sys.path.insert(0, HERE)
import vlib  # noqa: E402


def main():
    ap = argparse.ArgumentParser()
    ap.add_argument("pid")
    ap.add_argument("--tier", default=os.environ.get("VERIF_TIER", "quick"), choices=["quick", "thorough"])
    ap.add_argument("--replay")
    a = ap.parse_args()
    seed = int(os.environ.get("VERIF_SEED", "20260929"))
    mod = importlib.import_module("props.%s" % a.pid)
    if a.replay:
        obj = json.load(open(a.replay))
        ok, msg = mod.replay(obj)
        print(msg)
        if not ok:
            print("VIOLATION property=%s replay=%s" % (a.pid, a.replay))
        sys.exit(0 if ok else 1)
    rep = vlib.Report(a.pid, a.tier, seed)
    try:
        with vlib.Lock():
            summary, tmsg = vlib.translate()
        rep.extra["translator"] = tmsg
        mod.run(rep, a.tier, seed, summary)
    except Exception as e:  # machinery failure: the property is not shown to hold
        tb = traceback.format_exc()
        sys.stderr.write(tb)
        rep.oblig("runner", False, tb[-1500:])
        rep.violation("the check itself failed to run: %s" % e, dict(kind="runner-error", traceback=tb[-3000:]), False)
    sys.exit(rep.finish())


if __name__ == "__main__":
    main()
