"""C15 — commands never go through a stale device handle; handles are released."""
import os
import re

import vlib
from corr import device as corr_device

PID = "C15"


def replay(obj):
    if obj.get("kind") != "c15-events":
        return False, "replay names a broken obligation, not an input: %s" % obj.get("what")
    r = vlib.run_impl("corr/device.py", [obj["case"]], args=["--impl"], extra_path=[os.path.join(vlib.TOOLS, "stubs")])[0]
    why = corr_device.oracle(obj["case"], r)
    return why is None, ("on the implementation: %s" % (why or "no command through a stale handle; handles released"))


def run(rep, tier, seed, summary):
    rep.assumptions.append("file system: a re-created node has a new inode, os.stat of a missing node raises OSError, closing a closed file "
                           "object is a no-op; inode reuse and the stat/open race are outside the model")
    ok, log = vlib.build_property(rep, PID)
    vlib.grep_gate(rep)
    if ok:
        vlib.print_assumptions(rep, PID)
    bad, cases, results = corr_device.run(rep, tier, seed)
    known = {k["id"]: k for k in vlib.load_known() if k.get("property") == PID and k.get("status") == "known"}
    hits, seen = [], set()
    for c, r in sorted(zip(cases, results), key=lambda cr: len(cr[0]["events"])):
        why = corr_device.oracle(c, r)
        if why:
            sig = re.sub(r"#?\d+|\[.*?\]", "N", why)
            if sig not in seen:
                seen.add(sig)
                hits.append(dict(kind="c15-events", id=sig, case=c, observed=why))
    new = [h for h in hits if h["id"] not in known]
    for h in hits:
        if h["id"] in known:
            rep.known("%s (%s)" % (known[h["id"]]["what"], h["id"]))
    for h in new[:6]:
        rep.violation(h["observed"], h, True)
    all_ok = ok and not bad and all(o[1] for o in rep.obligations)
    if not new and not all_ok:
        rep.violation("no longer shown to hold: " + "; ".join(n for n, okk, _ in rep.obligations if not okk),
                      dict(kind="broken-obligation", obligations=[o for o in rep.obligations if not o[1]],
                           mismatching_cases=bad[:3]), False)
