"""C11 — decoding device data always terminates, whatever the bytes."""
import random

import vlib

PID = "C11"
NAMES = ["getlbastatus", "inquiry_std", "inquiry_vpd", "modesense6", "modesense10", "prin_keys", "prin_resv", "prin_caps", "prin_full",
         "readcapacity10", "readcapacity16", "readcd", "readcd_bare", "readcd_userdata", "readcd_rawsub", "readcd_m2", "readdiscinfo", "readelementstatus", "reportluns", "reportpriority", "rtpg", "sense"]
VPD = [0x00, 0x80, 0x83, 0x86, 0x89, 0xB0, 0xB1, 0xB2, 0xB3]


def gen_inputs(seed, tier):
    rng = random.Random(seed ^ 0xC11)
    cases = []
    per = 120 if tier == "quick" else 2500
    lens = [0, 1, 2, 3, 4, 7, 8, 9, 12, 16, 24, 32, 33, 64, 96, 255, 512, 2048]
    vals = [0, 1, 2, 3, 4, 7, 8, 16, 0x7F, 0x80, 0xFE, 0xFF]
    for name in NAMES:
        for _ in range(per):
            n = rng.choice(lens)
            kind = rng.random()
            if kind < 0.35:
                b = [rng.choice(vals) for _ in range(n)]         # every length / count field small, zero or maximal
            elif kind < 0.6:
                b = [rng.randint(0, 255) for _ in range(n)]
            elif kind < 0.8:
                b = [0] * n
                for _k in range(rng.randint(1, 4)):
                    if n:
                        b[rng.randrange(n)] = rng.choice(vals)
            else:
                b = [0xFF] * n
                for _k in range(rng.randint(1, 4)):
                    if n:
                        b[rng.randrange(n)] = rng.choice([0, 1, 4, 8])
            if name == "inquiry_vpd" and n >= 2:
                b[1] = rng.choice(VPD)
            if name == "sense" and n >= 1:
                b[0] = rng.choice([0x70, 0x71, 0x72, 0x73, b[0]])
            cases.append([name, b])
        # systematic: headers announcing a non-empty list whose inner length fields are zero
        for total in (16, 32, 64):
            for fill in (0, 1, 0xFF):
                b = [fill] * total
                for pos in range(0, 12):
                    for v in (0, total - 8 if total > 8 else 0, 8, 16):
                        bb = list(b)
                        if pos < total:
                            bb[pos] = v & 0xFF
                        cases.append([name, bb])
    return cases


def run_impl(cases):
    out = []
    CH = 4000
    for i in range(0, len(cases), CH):
        out += vlib.run_impl("corr/terminate_impl.py", cases[i:i + CH], timeout=1200)
    return out


def text_inputs(seed, tier):
    """responses that carry TEXT the decoders take apart (iSCSI TransportIDs in READ FULL STATUS, SCSI name string designators): long
    runs of name characters, well-formed and broken separators / tails — the inputs on which text matching may do super-linear work"""
    rng = random.Random(seed ^ 0x7E87)
    texts = []
    for prefix in ("iqn.", "eui.", "naa.", "iqn.2001-04.com.", ""):
        for n in (8, 16, 24, 26):
            for tail in ("", ",i,0x", ",i,0x12zz", ",i,0x000000000000!", ",I,0x1234", ",i,0x" + "f" * 12, "\x80", ":" + "-" * 6):
                texts.append(prefix + rng.choice("ab0_-") * n + tail)
    rng.shuffle(texts)
    texts = texts[:60 if tier == "quick" else len(texts)]
    cases = []
    for t in texts:
        raw = t.encode("latin-1") + b"\0"
        raw += b"\0" * (-len(raw) % 4)
        for fmt in (0, 1):
            tid = bytes([(fmt << 6) | 5, 0]) + len(raw).to_bytes(2, "big") + raw
            desc = bytes(8) + bytes(4) + bytes([1, 0x15]) + bytes(4) + (1).to_bytes(2, "big") + len(tid).to_bytes(4, "big") + tid
            cases.append(["prin_full", list((7).to_bytes(4, "big") + len(desc).to_bytes(4, "big") + desc)])
        des = bytes([0x53, 0x08, 0, len(raw)]) + raw                  # code set UTF-8, designator type 8 (SCSI name string)
        cases.append(["inquiry_vpd", list(bytes([0, 0x83]) + len(des).to_bytes(2, "big") + des)])
    # descriptor-format sense data whose descriptors nest (forwarded sense data, type 0Ch, carrying descriptor-format sense again), with
    # honest and with over-long inner lengths: a decoder that re-reads overlapping parts does exponential work on these
    for k in (2, 5, 10, 20, 30, 40):
        for inner_len in (0x04, 0xFF, 0x20):
            body = bytes([0x0C, 0x04, 0xFF, 0xFF, 0x72, inner_len]) * k
            for rc in (0x72, 0x73):
                cases.append(["sense", list((bytes([rc, 0x05, 0x24, 0x00, 0, 0, 0, min(len(body), 244)]) + body)[:252])])
    return cases


def run_timed(cases, budget=8.0):
    """CPU time per call, each batch in its own process under a deadline; a batch that misses it is halved until the call that does not
    come back is found (work inside C code cannot be interrupted from within)"""
    if not cases:
        return []
    try:
        return vlib.run_impl("corr/terminate_impl.py", cases, args=["--timed"], timeout=int(budget + 0.02 * len(cases) + 5))
    except Exception:  # noqa
        if len(cases) == 1:
            return [["timeout", budget]]
        h = len(cases) // 2
        return run_timed(cases[:h], budget) + run_timed(cases[h:], budget)


def replay(obj):
    if obj.get("kind") == "c11-time":
        r = run_timed([[obj["decoder"], obj["buffer"]]])[0]
        bad = r[0] in ("timeout", "budget") or r[1] > 1.0
        return not bad, "decoder %s on the %d-byte buffer: %s, %.2f s of CPU time" % (obj["decoder"], len(obj["buffer"]), r[0], r[1])
    if obj.get("kind") != "c11-buffer":
        return False, "replay names a broken obligation, not an input: %s" % obj.get("what")
    r = run_impl([[obj["decoder"], obj["buffer"]]])[0]
    return r[0] != "budget", "decoder %s on the %d-byte buffer: %s after %d source lines (budget %d)" % (
        obj["decoder"], len(obj["buffer"]), r[0], r[1], r[2])


def run(rep, tier, seed, summary):
    ok, log = vlib.build_property(rep, PID)
    vlib.grep_gate(rep)
    if ok:
        vlib.print_assumptions(rep, PID)
    cases = gen_inputs(seed, tier)
    results = run_impl(cases)
    over = [(c, r) for c, r in zip(cases, results) if r[0] == "budget"]
    worst = {}
    for c, r in zip(cases, results):
        if r[0] != "budget":
            ratio = r[1] / (len(c[1]) + 60.0)
            worst[c[0]] = max(worst.get(c[0], 0), round(ratio, 2))
    dist = {}
    for r in results:
        dist[r[0]] = dist.get(r[0], 0) + 1
    rep.suite("every decoder under a linear source-line budget (1500 lines/byte + 5000) on malformed buffers (length/count fields 0, 1, max, inconsistent; random; truncated)",
              len(cases), 0, distinct=len({(c[0], tuple(c[1])) for c in cases}),
              samples=[dict(decoder=cases[0][0], buffer=cases[0][1], result=results[0])],
              distribution=dict(outcomes=dist, worst_lines_per_byte=worst, loop_skeletons=summary["loops"]["loops"]))
    known = {k["id"]: k for k in vlib.load_known() if k.get("property") == PID and k.get("status") == "known"}
    hits, seen = [], set()
    for c, r in sorted(over, key=lambda cr: len(cr[0][1])):
        if c[0] not in seen:
            seen.add(c[0])
            hits.append(dict(kind="c11-buffer", id="%s does not terminate within the linear budget" % c[0], decoder=c[0], buffer=c[1],
                             observed="%s on a %d-byte buffer: still running after %d source lines (budget %d)" % (c[0], len(c[1]), r[1], r[2])))
    # CPU time (no tracer): the malformed stream again plus the text-bearing responses
    tcases = text_inputs(seed, tier) + cases[::7 if tier == "quick" else 2]
    tres = []
    for i in range(0, len(tcases), 25):         # in slices: two calls that do not come back are enough to report, the rest is skipped
        if sum(1 for r in tres if r[0] in ("timeout", "budget") or r[1] > 1.0) >= 2:
            tres += [["skipped", 0.0]] * len(tcases[i:i + 25])
        else:
            tres += run_timed(tcases[i:i + 25])
    slow = [(c, r) for c, r in zip(tcases, tres) if r[0] in ("timeout", "budget") or r[1] > 1.0]
    rep.suite("every decoder under a CPU-time budget (1 s per call on buffers of at most 2 KiB; each batch in its own process under a deadline): "
              "the malformed stream and responses carrying text (iSCSI TransportIDs, SCSI name strings: long runs, broken separators)",
              len(tcases), len(slow), samples=[dict(decoder=tcases[0][0], buffer=tcases[0][1][:48])],
              distribution=dict(max_cpu_seconds=max([r[1] for r in tres] or [0]), text_cases=len(tcases) - len(cases[::7 if tier == "quick" else 2])))
    for c, r in sorted(slow, key=lambda cr: len(cr[0][1])):
        if ("t", c[0]) not in seen:
            seen.add(("t", c[0]))
            hits.append(dict(kind="c11-time", id="%s does not come back within the time budget" % c[0], decoder=c[0], buffer=c[1],
                             observed="%s on a %d-byte buffer: %s after %.1f s of CPU time (linear work on that many bytes takes milliseconds)" % (
                                 c[0], len(c[1]), "did not return" if r[0] == "timeout" else r[0], r[1])))
    new = [h for h in hits if h["id"] not in known]
    for h in hits:
        if h["id"] in known:
            rep.known("%s (%s)" % (known[h["id"]]["what"], h["id"]))
    for h in new[:6]:
        rep.violation(h["observed"], h, True)
    all_ok = ok and all(o[1] for o in rep.obligations)
    if not new and not all_ok:
        rep.violation("no longer shown to hold: " + "; ".join(n for n, okk, _ in rep.obligations if not okk),
                      dict(kind="broken-obligation", obligations=[o for o in rep.obligations if not o[1]],
                           loops=summary["loops"]), False)
