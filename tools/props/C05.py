"""C05 — parameter lists sent to the device have the standard layout and honest lengths."""
import os
import random
import re

import vlib
import spec_params

PID = "C05"
T_BASIC = "scsi_cdb_persistentreserveout.PersistentReserveOut._basic_parameter_list_bits"
T_RAM = "scsi_cdb_persistentreserveout.PersistentReserveOut._ram_parameter_list_bits"


def impl(payload):
    return vlib.run_impl("corr/params_impl.py", payload, timeout=900)


def replay(obj):
    if obj.get("kind") != "c05-params":
        return False, "replay names a broken obligation, not an input: %s" % obj.get("what")
    res = impl(dict(seed=obj["seed"], n_each=obj["n_each"]))
    r = res[obj["index"]]
    return r["why"] is None, "on the implementation: %s %s" % (r["kind"], r["why"] or "standard layout, honest lengths")


def run(rep, tier, seed, summary):
    rep.assumptions.append("Spec/RespFormats.v (= tools/spec_formats.py), Spec/ParamRules.v and the decoder in tools/spec_params.py are my reading "
                           "of SPC-4 6.4/6.5 (EXTENDED COPY), 6.16 (PERSISTENT RESERVE OUT), 7.5 (mode parameters), 7.6.4 (TransportIDs)")
    vlib.validate_translator(rep, summary, parts=("tables",))
    ok, log = vlib.build_property(rep, PID)
    vlib.grep_gate(rep)
    if ok:
        vlib.print_assumptions(rep, PID)
    n_each = 30 if tier == "quick" else 200
    res = impl(dict(seed=seed, n_each=n_each))
    cases = spec_params.cases(random.Random(seed), n_each)
    known = {k["id"]: k for k in vlib.load_known() if k.get("property") == PID and k.get("status") == "known"}
    hits, seen, nbad = [], set(), 0
    kinds = {}
    for r in res:
        kinds[r["kind"]] = kinds.get(r["kind"], 0) + 1
        if r["why"]:
            nbad += 1
            sig = "%s: %s" % (r["kind"], re.sub(r"0x[0-9a-f]+|\d+|[0-9a-f]{8,}", "N", r["why"]))
            if sig not in seen:
                seen.add(sig)
                c = cases[r["i"]]
                hits.append(dict(kind="c05-params", id=sig, seed=seed, n_each=n_each, index=r["i"], command=r["kind"],
                                 arguments=repr(dict(pos=c["pos"], kw=c["kw"]))[:1500], observed=r["why"]))
    rep.suite("valid parameter dictionaries (MODE SELECT 6/10, PR OUT basic / SPEC_I_PT / REGISTER AND MOVE with all TransportID kinds, "
              "EXTENDED COPY LID1/LID4 with 0..3 CSCD and segment descriptors) built by the real constructors and read back at the standard's positions",
              len(res), 0, samples=[dict(command=res[0]["kind"], dataout=res[0].get("dataout", [])[:32])],
              distribution=dict(per_command=kinds, failing=nbad,
                                with_transport_id_lists=sum(1 for c in cases if c["kind"] == "prout_basic" and c["kw"].get("transport_ids")),
                                xcopy_with_descriptors=sum(1 for c in cases if c["kind"].startswith("xcopy") and (c["kw"].get("segment_descriptor_list")))))
    # the regenerated builder bodies (the subject of the C05_py_* theorems) under Model/Py.v against the real functions
    from corr import pyfuncs
    pybad, _pc, _pr = pyfuncs.run(rep, tier, seed, summary)
    if pybad:
        rep.oblig("correspondence:regenerated builder / decoder bodies (Gen/PyFuncs.v under Model/Py.v) agree with the implementation", False,
                  "; ".join("%s: implementation %s" % ((b.get("case") or {}).get("fn"), str(b.get("impl"))[:120]) for b in pybad[:3]))
    # model vs code: the PR OUT lists are encode_dict over the regenerated tables; _pad4_len is the regenerated expression
    with vlib.Lock():
        vlib.coq_make(["Model/ParserInst.vo", "Model/CorrUtil.vo", "Gen/Builders.vo"])
    lines = []
    for c, r in zip(cases, res):
        if "exn" in r:
            continue
        if c["kind"] == "prout_basic" and not c["kw"].get("spec_i_pt"):
            d = {k: v for k, v in c["kw"].items() if isinstance(v, int) and k not in ("scope", "pr_type")}
            lines.append('("%s", %d%%nat, [%s], %s)' % (T_BASIC, 24, "; ".join('("%s", VI %d)' % kv for kv in d.items()), vlib.cbytes(r["dataout"][:24])))
        if c["kind"] == "prout_register_and_move":
            d = {k: v for k, v in c["kw"].items() if isinstance(v, int)}
            d["transportid_length"] = len(r["dataout"]) - 24
            lines.append('("%s", %d%%nat, [%s], %s)' % (T_RAM, 24, "; ".join('("%s", VI %d)' % kv for kv in d.items()), vlib.cbytes(r["dataout"][:24])))
    pads = vlib.run_impl("corr/params_impl.py", dict(pad=list(range(0, 260))), timeout=120) if False else None
    text = ("From Coq Require Import String.\nFrom PS Require Import Base.Bytes Base.Result Model.Converter Model.CorrUtil Model.ParserInst Gen.Tables Gen.Builders.\n"
            "Open Scope string_scope. Open Scope N_scope.\n"
            "Definition cases : list (string * nat * list (string * value) * bytes) := [\n  %s].\n"
            "Definition chk (c : string * nat * list (string * value) * bytes) : bool :=\n"
            "  let '(t, n, d, exp) := c in match lookup t all_tables with Some L => result_eqb bytes_eqb (encode_dict d L (zeros n)) (Ok exp) | None => false end.\n"
            "Eval vm_compute in (mismatches chk cases).\n"
            "Eval vm_compute in (mismatches (fun n => pad4_len n =? (if (n + 1) mod 4 =? 0 then n + 1 else ((n + 1) / 4 + 1) * 4)) (map N.of_nat (seq 0 300))).\n"
            % ";\n  ".join(lines))
    rc, out = vlib.coqc_text("cases_params", text)
    import re as _re
    flat = _re.sub(r"\s+", " ", out)
    lists = _re.findall(r"= (\[[^\]]*\]|nil) ?: list N", flat)
    bad = None
    if rc == 0 and len(lists) == 2:
        bad = [int(x) for x in _re.findall(r"\d+", lists[0])]
        padbad = [int(x) for x in _re.findall(r"\d+", lists[1])]
        rep.suite("PR OUT basic / REGISTER AND MOVE lists vs encode_dict over the regenerated tables", len(lines), len(bad))
        rep.oblig("pad4_len (regenerated from _pad4_len) is the next multiple of four above the name length, n = 0..299", not padbad, str(padbad[:5]))
    else:
        rep.oblig("correspondence:parameter cases compile", False, out[-600:])
    new = [h for h in hits if h["id"] not in known]
    for h in hits:
        if h["id"] in known:
            rep.known("%s (%s)" % (known[h["id"]]["what"], h["id"]))
    for h in new[:6]:
        rep.violation("%s: %s" % (h["command"], h["observed"]), h, True)
    all_ok = ok and all(o[1] for o in rep.obligations)
    if not new and not all_ok:
        rep.violation("no longer shown to hold: " + "; ".join(n for n, okk, _ in rep.obligations if not okk),
                      dict(kind="broken-obligation", obligations=[o for o in rep.obligations if not o[1]]), False)
