"""C09 — command objects are isolated from one another, in any order or interleaving."""
import os
import random

import vlib
import ctor_oracle

PID = "C09"


def specs_for(summary, rng):
    sp = ctor_oracle.specs()
    out = []
    sa = [[k, v] for k, v in ctor_oracle.sa_t10().items()]
    for ci in summary["ctors"]["ctors"]:
        if not ci.get("cls") or ci["key"] not in sp:
            continue
        if ci["cls"] in ("ModeSelect6", "ModeSelect10", "ExtendedCopy", "PersistentReserveOut"):
            continue
        params = ci["params"]
        nreq = len(params) - ci.get("ndefaults", 0)
        pos = []
        for p in params[:nreq]:
            if p == "data":
                pos.append(["b", [1, 2, 3, 4]])
            elif p == "blocksize":
                pos.append(["i", 512])
            elif p in ("tl", "nb", "count", "fetures"):
                pos.append(["i", rng.randint(1, 7)])
            elif p in ("t_length", "byte_block", "t_dir", "t_type", "off_line", "protocal"):
                pos.append(["i", {"t_length": 2, "byte_block": 1, "t_dir": 1, "t_type": 0, "off_line": 0, "protocal": 4}[p]])
            else:
                pos.append(["i", rng.randint(1, 200)])
        out.append(dict(key=ci["key"], stem=ci["stem"], cls=ci["cls"], op=ctor_oracle.natural_opcode(sp[ci["key"]]["len"]), sa=sa, pos=pos,
                        optional=[p for p in params[nreq:]]))
    return out


def build_input(summary, seed, tier):
    rng = random.Random(seed ^ 0xC09)
    sp = specs_for(summary, rng)
    hists = []
    # all ordered pairs of classes, and a sample of triples
    for a in sp:
        for b in sp:
            hists.append([a, b])
    for _ in range(300 if tier == "quick" else 5000):
        hists.append([rng.choice(sp) for _ in range(3)])
    rng.shuffle(hists)
    hists = hists[:700] if tier == "quick" else hists

    def variant(a):
        b = dict(a)
        b["pos"] = [[k, (v + 3 if k == "i" and isinstance(v, int) and v not in (512,) else v)] for k, v in a["pos"]]
        # ... and the optional arguments given explicitly (small values that fit every field; a class that refuses them is skipped)
        for p in a.get("optional", []):
            if p in ("data", "dataout", "datain", "blocksize"):
                break
            b["pos"] = b["pos"] + [["i", {"alloclen": 40, "alloc_len": 40, "lba": 19, "tl": 3}.get(p, 1)]]
        b["variant"] = True
        return b
    # every class against ITSELF with other argument values (a second command of the same class, built in between)
    for a in sp:
        hists.append([a, variant(a)])
        hists.append([a, variant(a), a])
    byname = {s["cls"]: s for s in sp}
    pairs = []
    for a, b in (("Read10", "Inquiry"), ("Read16", "Write10"), ("Inquiry", "Read16"), ("TestUnitReady", "ReadCapacity16")):
        if a in byname and b in byname:
            pairs.append(dict(a=byname[a], b=byname[b], stride=1, max_schedules=400 if tier == "quick" else 20000))
    cold = []
    for a in ("Read10", "Write16", "Inquiry", "PersistentReserveInReadFullStatus", "ReadElementStatus"):
        if a in byname:
            b = dict(byname[a])
            b["pos"] = [[k, (v + 3 if k == "i" and isinstance(v, int) and byname[a]["pos"][n][1] not in (512,) else v)] for n, (k, v) in enumerate(b["pos"])]
            cold.append(dict(a=byname[a], b=b, stride=1 if tier == "quick" else 1))
    return dict(histories=hists, pairs=pairs, cold_pairs=cold, seed=seed, n_decode=3 if tier == "quick" else 12,
                n_param_hist=4 if tier == "quick" else 40)


def run_impl(inp):
    return vlib.run_impl("corr/isolation_impl.py", inp, timeout=1200)


def findings(inp, res):
    hits = []
    for h, r in zip(inp["histories"], res["sequential"]):
        if r:
            hits.append(dict(kind="c09-history", id="sequential: constructing another command changes what a command's class decodes/encodes",
                             history=[dict(x) for x in h[:r["after"] + 1]], observed="command %d (%s) observed alone %s, after constructing command %d (%s): %s" % (
                                 r["victim"], h[r["victim"]]["cls"], str(r["alone"])[:160], r["after"], h[r["after"]]["cls"], str(r["in_context"])[:160])))
            break
    for p, r in zip(inp["pairs"], res["threads"]):
        if r["bad"]:
            hits.append(dict(kind="c09-schedule", id="schedule: two threads building commands concurrently get a CDB of the other's layout/length",
                             pair=p, schedule=dict(a_lines=r["bad"]["a_lines"], b_lines=r["bad"]["b_lines"]),
                             observed="thread A runs %d lines, thread B %d lines, then both finish: %s instead of %s" % (
                                 r["bad"]["a_lines"], r["bad"]["b_lines"], str(r["bad"]["interleaved"])[:200], str(r["bad"]["alone"])[:200])))
            break
    if res.get("cdb_fresh"):
        hits.append(dict(kind="c09-cdb-fresh", id="CDB decode / encode results are shared between calls (a caller's change shows up in a later result)",
                         observed=res["cdb_fresh"]))
    dec = res.get("decode") or {}
    if dec.get("bad"):
        hits.append(dict(kind="c09-decode", id="decode: decoding a response changes (or aliases) the result an earlier decode returned",
                         observed=dec["bad"]["what"]))
    for p, r in zip(inp.get("cold_pairs", []), res.get("cold", [])):
        if r["bad"]:
            hits.append(dict(kind="c09-cold", id="first use: two threads using one command class for the first time in the process interfere",
                             pair=p, schedule=dict(a_lines=r["bad"]["a_lines"]),
                             observed="first use of %s in the process: thread A runs %d lines, thread B builds its command completely, A resumes: %s instead of %s" % (
                                 p["a"]["cls"], r["bad"]["a_lines"], str(r["bad"]["interleaved"])[:200], str(r["bad"]["alone"])[:200])))
            break
    if res.get("recycled"):
        hits.append(dict(kind="c09-recycled", id="a discarded command's data-in buffer reaches a later command", observed=res["recycled"]))
    ph = res.get("param_history")
    if ph:
        hits.append(dict(kind="c09-param-history", id="parameter-list command in a history changes what another class decodes / encodes",
                         seed=inp.get("seed"), n_param_hist=inp.get("n_param_hist"), case=ph["case"], corrupted=ph["corrupted"], observed=ph["what"]))
    for m in res["mutation"]:
        if m["changed"]:
            hits.append(dict(kind="c09-mutation", id="%s: the caller's segment descriptor dictionaries are modified" % m["name"], name=m["name"],
                             observed="before %s / after %s" % (m["before"], m["after"])))
    for d in res["determinism"]:
        if not d["same"]:
            hits.append(dict(kind="c09-mutation", id="%s: marshalling twice with equal inputs gives different bytes" % d["name"], name=d["name"],
                             observed="second parameter list differs from the first"))
    return hits


def replay(obj):
    summary, _ = vlib.translate()
    if obj.get("kind") == "c09-history":
        res = run_impl(dict(histories=[obj["history"]], pairs=[]))
        bad = res["sequential"][0]
        return bad is None, ("still interferes: %s" % str(bad)[:300] if bad else "no interference")
    if obj.get("kind") == "c09-schedule":
        res = run_impl(dict(histories=[], pairs=[obj["pair"]]))
        bad = res["threads"][0]["bad"]
        return bad is None, ("a schedule still interferes: %s" % str(bad)[:300] if bad else "no schedule interferes")
    if obj.get("kind") == "c09-cold":
        res = run_impl(dict(histories=[], pairs=[], cold_pairs=[obj["pair"]]))
        bad = res["cold"][0]["bad"]
        return bad is None, ("a first-use schedule still interferes: %s" % str(bad)[:300] if bad else "no first-use schedule interferes")
    if obj.get("kind") == "c09-decode":
        res = run_impl(dict(histories=[], pairs=[], seed=int(os.environ.get("VERIF_SEED", "20260929")), n_decode=3))
        bad = (res.get("decode") or {}).get("bad")
        return bad is None, ("still: %s" % bad["what"] if bad else "decoded results are isolated")
    if obj.get("kind") == "c09-cdb-fresh":
        summary, _ = vlib.translate()
        inp = build_input(summary, int(os.environ.get("VERIF_SEED", "20260929")), "quick")
        res = run_impl(dict(histories=inp["histories"][:200], pairs=[]))
        return not res.get("cdb_fresh"), ("still: %s" % res["cdb_fresh"] if res.get("cdb_fresh") else "results are fresh objects")
    if obj.get("kind") == "c09-recycled":
        res = run_impl(dict(histories=[], pairs=[], seed=0, n_param_hist=1))
        return not res.get("recycled"), ("still: %s" % res["recycled"] if res.get("recycled") else "every command gets its own zero-filled buffer")
    if obj.get("kind") == "c09-param-history":
        res = run_impl(dict(histories=[], pairs=[], seed=obj.get("seed") or 0, n_param_hist=obj.get("n_param_hist") or 4))
        ph = res.get("param_history")
        return ph is None, ("still: %s" % ph["what"][:300] if ph else "other classes decode / encode as before")
    if obj.get("kind") == "c09-repeat":
        rp = vlib.run_impl("corr/params_impl.py", dict(seed=obj["seed"], n_each=obj["n_each"]), timeout=900)
        w = rp[obj["index"]].get("why")
        return w is None, ("still: %s" % w[:300] if w else "equal bytes every time, arguments unchanged")
    if obj.get("kind") == "c09-mutation":
        res = run_impl(dict(histories=[], pairs=[]))
        hits = [h for h in findings(dict(histories=[], pairs=[]), res) if h["id"] == obj["id"]]
        return not hits, ("still: %s" % hits[0]["observed"][:200] if hits else "inputs unchanged, marshalling deterministic")
    return False, "replay names a broken obligation, not an input: %s" % obj.get("what")


def run(rep, tier, seed, summary):
    rep.assumptions.append("thread interleavings are explored at source-line granularity with a settrace-controlled scheduler (the property's own "
                           "granularity); real CPython preemption is at bytecode granularity; with an empty footprint the result does not depend on it")
    ok, log = vlib.build_property(rep, PID)
    vlib.grep_gate(rep)
    if ok:
        vlib.print_assumptions(rep, PID)
    inp = build_input(summary, seed, tier)
    res = run_impl(inp)
    nsched = sum(r["schedules"] for r in res["threads"]) + sum(r["schedules"] for r in res.get("cold", []))
    rep.extra["decoded_results_checked_for_isolation"] = (res.get("decode") or {}).get("n")
    rep.extra["first_use_schedules"] = [dict(lines=r["lines"], schedules=r["schedules"]) for r in res.get("cold", [])]
    rep.suite("isolation on the implementation: %d sequential histories (all ordered pairs of classes + triples), %d two-thread schedules, "
              "input-mutation and determinism probes" % (len(inp["histories"]), nsched),
              len(inp["histories"]) + nsched + len(res["mutation"]) + len(res["determinism"]),
              0, samples=[dict(history=[x["cls"] for x in inp["histories"][0]]), dict(thread_lines=[r["lines"] for r in res["threads"]])],
              distribution=dict(histories=len(inp["histories"]), schedules=nsched, footprint=summary["footprint"]))
    hits = findings(inp, res)
    # "repeating a marshalling call with equal inputs yields equal bytes": every valid parameter dictionary of tools/spec_params.py (all
    # byte values as bytearrays, the way the library's own decoders return them) handed to the real constructor three times
    n_each = 12 if tier == "quick" else 80
    rp = vlib.run_impl("corr/params_impl.py", dict(seed=seed, n_each=n_each), timeout=900)
    seen_rp = set()
    for r in rp:
        w = r.get("why") or ""
        if w.startswith("construction no.") or w.startswith("the caller's arguments were changed"):
            sig = "%s: %s" % (r["kind"], w.split(":")[0])
            if sig not in seen_rp:
                seen_rp.add(sig)
                hits.append(dict(kind="c09-repeat", id="repeat: " + sig, seed=seed, n_each=n_each, index=r["i"], command=r["kind"],
                                 observed="%s built repeatedly from the same argument objects: %s" % (r["kind"], w[:400])))
    rep.suite("repeatability on the implementation: parameter dictionaries (MODE SELECT, PERSISTENT RESERVE OUT, EXTENDED COPY with all designator "
              "kinds; byte values as bytearrays) handed to the real constructors three times; equal bytes, arguments unchanged", len(rp), 0,
              distribution=dict(per_command={k: sum(1 for r in rp if r["kind"] == k) for k in sorted({r["kind"] for r in rp})}))
    known = {k["id"]: k for k in vlib.load_known() if k.get("property") == PID and k.get("status") == "known"}
    new = [h for h in hits if h["id"] not in known]
    for h in hits:
        if h["id"] in known:
            rep.known("%s (%s)" % (known[h["id"]]["what"], h["id"]))
    for h in new[:6]:
        rep.violation(h["observed"], h, True)
    all_ok = ok and all(o[1] for o in rep.obligations)
    if not new and not all_ok:
        rep.violation("no longer shown to hold: " + "; ".join(n for n, okk, _ in rep.obligations if not okk),
                      dict(kind="broken-obligation", obligations=[o for o in rep.obligations if not o[1]],
                           footprint=summary["footprint"]), False)
