"""C07 — a command that did not complete with GOOD status never looks successful."""
import os

import vlib
from corr import exec as corr_exec
from corr import facade_hist

PID = "C07"


def minimise(hist, res):
    """shortest prefix/suffix of the history (restricted to the failing command object) that still fails"""
    why = corr_exec.oracle(hist, res)
    return why


def findings(hists, results):
    hits, seen = [], set()
    for h, r in zip(hists, results):
        why = corr_exec.oracle(h, r)
        if why:
            import re
            sig = re.sub(r"\d+", "N", re.sub(r"\(\{.*?\}\)", "", why))
            if sig in seen:
                continue
            seen.add(sig)
            hits.append(dict(kind="c07-history", id=sig, history=h, observed=why))
    return hits


def replay(obj):
    if obj.get("kind") == "facade-history":
        return facade_hist.replay(obj)
    if obj.get("kind") != "c07-history":
        return False, "replay names a broken obligation, not an input: %s" % obj.get("what")
    r = vlib.run_impl("corr/exec.py", [obj["history"]], args=["--impl"], extra_path=[os.path.join(vlib.TOOLS, "stubs")])[0]
    why = corr_exec.oracle(obj["history"], r)
    return why is None, ("on the implementation: %s" % (why or "every non-GOOD completion surfaced as its error"))


def run(rep, tier, seed, summary):
    rep.assumptions.append("binding contract (stubs implement exactly this): sgio.execute returns iff GOOD, raises CheckConditionError(sense) "
                           "on CHECK CONDITION, another exception otherwise; iscsi Task.status is the status byte, Task.raw_sense the sense")
    vlib.validate_translator(rep, summary, parts=("opcodes",))
    ok, log = vlib.build_property(rep, PID)
    vlib.grep_gate(rep)
    if ok:
        vlib.print_assumptions(rep, PID)
    bad, hists, results = corr_exec.run(rep, tier, seed)
    known = {k["id"]: k for k in vlib.load_known() if k.get("property") == PID and k.get("status") == "known"}
    hits = findings(hists, results) if results else []
    # shortest witness per finding
    for h in hits:
        short = sorted((x for x, r in zip(hists, results) if corr_exec.oracle(x, r) and
                        __import__("re").sub(r"\d+", "N", __import__("re").sub(r"\(\{.*?\}\)", "", corr_exec.oracle(x, r))) == h["id"]),
                       key=len)
        if short:
            h["history"] = short[0]
    hits += facade_hist.run(rep, tier, seed, {"status"}, PID)
    new = [h for h in hits if h["id"] not in known]
    for h in hits:
        if h["id"] in known:
            rep.known("%s (%s)" % (known[h["id"]]["what"], h["id"]))
    for h in new[:6]:
        rep.violation(h["observed"], h, True)
    all_ok = ok and not bad and all(o[1] for o in rep.obligations)
    if not new and not all_ok:
        rep.violation("no longer shown to hold: " + "; ".join(n for n, okk, _ in rep.obligations if not okk),
                      dict(kind="broken-obligation", obligations=[o for o in rep.obligations if not o[1]],
                           mismatching_cases=bad[:3]), False)
