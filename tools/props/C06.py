"""C06 — parameter data survives a build/parse round trip and read-modify-write."""
import random
import re

import vlib

PID = "C06"


def impl(payload):
    return vlib.run_impl("corr/roundtrip_impl.py", payload, timeout=900)


def replay(obj):
    if obj.get("kind") != "c06-roundtrip":
        return False, "replay names a broken obligation, not an input: %s" % obj.get("what")
    res = impl(dict(seed=obj["seed"], n_each=obj["n_each"]))
    r = res[obj["index"]]
    return r["why"] is None, "on the implementation: %s %s" % (r["fmt"], r["why"] or "round trip exact")


def run(rep, tier, seed, summary):
    rep.assumptions.append("canonical responses are those of the conformant device of tools/spec_resp.py: reserved / unmodelled bits zero, no trailing "
                           "buffer space, READ ELEMENT STATUS descriptors of the length the library's builder uses (fixed part + tags + 4)")
    vlib.validate_translator(rep, summary, parts=("tables",))
    ok, log = vlib.build_property(rep, PID)
    vlib.grep_gate(rep)
    if ok:
        vlib.print_assumptions(rep, PID)
    n_each = 12 if tier == "quick" else 120
    res = impl(dict(seed=seed, n_each=n_each))
    known = {k["id"]: k for k in vlib.load_known() if k.get("property") == PID and k.get("status") == "known"}
    hits, seen, kinds, nbad = [], set(), {}, 0
    for j, r in enumerate(res):
        kinds[r["fmt"]] = kinds.get(r["fmt"], 0) + 1
        if r["why"]:
            nbad += 1
            sig = "%s: %s" % (r["fmt"].split(":")[0], re.sub(r"0x[0-9a-f]+|\d+|[0-9a-f]{6,}", "N", r["why"]))
            if sig not in seen:
                seen.add(sig)
                hits.append(dict(kind="c06-roundtrip", id=sig, seed=seed, n_each=n_each, index=j, structure=r["fmt"], observed=r["why"],
                                 data=r.get("data")))
    rep.suite("canonical responses of 15 structures + all TransportID and designator kinds: bytes->dict->bytes, dict->bytes->dict, "
              "one-field read-modify-write through the real parser/builder pairs", len(res), 0,
              samples=[dict(structure=res[0]["fmt"])], distribution=dict(per_structure=kinds, failing=nbad))
    # the regenerated decoder / builder BODIES (Gen/PyFuncs.v under Model/Py.v) against the real functions
    from corr import pyfuncs
    pybad, _pc, _pr = pyfuncs.run(rep, tier, seed, summary)
    new = [h for h in hits if h["id"] not in known]
    for h in hits:
        if h["id"] in known:
            rep.known("%s (%s)" % (known[h["id"]]["what"], h["id"]))
    for h in new[:6]:
        rep.violation("%s: %s" % (h["structure"], h["observed"]), h, True)
    all_ok = ok and all(o[1] for o in rep.obligations)
    if not new and not all_ok:
        rep.violation("no longer shown to hold: " + "; ".join(n for n, okk, _ in rep.obligations if not okk),
                      dict(kind="broken-obligation", obligations=[o for o in rep.obligations if not o[1]], mismatching_cases=pybad[:3]), False)
