"""C14 — operation codes, service actions and status codes are the T10 assignments."""
import re

import vlib


def t10_value(name, spec):
    m = re.search(r"_OPCODE_([0-9A-F]{2})$", name)
    if m and len(name) >= 13:
        return int(m.group(1), 16)
    return spec.get(name)


def sam_len(v):
    g = v >> 5
    return {0: 6, 1: 10, 2: 10, 4: 16, 5: 12}.get(g)


def impl_findings(after_use=False):
    """re-check the property directly on the imported package against the Spec tables (parsed from Spec/*.v);
    after_use: on the tables as they are after the library was used (attached to every device type, every facade method called)"""
    r = vlib.reflect_after_use() if after_use else vlib.reflect()
    ops = vlib.parse_spec_pairs("Spec/T10Opcodes.v", "t10_opcodes")
    sas = vlib.parse_spec_pairs("Spec/T10Opcodes.v", "t10_service_actions")
    status = vlib.parse_spec_pairs("Spec/SAM.v", "sam_status")
    required = {"PERSISTENT_RESERVE_IN": {"READ_KEYS": 0, "READ_RESERVATION": 1, "REPORT_CAPABILITIES": 2, "READ_FULL_STATUS": 3},
                "PERSISTENT_RESERVE_OUT": {"REGISTER": 0, "RESERVE": 1, "RELEASE": 2, "CLEAR": 3, "PREEMPT": 4,
                                           "PREEMPT_AND_ABORT": 5, "REGISTER_AND_IGNORE_EXISTING_KEY": 6, "REGISTER_AND_MOVE": 7}}
    out = []
    seen = {}
    for s, ents in r["opcodes"].items():
        for name, oname, v, sa in ents:
            t = t10_value(name, ops)
            if t != v:
                out.append(dict(kind="opcode-value", id="opcode:%s.%s" % (s, name), set=s, name=name, impl=v, t10=t))
            for sk, sv in sa:
                if sas.get(sk) != sv:
                    out.append(dict(kind="service-action-value", id="sa:%s.%s.%s" % (s, name, sk), set=s, name=name,
                                    service_action=sk, impl=sv, t10=sas.get(sk)))
            if name in required:
                have = dict((a, b) for a, b in sa)
                miss = [k for k, x in required[name].items() if have.get(k) != x]
                if miss:
                    out.append(dict(kind="service-actions-missing", id="sa-missing:%s.%s" % (s, name), set=s, name=name,
                                    missing=miss))
            if name in seen and (seen[name][1] != v or seen[name][2] != sa):
                out.append(dict(kind="inconsistent-across-sets", id="inconsistent:%s.%s/%s" % (s, name, seen[name][0]),
                                set=s, other=seen[name][0], name=name, impl=v, other_value=seen[name][1],
                                same_sa_table=seen[name][2] == sa))
            seen.setdefault(name, (s, v, sa))
    # the tables attached device objects carry (after use): the same judgement, and the same name must have the value the shared sets give it
    for dname, ents in sorted((r.get("attached") or {}).items()):
        for name, oname, v, sa in ents:
            t = t10_value(name, ops)
            if t != v:
                out.append(dict(kind="attached-opcode-value", id="attached-opcode:%s" % name, device=dname, name=name, impl=v, t10=t,
                                what="the command set an attached device (%s) carries lists %s as %s; T10 assigns %s" % (
                                    dname, name, ("%02Xh" % v) if isinstance(v, int) and v >= 0 else v, ("%02Xh" % t) if t is not None else "nothing to that name")))
            elif name in seen and seen[name][1] != v:
                out.append(dict(kind="attached-inconsistent", id="attached-inconsistent:%s" % name, device=dname, name=name, impl=v, other_value=seen[name][1]))
            for sk, sv in sa:
                if sas.get(sk) != sv:
                    out.append(dict(kind="attached-service-action-value", id="attached-sa:%s.%s" % (name, sk), device=dname, name=name, service_action=sk, impl=sv, t10=sas.get(sk)))
    for s, name, kind, v in r.get("unlisted", []):
        t = t10_value(name, ops)
        if kind == "exn" or (t is not None and t != v):
            out.append(dict(kind="unlisted-name-value", id="unlisted:%s.%s" % (s, name), set=s, name=name, impl=[kind, v], t10=t,
                            what="%s.%s is not listed in that command set but resolves to %s; T10 assigns %s to that name" % (
                                s, name, ("%02Xh" % v) if isinstance(v, int) else v, ("%02Xh" % t) if t is not None else "nothing")))
    for name, v in r["status"]:
        if name != "SGIO_ERROR" and status.get(name) != v:
            out.append(dict(kind="status-value", id="status:%s" % name, name=name, impl=v, sam=status.get(name)))
    for name, v in status.items():
        if dict((a, b) for a, b in r["status"]).get(name) != v:
            out.append(dict(kind="status-missing", id="status-missing:%s" % name, name=name, sam=v))
    for v, kind, x in r["init_cdb"]:
        exp = sam_len(v) if v < 256 else None
        if (kind == "ok" and x != exp) or (kind == "exn" and (exp is not None or x != "OpcodeException")):
            out.append(dict(kind="cdb-length", id="cdb-length:%d" % v, opcode=v, impl=[kind, x], sam=exp))
    for cname, v, kind, x in r.get("class_cdb", []):
        exp = sam_len(v) if 0 <= v < 256 else None
        if (kind == "ok" and x != exp) or (kind == "exn" and (exp is not None or x != "OpcodeException")):
            out.append(dict(kind="class-cdb-length", id="class-cdb-length:%s:%d" % (cname, v), command_class=cname, opcode=v, impl=[kind, x], sam=exp,
                            what="%s.marshall_cdb for operation code %02Xh after the class built an ordinary command: %s, SAM prescribes %s" % (
                                cname, v & 0xFF, [kind, x], exp if exp is not None else "refusal (OpcodeException)")))
    return out


def replay(obj):
    if obj.get("kind") in (None, "broken-obligation", "runner-error"):
        return False, "replay names a broken obligation, not an input: %s" % obj.get("what")
    now = [f for f in impl_findings(after_use=bool(obj.get("after_use"))) if f["id"] == obj["id"]]
    return (not now), ("still fails on the implementation: %s" % now[0] if now else "no longer fails")


def run(rep, tier, seed, summary):
    vlib.validate_translator(rep, summary, parts=("opcodes",))
    ok, log = vlib.build_property(rep, "C14")
    vlib.grep_gate(rep)
    if ok:
        vlib.print_assumptions(rep, "C14")
    # correspondence of the hand-written init_cdb semantics over the regenerated range table: exhaustive
    r = vlib.reflect()
    cases = r["init_cdb"]
    body = "; ".join("(%d, %s)" % (v, ("Ok %d%%nat" % x) if k == "ok" else "Raise %s" % vlib.cexn(x)) for v, k, x in cases)
    text = ("From Coq Require Import String.\nFrom PS Require Import Base.Bytes Base.Result Model.CorrUtil Model.Command Model.InitCdb Gen.Misc Proofs.Opcodes.\n"
            "Open Scope N_scope.\nDefinition cases : list (N * result nat) := [%s].\n"
            "Eval vm_compute in (mismatches (fun c => result_eqb Nat.eqb (init_cdb (fst c)) (snd c)) cases).\n" % body)
    bad = None
    if ok or True:
        with vlib.Lock():
            vlib.coq_make(["Proofs/Opcodes.vo"])
        rc, out = vlib.coqc_text("cases_initcdb", text)
        bad = vlib.parse_eval_list(out)
        if bad is None:
            rep.oblig("correspondence:init_cdb compiles", False, out[-500:])
        else:
            rep.suite("init_cdb over all 256 operation codes + 3 out-of-range values (exhaustive)", len(cases), len(bad),
                      samples=[dict(opcode=cases[0x28][0], impl=cases[0x28][1:]), dict(opcode=0x7F, impl=cases[0x7F][1:])],
                      distribution=dict(ok=sum(1 for c in cases if c[1] == "ok"), refused=sum(1 for c in cases if c[1] != "ok")))
            rep.extra["exhaustive"] = True
    findings = impl_findings()
    # ... and again on the tables as a caller finds them after the library was used in the same process
    try:
        used = impl_findings(after_use=True)
        ids = {f["id"] for f in findings}
        extra = [dict(f, after_use=True, id=f["id"]) for f in used if f["id"] not in ids]
        rep.suite("the tables re-read after the library was used in the process (a facade attached and re-attached to devices of all 32 peripheral "
                  "device types x 5 fillings of the remaining INQUIRY bytes, every facade method called once)", 1, len(extra))
        for f in extra:
            f["kind"] = f["kind"] + " (after use)"
        findings = findings + extra
        if vlib.reflect_after_use().get("opcodes") != vlib.reflect().get("opcodes"):
            rep.oblig("the opcode / service-action tables are the same objects with the same content after the library was used", False,
                      "the tables changed at run time")
    except Exception as e:  # noqa
        rep.oblig("reflection after use runs", False, str(e)[-400:])
    known = {k["id"]: k for k in vlib.load_known() if k.get("property") == "C14" and k.get("status") == "known"}
    new = [f for f in findings if f["id"] not in known]
    for f in findings:
        if f["id"] in known:
            rep.known("%s (%s)" % (known[f["id"]]["what"], f["id"]))
    all_ok = all(o[1] for o in rep.obligations)
    if new:
        for f in new[:10]:
            rep.violation("%s: %s" % (f["kind"], f["id"]), f, True)
    elif not all_ok and not (findings and len(findings) == len([f for f in findings if f["id"] in known])):
        rep.violation("no longer shown to hold: " + "; ".join(n for n, okk, _ in rep.obligations if not okk),
                      dict(kind="broken-obligation", obligations=[o for o in rep.obligations if not o[1]]), False)
