"""C13 — each facade call sends exactly one command and decodes what the device returned."""
import os
import re

import vlib
from corr import facade as corr_facade
from corr import facade_hist

PID = "C13"


def context(summary):
    ms = {m["name"]: m for m in summary["facade"]["methods"]}
    o = summary["opcodes"]
    set_tables = {s: {e[0] for e in o["op_dicts"][o["enums"][s]]} for s in corr_facade.SETS}
    t10 = vlib.parse_spec_pairs("Spec/T10Opcodes.v", "t10_opcodes")
    return ms, set_tables, t10


def findings(summary, cases, results):
    ms, set_tables, t10 = context(summary)
    hits, seen = [], set()
    for c, r in zip(cases, results):
        why = corr_facade.oracle(c, r, ms[c["method"]], set_tables, t10)
        if why:
            sig = "%s: %s" % (c["method"], re.sub(r"0x[0-9a-f]+|\d+", "N", why))
            if sig in seen:
                continue
            seen.add(sig)
            hits.append(dict(kind="c13-call", id=sig, case=c, observed=why))
    return hits


def replay(obj):
    if obj.get("kind") == "facade-history":
        return facade_hist.replay(obj)
    if obj.get("kind") != "c13-call":
        return False, "replay names a broken obligation, not an input: %s" % obj.get("what")
    summary, _ = vlib.translate()
    ms, set_tables, t10 = context(summary)
    r = vlib.run_impl("corr/facade.py", [obj["case"]], args=["--impl"],
                      extra_path=[os.path.join(vlib.TOOLS, "stubs"), vlib.TOOLS])[0]
    why = corr_facade.oracle(obj["case"], r, ms[obj["case"]["method"]], set_tables, t10)
    return why is None, ("on the implementation: %s" % (why or "one command, same buffers, decoded after execute"))


def doc_findings(summary):
    """documented keyword names that the constructor rejects (C13: all documented arguments are accepted)"""
    ctors = {c["key"]: c for c in summary["ctors"]["ctors"]}
    out = []
    for m in summary["facade"]["methods"]:
        ckey = None
        for a in m["acts"]:
            if a.startswith("AConstruct ("):
                ckey = a.split('"')[1]
        if ckey in ctors and m["kwargs"]:
            for k in m["doc_kwargs"]:
                if k not in ctors[ckey]["params"]:
                    out.append(dict(kind="c13-doc", id="%s documents keyword %s which %s does not accept" % (m["name"], k, ckey.split(".")[1]),
                                    method=m["name"], keyword=k, constructor=ckey, accepted=ctors[ckey]["params"],
                                    observed="TypeError: unexpected keyword argument %r" % k))
    return out


def run(rep, tier, seed, summary):
    vlib.validate_translator(rep, summary, parts=("opcodes",))
    ok, log = vlib.build_property(rep, PID)
    vlib.grep_gate(rep)
    if ok:
        vlib.print_assumptions(rep, PID)
    bad, cases, results = corr_facade.run(rep, tier, seed, summary)
    known = {k["id"]: k for k in vlib.load_known() if k.get("property") == PID and k.get("status") == "known"}
    hits = (findings(summary, cases, results) if results else []) + doc_findings(summary)
    hits += facade_hist.run(rep, tier, seed, {"once", "opcode", "buffers", "history"}, PID)
    new = [h for h in hits if h["id"] not in known]
    for h in hits:
        if h["id"] in known:
            rep.known("%s (%s)" % (known[h["id"]]["what"], h["id"]))
    for h in new[:10]:
        rep.violation(h["observed"], h, True)
    all_ok = ok and not bad and all(o[1] for o in rep.obligations)
    if not new and not all_ok:
        rep.violation("no longer shown to hold: " + "; ".join(n for n, okk, _ in rep.obligations if not okk),
                      dict(kind="broken-obligation", obligations=[o for o in rep.obligations if not o[1]],
                           mismatching_cases=bad[:3]), False)
