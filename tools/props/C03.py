"""C03 — data buffers match the transfer the CDB announces."""
import vlib
import ctor_oracle
from corr import ctors as corr_ctors

PID = "C03"
IMPORTS = "From PS Require Import Proofs.CtorBuffers Proofs.Ata.\n"
CHECKER = """(fun (c : ctor) (_ : cdb_spec) => match lookup (c_name c) xfer_specs with
  | Some (xo, IZeros li) => xfer_matches c (xo, IZeros li)
  | Some (OAta, IAta) => ata_ok c (if Nat.eqb (length (c_bits c)) 14 then 161 else 133)%N
  | _ => false end)"""


def param_list_probes(seed, n_each=40):
    """composed parameter lists (TransportID lists, descriptor lists, mode pages): PARAMETER LIST LENGTH in the CDB vs len(data-out)"""
    res = vlib.run_impl("corr/params_impl.py", dict(seed=seed, n_each=n_each), timeout=600)
    hits = []
    for r in res:
        if r.get("why") and "PARAMETER LIST LENGTH" in r["why"]:
            hits.append(dict(kind="c03-params", id="%s: %s" % (r["kind"], "the CDB's PARAMETER LIST LENGTH differs from the data-out buffer"),
                             seed=seed, n_each=n_each, index=r["i"], observed="%s: %s" % (r["kind"], r["why"]), probe=dict(key=r["kind"])))
            break
    return hits, len(res)


def xfer_probes():
    """what the bindings are handed for given buffers: iSCSI direction / expected transfer length follow the buffer LENGTHS
    (an all-zero payload is still a payload), SG_IO gets both buffers as they are"""
    import os
    cases = []
    for out in ([], [0], [0] * 8, [0] * 512, [1], [0, 0, 7], [255] * 16):
        for inn in (0, 1, 96):
            if out and inn:
                continue
            cases.append(dict(out=out, inn=inn))
    res = vlib.run_impl("corr/xfer_impl.py", cases, extra_path=[os.path.join(vlib.TOOLS, "stubs")], timeout=300)
    hits = []
    for c, r in zip(cases, res):
        lo, li = len(c["out"]), c["inn"]
        want = dict(dir=2, xferlen=lo, out_len=lo, in_len=li) if lo else dict(dir=1, xferlen=li, out_len=0, in_len=li) if li else dict(dir=0, xferlen=0, out_len=0, in_len=0)
        if r["iscsi"] != want:
            hits.append(dict(kind="c03-xfer", id="iscsi: direction / expected transfer length do not follow the buffer lengths", case=c,
                             observed="ISCSIDevice.execute with %d data-out bytes %s and %d data-in bytes hands the binding %s, expected %s" % (
                                 lo, c["out"][:4], li, r["iscsi"], want), probe=dict(key="ISCSIDevice.execute")))
            break
        if r.get("iscsi_again") != want or r.get("sgio_again") != dict(out_len=lo, in_len=li):
            hits.append(dict(kind="c03-xfer", id="re-issue: a command object issued again is not handed over with the buffers its CDB announces", case=c,
                             observed="second execute() of one command object (%d data-out, %d data-in bytes; the device had transferred %d): iSCSI %s, SG_IO %s" % (
                                 lo, li, li // 3, r.get("iscsi_again"), r.get("sgio_again")), probe=dict(key="execute (re-issue)")))
            break
        if r["sgio"] != dict(out_len=lo, in_len=li):
            hits.append(dict(kind="c03-xfer", id="sgio: the buffers handed to sgio.execute are not the command's buffers", case=c,
                             observed="SCSIDevice.execute hands sgio.execute %s for buffers of %d / %d bytes" % (r["sgio"], lo, li), probe=dict(key="SCSIDevice.execute")))
            break
    return hits, len(cases)


def replay(obj):
    if obj.get("kind") == "facade-history":
        from corr import facade_hist
        return facade_hist.replay(obj)
    if obj.get("kind") == "c03-xfer":
        hits, _ = xfer_probes()
        return not hits, "on the implementation: %s" % (hits[0]["observed"] if hits else "direction and lengths follow the buffer lengths")
    if obj.get("kind") == "c03-params":
        res = vlib.run_impl("corr/params_impl.py", dict(seed=obj["seed"], n_each=obj["n_each"]), timeout=600)
        r = res[obj["index"]]
        bad = bool(r.get("why")) and "PARAMETER LIST LENGTH" in r["why"]
        return not bad, "on the implementation: %s" % (r.get("why") or "PARAMETER LIST LENGTH equals the data-out length")
    if obj.get("kind") != "c03-probe":
        return False, "replay names a broken obligation, not an input: %s" % obj.get("what")
    return ctor_oracle.replay_c03(obj)


def run(rep, tier, seed, summary):
    vlib.validate_translator(rep, summary, parts=("tables",))
    ok, log = vlib.build_property(rep, PID)
    vlib.grep_gate(rep)
    if ok:
        vlib.print_assumptions(rep, PID)
    bad = corr_ctors.run(rep, tier, seed, summary)
    known = {k["id"]: k for k in vlib.load_known() if k.get("property") == PID and k.get("status") == "known"}
    xhits, nx = xfer_probes()
    rep.suite("transfer set-up probes on both execute() functions (buffer lengths, all-zero payloads, short transfers, re-issue of one command object)",
              nx, len(xhits))
    from corr import facade_hist
    fhits = facade_hist.run(rep, tier, seed, {"buffers"}, PID)
    all_ok = ok and not bad and all(o[1] for o in rep.obligations)
    if all_ok and tier == "quick" and not fhits:
        return
    failing = None
    if not ok:
        with vlib.Lock():
            vlib.coq_make(["Proofs/CtorBuffers.vo", "Proofs/Ata.vo", "Gen/Ctors.vo"])
        failing = ctor_oracle.failing_classes(CHECKER, IMPORTS)
        rep.extra["classes_failing_side_condition"] = failing
    classes = set(failing or []) | {b["case"]["key"] for b in bad if b.get("case")}
    hits, nprobes = ctor_oracle.search_c03(summary, seed, classes=classes or None)
    if not hits and classes:
        hits, n2 = ctor_oracle.search_c03(summary, seed, classes=None)
        nprobes += n2
    if not hits:
        hits, n3 = param_list_probes(seed)
        nprobes += n3
    if not hits:
        hits, nprobes = xhits, nprobes + nx
    rep.extra["implementation_probes"] = nprobes
    hits = list(hits) + fhits
    new = [h for h in hits if h["id"] not in known]
    for h in hits:
        if h["id"] in known:
            rep.known("%s (%s)" % (known[h["id"]]["what"], h["id"]))
    for h in new[:10]:
        rep.violation("data buffers: %s" % h["observed"], h, True)
    if not new and not all_ok:
        explained = failing is not None and hits and not bad and \
            set(failing) <= {h["probe"]["key"] for h in hits if h["id"] in known}
        if not explained:
            rep.violation("no longer shown to hold: " + "; ".join(n for n, okk, _ in rep.obligations if not okk),
                          dict(kind="broken-obligation", obligations=[o for o in rep.obligations if not o[1]],
                               failing_classes=failing, mismatching_cases=bad[:5]), False)
