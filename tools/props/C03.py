"""C03 — data buffers match the transfer the CDB announces."""
import vlib
import ctor_oracle
from corr import ctors as corr_ctors

PID = "C03"
IMPORTS = "From PS Require Import Proofs.CtorBuffers Proofs.Ata.\n"
CHECKER = """(fun (c : ctor) (_ : cdb_spec) => match lookup (c_name c) xfer_specs with
  | Some (xo, IZeros li) => xfer_matches c (xo, IZeros li)
  | Some (OAta, IAta) => ata_ok c (if Nat.eqb (length (c_bits c)) 14 then 161 else 133)%N
  | _ => false end)"""


def replay(obj):
    if obj.get("kind") != "c03-probe":
        return False, "replay names a broken obligation, not an input: %s" % obj.get("what")
    return ctor_oracle.replay_c03(obj)


def run(rep, tier, seed, summary):
    vlib.validate_translator(rep, summary, parts=("tables",))
    ok, log = vlib.build_property(rep, PID)
    vlib.grep_gate(rep)
    if ok:
        vlib.print_assumptions(rep, PID)
    bad = corr_ctors.run(rep, tier, seed, summary)
    known = {k["id"]: k for k in vlib.load_known() if k.get("property") == PID and k.get("status") == "known"}
    all_ok = ok and not bad and all(o[1] for o in rep.obligations)
    if all_ok and tier == "quick":
        return
    failing = None
    if not ok:
        with vlib.Lock():
            vlib.coq_make(["Proofs/CtorBuffers.vo", "Proofs/Ata.vo", "Gen/Ctors.vo"])
        failing = ctor_oracle.failing_classes(CHECKER, IMPORTS)
        rep.extra["classes_failing_side_condition"] = failing
    classes = set(failing or []) | {b["case"]["key"] for b in bad if b.get("case")}
    hits, nprobes = ctor_oracle.search_c03(summary, seed, classes=classes or None)
    if not hits and classes:
        hits, n2 = ctor_oracle.search_c03(summary, seed, classes=None)
        nprobes += n2
    rep.extra["implementation_probes"] = nprobes
    new = [h for h in hits if h["id"] not in known]
    for h in hits:
        if h["id"] in known:
            rep.known("%s (%s)" % (known[h["id"]]["what"], h["id"]))
    for h in new[:10]:
        rep.violation("data buffers: %s" % h["observed"], h, True)
    if not new and not all_ok:
        explained = failing is not None and hits and not bad and \
            set(failing) <= {h["probe"]["key"] for h in hits if h["id"] in known}
        if not explained:
            rep.violation("no longer shown to hold: " + "; ".join(n for n, okk, _ in rep.obligations if not okk),
                          dict(kind="broken-obligation", obligations=[o for o in rep.obligations if not o[1]],
                               failing_classes=failing, mismatching_cases=bad[:5]), False)
