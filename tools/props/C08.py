"""C08 — sense data is always decodable and printable, with the right key/ASC/ASCQ."""
import re

import vlib
from corr import sense as corr_sense

PID = "C08"


def replay(obj):
    if obj.get("kind") != "c08-sense":
        return False, "replay names a broken obligation, not an input: %s" % obj.get("what")
    r = vlib.run_impl("corr/sense.py", [obj["sense"]] + list(obj.get("followers", [])), args=["--impl"])[0]
    why = corr_sense.oracle(obj["sense"], r)
    return why is None, ("on the implementation: %s" % (why or "constructed, described and printed; positions right"))


def run(rep, tier, seed, summary):
    vlib.validate_translator(rep, summary, parts=("tables", "sense"))
    ok, log = vlib.build_property(rep, PID)
    vlib.grep_gate(rep)
    if ok:
        vlib.print_assumptions(rep, PID)
    bad, cases, results = corr_sense.run(rep, tier, seed)
    known = {k["id"]: k for k in vlib.load_known() if k.get("property") == PID and k.get("status") == "known"}
    hits, seen = [], set()
    for i, (s, r) in enumerate(zip(cases, results or [])):
        why = corr_sense.oracle(s, r)
        if why:
            sig = re.sub(r"\(.*?\)|0x[0-9a-fA-F]+|\d+", "N", why)
            # one witness per kind and response code, the shortest
            key = (sig, s[0] & 0x7F if (s[0] & 0x7F) in (0x70, 0x71, 0x72, 0x73) else "other")
            if key in seen:
                continue
            seen.add(key)
            hits.append(dict(kind="c08-sense", id="%s [response code %s]" % (sig, key[1] if key[1] == "other" else hex(key[1])),
                             sense=s, observed=why))
            if "later sense buffers" in why or "once other sense" in why:
                # needs the buffers that were decoded afterwards: keep the shortest suffix that reproduces it
                for n in (1, 2, 4, 8, 32, len(cases)):
                    fol = cases[i + 1:i + 1 + n]
                    rr = vlib.run_impl("corr/sense.py", [s] + fol, args=["--impl"])[0]
                    if corr_sense.oracle(s, rr):
                        hits[-1]["followers"] = fol
                        break
    new = [h for h in hits if h["id"] not in known]
    for h in hits:
        if h["id"] in known:
            rep.known("%s (%s)" % (known[h["id"]]["what"], h["id"]))
    for h in new[:8]:
        rep.violation(h["observed"], h, True)
    all_ok = ok and not bad and all(o[1] for o in rep.obligations)
    if not new and not all_ok:
        rep.violation("no longer shown to hold: " + "; ".join(n for n, okk, _ in rep.obligations if not okk),
                      dict(kind="broken-obligation", obligations=[o for o in rep.obligations if not o[1]],
                           mismatching_cases=bad[:3]), False)
