"""C18 — enumerations map names to values and back consistently under add/remove."""
import vlib
from corr import enum as corr_enum

PID = "C18"


def spec_disagreements(cases, results):
    """the implementation against an ordinary dict that underwent the same operations (the property's oracle)"""
    hits = []
    for c, r in zip(cases, results):
        for i, (a, b) in enumerate(zip(r["res"], r["spec"])):
            if a != b:
                # minimise: keep the operations on that enumeration up to the first disagreement
                which = c["ops"][i][0]
                ops = [o for o in c["ops"][:i + 1] if o[0] == which]
                small = dict(init=c["init"], forms=c["forms"], ops=ops)
                what = "%s on enumeration %d: Enum answers %s, a dictionary answers %s" % (c["ops"][i][1][0], which, a, b)
                hits.append(dict(kind="c18-sequence", id="enum-vs-dict:%s:%s/%s" % (c["ops"][i][1][0], a[0], b[0]),
                                 case=small, observed=what))
                break
    return hits


def replay(obj):
    if obj.get("kind") != "c18-sequence":
        return False, "replay names a broken obligation, not an input: %s" % obj.get("what")
    r = vlib.run_impl("corr/enum.py", [obj["case"]], args=["--impl"])[0]
    bad = [(a, b) for a, b in zip(r["res"], r["spec"]) if a != b]
    return not bad, ("Enum and a dictionary disagree: %s" % (bad[0],) if bad else "Enum agrees with a dictionary")


def run(rep, tier, seed, summary):
    ok, log = vlib.build_property(rep, PID)
    vlib.grep_gate(rep)
    if ok:
        vlib.print_assumptions(rep, PID)
    bad, cases, results = corr_enum.run(rep, tier, seed)
    known = {k["id"]: k for k in vlib.load_known() if k.get("property") == PID and k.get("status") == "known"}
    hits = spec_disagreements(cases, results) if results else []
    seen, uniq = set(), []
    for h in hits:
        if h["id"] not in seen:
            seen.add(h["id"])
            uniq.append(h)
    new = [h for h in uniq if h["id"] not in known]
    for h in uniq:
        if h["id"] in known:
            rep.known("%s (%s)" % (known[h["id"]]["what"], h["id"]))
    for h in new[:6]:
        rep.violation(h["observed"], h, True)
    all_ok = ok and not bad and all(o[1] for o in rep.obligations)
    if not new and not all_ok:
        rep.violation("no longer shown to hold: " + "; ".join(n for n, okk, _ in rep.obligations if not okk),
                      dict(kind="broken-obligation", obligations=[o for o in rep.obligations if not o[1]],
                           mismatching_cases=bad[:3]), False)
