"""C12 — data written through the library is read back intact from a conformant target, over both transports."""
import os
import random
import re

import vlib

PID = "C12"
NAMES = {"read10": ["lba", "tl"], "read12": ["lba", "tl"], "read16": ["lba", "tl"],
         "write10": ["lba", "tl", "data"], "write12": ["lba", "tl", "data"], "write16": ["lba", "tl", "data"],
         "writesame10": ["lba", "nb", "data"], "writesame16": ["lba", "nb", "data"],
         "synchronizecache10": ["lba", "numblks"], "synchronizecache16": ["lba", "numblks"],
         "readcapacity10": [], "readcapacity16": [], "inquiry": []}
LBA_BITS = {"10": 32, "12": 32, "16": 64}
TL_BITS = {"10": 16, "12": 32, "16": 32}
RFLAGS = {"rdprotect": 3, "dpo": 1, "fua": 1, "rarc": 1, "group": 5}
WFLAGS = {"wrprotect": 3, "dpo": 1, "fua": 1, "group": 5}
SFLAGS = {"wrprotect": 3, "anchor": 1, "unmap": 1, "group": 5}


def gen_hists(seed, tier):
    rng = random.Random(seed ^ 0xC12)
    hists = []
    n = 150 if tier == "quick" else 1500

    def flags(tbl):
        if rng.random() < 0.4:
            return {}
        return {k: rng.choice([0, (1 << w) - 1, rng.randrange(1 << w)]) for k, w in tbl.items() if rng.random() < 0.6}

    for i in range(n):
        bs = rng.choice([1, 2, 3, 4, 8, 16])
        big = rng.random() < 0.35
        nblk = (1 << 32) + rng.choice([0, 1, 50, 1 << 20]) + 64 if big else rng.choice([1, 2, 17, 64, 300, 70000])
        if rng.random() < 0.1:
            nblk = (1 << 33) + 1000
        h = dict(bs=bs, nblk=nblk, ident=[0, 0, 6, 2, 31, 0, 0, 0] + [rng.randrange(32, 127) for _ in range(28)], calls=[])
        hot = []                    # addresses written so far (read them back)

        def pick_lba(f, span):
            cap = min(nblk, 1 << LBA_BITS[f])
            cands = [0, max(0, cap - span), max(0, nblk - span)]
            if big and f == "16":
                cands += [(1 << 32) - 1, 1 << 32, (1 << 32) + 7, nblk - span]
            cands += hot[-4:]
            a = rng.choice(cands + [rng.randrange(0, max(1, cap - span + 1))])
            return max(0, min(a, cap - 1))

        for _ in range(rng.randint(3, 12)):
            kind = rng.random()
            f = rng.choice(["10", "12", "16"])
            if kind < 0.34:
                tl = rng.choice([0, 1, 1, 2, 3, 5])
                lba = pick_lba(f, tl)
                data = [rng.randrange(256) for _ in range(tl * bs)]
                h["calls"].append(dict(m="write" + f, pos=[lba, tl, dict(b=data)], kw=flags(WFLAGS)))
                hot.append(lba)
            elif kind < 0.62:
                tl = rng.choice([0, 1, 2, 3, 4, 7])
                lba = pick_lba(f, tl)
                if rng.random() < 0.5 and hot:
                    lba = max(0, hot[-1] - rng.randint(0, 1))
                if lba >= (1 << LBA_BITS[f]):
                    f = "16"
                h["calls"].append(dict(m="read" + f, pos=[lba, tl], kw=flags(RFLAGS)))
            elif kind < 0.78:
                f = rng.choice(["10", "16"])
                nb = rng.choice([1, 1, 2, 4])
                lba = pick_lba(f, nb)
                kw = flags(SFLAGS)
                if f == "16" and rng.random() < 0.3:
                    kw["ndob"] = 1
                    data = rng.choice([None, dict(b=[1] * bs)])
                else:
                    data = dict(b=[rng.randrange(256) for _ in range(bs)])
                h["calls"].append(dict(m="writesame" + f, pos=[lba, nb, data], kw=kw))
                hot.append(lba)
            elif kind < 0.84:
                f = rng.choice(["10", "16"])
                h["calls"].append(dict(m="synchronizecache" + f, pos=[pick_lba(f, 1), rng.choice([0, 1])],
                                       kw={k: 1 for k in ("immed",) if rng.random() < 0.5}))
            elif kind < 0.89:
                h["calls"].append(dict(m="readcapacity10", pos=[], kw={}))
            elif kind < 0.94:
                h["calls"].append(dict(m="readcapacity16", pos=[], kw=rng.choice([{}, dict(alloclen=12), dict(alloclen=32), dict(alloclen=40)])))
            else:
                h["calls"].append(dict(m="inquiry", pos=[], kw=rng.choice([{}, dict(alloclen=36), dict(alloclen=5)])))
        # overwrite with zeros: the payload whose bytes are all zero is still a payload (stale data must not survive)
        if rng.random() < 0.45 and nblk >= 2:
            f = rng.choice(["10", "12", "16"])
            lba = pick_lba(f, 2)
            lba = min(lba, nblk - 2)
            if lba < (1 << LBA_BITS[f]) - 2:
                h["calls"].append(dict(m="write" + f, pos=[lba, 2, dict(b=[rng.randrange(1, 256) for _ in range(2 * bs)])], kw={}))
                if rng.random() < 0.5:
                    h["calls"].append(dict(m="write" + rng.choice(["10", "12", "16"]), pos=[lba, 1, dict(b=[0] * bs)], kw={}))
                else:
                    h["calls"].append(dict(m="writesame" + rng.choice(["10", "16"]), pos=[lba + 1, 1, dict(b=[0] * bs)], kw={}))
                h["calls"].append(dict(m="read" + f, pos=[lba, 2], kw={}))
        # the malformed stream: requests the medium or the command form cannot satisfy
        if rng.random() < 0.5:
            bad = rng.choice([
                dict(m="read10", pos=[nblk, 1], kw={}),                                   # beyond the medium
                dict(m="write16", pos=[max(0, nblk - 1), 2, dict(b=[7] * (2 * bs))], kw={}),
                dict(m="write10", pos=[0, 1, dict(b=[7] * (bs + 1))], kw={}),             # data length != tl * bs
                dict(m="writesame10", pos=[0, 0, dict(b=[7] * bs)], kw={}),               # zero blocks (WSNZ)
                dict(m="writesame16", pos=[0, 1, dict(b=[7] * (bs + 1))], kw={}),
                dict(m="read12", pos=[0, 1], kw=dict(no_such_flag=1)),
            ])
            h["calls"].insert(rng.randint(0, len(h["calls"])), bad)
        if rng.random() < 0.08:
            h["facade_bs"] = 0                                                           # MissingBlocksize
        hists.append(h)
    return hists


# ------------------------------------------------------------------------------------------------
# the property, checked on the implementation from the REQUESTS alone (no CDB, no library table)

def fits(m, pos, kw, bs, nblk):
    """is the request valid: expressible in the command form and satisfiable by the medium"""
    f = m[-2:]
    tbl = RFLAGS if m.startswith("read1") else WFLAGS if m.startswith("write1") else SFLAGS if m.startswith("writesame") else {"immed": 1, "group": 5}
    for k, v in kw.items():
        if k == "ndob" and m == "writesame16":
            continue
        if k == "alloclen":
            continue
        if k not in tbl:
            return False
        if not (0 <= v < (1 << tbl[k])):
            return None
    if m.startswith(("read1", "write1", "writesame", "synchronizecache")):
        lba, n = pos[0], pos[1]
        if lba >= (1 << LBA_BITS[f]) or n >= (1 << TL_BITS[f]):
            return None                 # not expressible in this command form: outside the property (the library truncates silently)
        if lba + n > nblk:
            return False
        if m.startswith("write1") and len(pos[2]["b"]) != n * bs:
            return False
        if m.startswith("writesame"):
            if n < 1:
                return False
            if not kw.get("ndob") and (pos[2] is None or len(pos[2]["b"]) != bs):
                return False
    return True


def oracle(h, out):
    bs, nblk = h["bs"], h["nblk"]
    if out["sgio"]["res"] != out["iscsi"]["res"] or out["sgio"]["medium"] != out["iscsi"]["medium"]:
        for i, (a, b) in enumerate(zip(out["sgio"]["res"], out["iscsi"]["res"])):
            if a != b:
                return "call %d (%s): SG_IO gives %s, iSCSI gives %s" % (i, h["calls"][i]["m"], short(a), short(b))
        return "the medium differs between the transports"
    if h.get("facade_bs", bs) != bs:
        return None                     # a facade configured with another block size is outside the property
    shadow = {}
    for i, (c, r) in enumerate(zip(h["calls"], out["sgio"]["res"])):
        if c["m"] == "_ua":
            continue
        m, pos, kw = c["m"], c["pos"], c["kw"]
        ut = r.get("ua_terminated") or []
        if ut:
            # the target terminated command(s) of this call with CHECK CONDITION / UNIT ATTENTION without performing them
            if len(ut) == len(r["cdbs"]):
                if "exn" not in r:
                    return ("call %d: %s%s returned normally although the target terminated every command of the call (%d) with CHECK CONDITION "
                            "(a queued unit attention / deferred error) and performed none" % (i, m, tuple(pos[:2]), len(ut)))
                continue                # reported to the caller, nothing was performed
            # a later command of the same call was performed: judged like any other call below
        ft = fits(m, pos, kw, bs, nblk)
        if ft is None:
            return None                 # from here on the history is outside the property
        if not ft:
            if "exn" not in r:
                return "call %d: %s%s is not a valid request here but completed" % (i, m, tuple(pos[:2]))
            continue
        if "exn" in r:
            return "call %d: valid request %s%s raised %s" % (i, m, tuple(pos[:2]), r["exn"])
        got = r["ok"]
        if "late" in r and r["late"] != r["ok"]:
            return ("call %d: the data %s(lba=%#x, tl=%d) returned (%d bytes, only the buffer was kept) changed while later commands were issued: "
                    "it no longer is the data last written" % (i, m, pos[0], pos[1], len(got)))
        if m.startswith("read1"):
            want = []
            for a in range(pos[0], pos[0] + pos[1]):
                want += shadow.get(a, [0] * bs)
            if got != want:
                k = next(j for j in range(max(len(got), len(want))) if j >= len(got) or j >= len(want) or got[j] != want[j])
                return "call %d: %s(lba=%#x, tl=%d) returned %d bytes; byte %d (block %#x) is not the data last written" % (
                    i, m, pos[0], pos[1], len(got), k, pos[0] + k // bs)
        elif m.startswith("write1"):
            for j in range(pos[1]):
                shadow[pos[0] + j] = pos[2]["b"][j * bs:(j + 1) * bs]
        elif m.startswith("writesame"):
            blk = [0] * bs if kw.get("ndob") else pos[2]["b"]
            for j in range(pos[1]):
                shadow[pos[0] + j] = list(blk)
        elif m == "readcapacity10":
            if r["result"] != dict(returned_lba=min(nblk - 1, 0xFFFFFFFF), block_length=bs):
                return "call %d: READ CAPACITY(10) reports %s for a target of %d blocks of %d bytes" % (i, r["result"], nblk, bs)
        elif m == "readcapacity16":
            if kw.get("alloclen", 32) >= 12 and (r["result"].get("returned_lba"), r["result"].get("block_length")) != (nblk - 1, bs):
                return "call %d: READ CAPACITY(16) reports %s for a target of %d blocks of %d bytes" % (i, r["result"], nblk, bs)
        elif m == "inquiry":
            n = kw.get("alloclen", 96)
            if got[:min(n, 36)] != h["ident"][:min(n, 36)]:
                return "call %d: INQUIRY did not return the target's identity" % i
    medium = {int(k): v for k, v in out["sgio"]["medium"].items()}
    for a in set(medium) | set(shadow):
        if medium.get(a, [0] * bs) != shadow.get(a, [0] * bs):
            return "after the history block %#x holds %s, last written was %s" % (a, medium.get(a), shadow.get(a))
    return None


def short(r):
    return ("raises " + r["exn"]) if "exn" in r else ("%d bytes %s" % (len(r["ok"]), r["ok"][:12]))


def run_impl(hists):
    return vlib.run_impl("corr/stack_impl.py", hists, extra_path=[os.path.join(vlib.TOOLS, "stubs")], timeout=900)


# ------------------------------------------------------------------------------------------------
# model side

def cv(v):
    if v is None:
        return "CNone"
    if isinstance(v, dict):
        return "(CBytes %s)" % vlib.cbytes(v["b"])
    return "(CInt %d)" % v


def coq_case(h, out):
    calls = []
    for c in h["calls"]:
        args = "; ".join('("%s", %s)' % (n, cv(v)) for n, v in zip(NAMES[c["m"]], c["pos"]))
        kw = "; ".join('("%s", %s)' % (k, cv(v)) for k, v in c["kw"].items())
        calls.append('("%s", [%s], [%s])' % (c["m"], args, kw))
    exp = []
    for r in out["sgio"]["res"]:
        exp.append("Raise %s" % vlib.cexn(r["exn"]) if "exn" in r else "Ok %s" % vlib.cbytes(r["ok"]))
    exp2 = []
    for r in out["iscsi"]["res"]:
        exp2.append("Raise %s" % vlib.cexn(r["exn"]) if "exn" in r else "Ok %s" % vlib.cbytes(r["ok"]))
    med = "; ".join("(%s, %s)" % (k, vlib.cbytes(v)) for k, v in out["sgio"]["medium"].items())
    return "(%d, mkT %d %d %s (fun _ => zeros %d%%nat), [%s], [%s], [%s], [%s])" % (
        h.get("facade_bs", h["bs"]), h["bs"], h["nblk"], vlib.cbytes(h["ident"]), h["bs"], "; ".join(calls), "; ".join(exp), "; ".join(exp2), med)


PRELUDE = """From Coq Require Import String.
From PS Require Import Base.Bytes Base.Result Model.Converter Model.Ctor Model.CorrUtil Model.Stack Spec.Target.
Open Scope string_scope. Open Scope N_scope.
Definition case := (N * target * list call * list (result bytes) * list (result bytes) * list (N * bytes))%type.
Definition chk (c : case) : bool :=
  let '(fbs, t, calls, e1, e2, med) := c in
  let '(t1, r1) := stack_run SGIO fbs t calls in
  let '(t2, r2) := stack_run ISCSI fbs t calls in
  list_eqb (result_eqb bytes_eqb) r1 e1 && list_eqb (result_eqb bytes_eqb) r2 e2 &&
  forallb (fun ab => bytes_eqb (t_disk t1 (fst ab)) (snd ab) && bytes_eqb (t_disk t2 (fst ab)) (snd ab)) med.
"""


def model_mismatches(hists, outs):
    texts = []
    CH = 100
    for s in range(0, len(hists), CH):
        body = ";\n  ".join(coq_case(h, o) for h, o in zip(hists[s:s + CH], outs[s:s + CH]))
        texts.append(("cases_stack_%d" % (s // CH), PRELUDE + "Definition cases : list case := [\n  %s].\nEval vm_compute in (mismatches chk cases).\n" % body))
    bad, broken = [], None
    for k, (name, text) in enumerate(texts):
        rc, out = vlib.coqc_text(name, text)
        mm = vlib.parse_eval_list(out)
        if rc != 0 or mm is None:
            broken = out[-600:]
            break
        bad += [k * CH + j for j in mm]
    return bad, broken


def replay(obj):
    if obj.get("kind") != "c12-history":
        return False, "replay names a broken obligation, not an input: %s" % obj.get("what")
    out = run_impl([obj["history"]])[0]
    why = oracle(obj["history"], out)
    return why is None, ("on the implementation: %s" % (why or "every read returned the data last written; both transports agree"))


def shrink(h):
    """drop calls while the oracle still complains (same first words)"""
    def fails(hh):
        try:
            return oracle(hh, run_impl([hh])[0])
        except Exception:  # noqa
            return None
    why = fails(h)
    if not why:
        return h
    cur = h
    changed = True
    while changed and len(cur["calls"]) > 1:
        changed = False
        for i in range(len(cur["calls"])):
            cand = dict(cur, calls=cur["calls"][:i] + cur["calls"][i + 1:])
            if fails(cand):
                cur, changed = cand, True
                break
    return cur


def run(rep, tier, seed, summary):
    rep.assumptions.append("binding contract (the substituted sgio / iscsi modules implement exactly this): the CDB, the data-out bytes "
                           "and the data-in buffer reach the target unchanged; iSCSI receives data only for direction READ and at most the "
                           "expected transfer length; the target is Spec/Target.v = tools/sim_target.py (written from SBC-3/SPC-4)")
    vlib.validate_translator(rep, summary, parts=("opcodes", "tables"))
    ok, log = vlib.build_property(rep, PID)
    vlib.grep_gate(rep)
    if ok:
        vlib.print_assumptions(rep, PID)
    hists = gen_hists(seed, tier)
    outs = run_impl(hists)
    with vlib.Lock():
        vlib.coq_make(["Model/Stack.vo", "Model/CorrUtil.vo"])
    bad, broken = model_mismatches(hists, outs)
    ncalls = sum(len(h["calls"]) for h in hists)
    if broken is not None:
        rep.oblig("correspondence:stack cases compile", False, broken)
    rep.suite("facade -> constructor -> transport -> target histories (SG_IO and iSCSI) vs stack_run on the regenerated model",
              len(hists), len(bad), samples=[dict(history=hists[0], results=outs[0]["sgio"]["res"][:3])],
              distribution=dict(calls=ncalls, big_lba_histories=sum(1 for h in hists if h["nblk"] > (1 << 32)),
                                errors=sum(1 for o in outs for r in o["sgio"]["res"] if "exn" in r),
                                methods={m: sum(1 for h in hists for c in h["calls"] if c["m"] == m) for m in NAMES}))
    known = {k["id"]: k for k in vlib.load_known() if k.get("property") == PID and k.get("status") == "known"}
    hits, seen = [], set()
    for h, o in zip(hists, outs):
        why = oracle(h, o)
        if why:
            sig = re.sub(r"0x[0-9a-f]+|\d+", "N", why)
            if sig not in seen:
                seen.add(sig)
                hits.append(dict(kind="c12-history", id=sig, history=h, observed=why))
    # the same kind of histories with unit attention conditions established by the target in between (implementation + oracle only:
    # Spec/Target.v has no unit attentions) — a call the target did not perform must not look performed
    urng = random.Random(seed ^ 0x0A77)
    ua_hists = []
    for h in hists[:60 if tier == "quick" else 600]:
        if h.get("facade_bs", h["bs"]) != h["bs"]:
            continue
        calls = list(h["calls"])
        for _ in range(urng.randint(1, 3)):
            calls.insert(urng.randrange(len(calls) + 1), dict(m="_ua", n=urng.choice([1, 2, 2, 3]), kind=urng.randrange(4)))
        ua_hists.append(dict(h, calls=calls))
    ua_outs = run_impl(ua_hists) if ua_hists else []
    n_ua_bad = 0
    for h, o in zip(ua_hists, ua_outs):
        why = oracle(h, o)
        if why:
            n_ua_bad += 1
            sig = "ua: " + re.sub(r"0x[0-9a-f]+|\d+", "N", why)
            if sig not in seen:
                seen.add(sig)
                hits.append(dict(kind="c12-history", id=sig, history=h, observed=why))
    rep.suite("the same histories with unit attention conditions queued by the target between calls (1-3 at a time), both transports",
              len(ua_hists), n_ua_bad, samples=[], distribution=dict(ua_events=sum(1 for h in ua_hists for c in h["calls"] if c["m"] == "_ua")))
    new = [h for h in hits if h["id"] not in known]
    for h in hits:
        if h["id"] in known:
            rep.known("%s (%s)" % (known[h["id"]]["what"], h["id"]))
    for h in new[:4]:
        h["history"] = shrink(h["history"])
        rep.violation(h["observed"], h, True)
    all_ok = ok and not bad and broken is None and all(o[1] for o in rep.obligations)
    if not new and not all_ok:
        rep.violation("no longer shown to hold: " + "; ".join(n for n, okk, _ in rep.obligations if not okk) +
                      ("; %d histories on which model and implementation differ" % len(bad) if bad else ""),
                      dict(kind="broken-obligation", obligations=[o for o in rep.obligations if not o[1]],
                           mismatching_cases=[dict(history=hists[j], impl=outs[j]) for j in bad[:2]]), False)
