"""C10 — the bit-field codec obeys its algebraic laws for every layout."""
import json
import os
import random
import sys

import vlib
from corr import converter as corr_converter

WHAT = "bit-field codec laws"


# ---- the laws, re-checked directly on the implementation (used to turn a broken proof /
# ---- correspondence into a concrete failing input, and by --replay) -------------------------

LAW_DRIVER = r'''
import json, sys, signal
from pyscsi.utils import converter as cv
class Hang(Exception): pass
def on_alarm(s, f): raise Hang()
signal.signal(signal.SIGALRM, on_alarm)
def to_layout(L):
    return {k: ([e[1], e[2]] if e[0] == "mask" else ({1: "b", 2: "w", 4: "dw"}[e[1]], e[2], e[3])) for k, e in L}
def to_val(v): return v[1] if v[0] == "i" else bytearray(v[1])
def field_bits(e, n):
    if e[0] == "mask":
        m, o = e[1], e[2]; k = 1; mm = m
        while mm > 0xFF: mm >>= 8; k += 1
        z = (m & -m).bit_length() - 1; w = (m >> z).bit_length()
        lo = 8 * (n - o - k) + z
        return set(range(lo, lo + w))
    u, o, ln = e[1], e[2], e[3]
    return set(range(8 * (n - o - u * ln), 8 * (n - o)))
def check(c):
    if c["law"] == "int_bytes":
        v, n = c["v"], c["n"]
        b0 = cv.scsi_int_to_ba(v, n)          # what an earlier caller did with ITS result must not matter
        b0 += b"\xaa"
        b0[0] ^= 0xFF
        b = cv.scsi_int_to_ba(v, n)
        if b is b0: return "int_to_ba returns the same object twice (a caller's changes show up in later results)"
        if len(b) != n: return "int_to_ba length"
        if cv.scsi_ba_to_int(b) != v % (256 ** n): return "ba_to_int(int_to_ba v n) != v mod 256^n"
        for i in range(n):
            if b[i] != (v >> (8 * (n - 1 - i))) & 0xFF: return "not big-endian at byte %d" % i
        return None
    L, d, prior, n = c["L"], c["d"], c["prior"], c["n"]
    lay = to_layout(L)
    # decode after encode (on zeros)
    buf = bytearray(n)
    cv.encode_dict({k: to_val(v) for k, v in d}, lay, buf)
    if len(buf) != n: return "buffer length changed"
    res = {}
    cv.decode_bits(buf, lay, res)
    dd = dict((k, v) for k, v in d)
    for k, e in L:
        exp = to_val(dd[k]) if k in dd else (0 if e[0] == "mask" else bytearray(e[1] * e[3]))
        if res[k] != exp: return "decode(encode)[%s] = %r, expected %r" % (k, res[k], exp)
    # all other bits zero
    X = int.from_bytes(buf, "big")
    allowed = set()
    for k, e in L:
        if k in dd: allowed |= field_bits(e, n)
    for j in range(8 * n):
        if (X >> j) & 1 and j not in allowed: return "bit %d set outside every supplied field" % j
    # frame on arbitrary prior contents
    buf2 = bytearray(prior)
    cv.encode_dict({k: to_val(v) for k, v in d}, lay, buf2)
    P, Y = int.from_bytes(bytes(prior), "big"), int.from_bytes(buf2, "big")
    for j in range(8 * n):
        if j not in allowed and ((P >> j) & 1) != ((Y >> j) & 1): return "frame: bit %d changed" % j
    # order independence
    buf3 = bytearray(n)
    cv.encode_dict({k: to_val(v) for k, v in reversed(d)}, lay, buf3)
    if buf3 != buf: return "result depends on the order of the fields"
    # encode after decode on a canonical buffer
    canon = bytearray(n)
    Z = int.from_bytes(bytes(prior), "big")
    every = set()
    for k, e in L: every |= field_bits(e, n)
    Z &= sum(1 << j for j in every)
    canon[:] = Z.to_bytes(n, "big")
    res2 = {}
    cv.decode_bits(canon, lay, res2)
    buf4 = bytearray(n)
    cv.encode_dict(res2, lay, buf4)
    if buf4 != canon: return "encode(decode(b)) != b"
    return None
out = []
for c in json.load(sys.stdin):
    signal.setitimer(signal.ITIMER_REAL, 1.0)
    try:
        out.append(check(c))
    except Hang:
        out.append("does not terminate")
    except Exception as e:
        out.append("raises %s: %s" % (type(e).__name__, e))
    finally:
        signal.setitimer(signal.ITIMER_REAL, 0)
print(json.dumps(out))
'''


def law_cases(seed, count):
    rng = random.Random(seed ^ 0xC10)
    cases = []
    for n in range(0, 10):
        for v in (0, 1, 255, 256, 1 << (8 * n), (1 << (8 * n)) - 1, rng.getrandbits(8 * n + 3)):
            cases.append(dict(law="int_bytes", v=v, n=n))
    while len(cases) < count:
        n = rng.randint(1, 20)
        L = corr_converter.gen_layout(rng, n, valid=True)
        d = [[k, corr_converter.field_value(rng, e)] for k, e in L if rng.random() < 0.8]
        rng.shuffle(d)
        cases.append(dict(law="layout", n=n, L=L, d=d, prior=[rng.randint(0, 255) for _ in range(n)]))
    return cases


def run_laws(cases):
    p = os.path.join(vlib.TOOLS, "corr", "_c10_law_driver.py")
    open(p, "w").write(LAW_DRIVER)
    try:
        return vlib.run_impl("corr/_c10_law_driver.py", cases, timeout=600)
    finally:
        os.remove(p)


def search(seed, count=3000, extra=()):
    cases = list(extra) + law_cases(seed, count)
    res = run_laws(cases)
    for c, r in zip(cases, res):
        if r is not None:
            return dict(kind="c10-law", case=c, observed=r)
    return None


def replay(obj):
    if obj.get("kind") != "c10-law":
        return False, "replay names a broken obligation, not an input: %s" % obj.get("what")
    r = run_laws([obj["case"]])[0]
    return r is None, "law check on the implementation: %s" % (r or "holds")


def run(rep, tier, seed, summary):
    ok, log = vlib.build_property(rep, "C10")
    vlib.grep_gate(rep)
    if ok:
        vlib.print_assumptions(rep, "C10")
    bad = corr_converter.run(rep, tier, seed)
    # the regenerated converter.py (the subject of the C10_py_* theorems) against the real functions
    from corr import pyfuncs
    rep.extra["pyconv_unknown"] = (summary.get("pyconv") or {}).get("unknown")
    pybad = pyfuncs.run_conv(rep, tier, seed, summary)
    bad = list(bad) + [dict(case=dict(op="pyconv", detail=b)) for b in pybad]
    # the laws themselves, on the implementation, on every run (also when every obligation checks)
    n_laws = 1500 if tier == "quick" else 20000
    hit0 = search(seed ^ 0x1A, n_laws)
    rep.suite("codec laws on the implementation (big-endian / inverse / fresh result objects; decode-after-encode, frame, order independence, "
              "encode-after-decode) on generated well-formed layouts", n_laws, 1 if hit0 else 0, samples=[], distribution={})
    if hit0:
        rep.violation("a codec law fails on the implementation: %s" % hit0["observed"], hit0, True)
        return
    if ok and not bad and all(o[1] for o in rep.obligations):
        return
    # something no longer checks: look for a concrete input on which a law fails on the implementation
    def in_quantifier(c):
        """non-overlapping contiguous non-zero masks / blobs inside the buffer, values in range: the property's hypotheses"""
        n = len(c["r"])
        used = set()
        lay = dict((k, e) for k, e in c["L"])
        if len(lay) != len(c["L"]):
            return False
        for k, e in c["L"]:
            if e[0] == "mask":
                m, o = e[1], e[2]
                if m == 0:
                    return False
                z = (m & -m).bit_length() - 1
                w = (m >> z).bit_length()
                if (m >> z) != (1 << w) - 1:
                    return False
                kb = max(1, (m.bit_length() + 7) // 8)
                if o + kb > n:
                    return False
                bits = set(range(8 * (n - o - kb) + z, 8 * (n - o - kb) + z + w))
            else:
                u, o, ln = e[1], e[2], e[3]
                if o + u * ln > n:
                    return False
                bits = set(range(8 * (n - o - u * ln), 8 * (n - o)))
            if bits & used:
                return False
            used |= bits
        keys = [k for k, _ in c["d"]]
        if len(set(keys)) != len(keys):
            return False
        for k, v in c["d"]:
            if k not in lay:
                continue
            e = lay[k]
            if e[0] == "mask":
                z = (e[1] & -e[1]).bit_length() - 1
                if v[0] != "i" or v[1] >= (1 << ((e[1] >> z).bit_length())):
                    return False
            elif v[0] != "b" or len(v[1]) != e[1] * e[3]:
                return False
        return True

    extra = []
    for b in bad[:200]:
        c = b.get("case")
        if c and c.get("op") == "enc" and not in_quantifier(c):
            continue
        if c and c.get("op") == "enc":
            extra.append(dict(law="layout", n=len(c["r"]), L=c["L"], d=c["d"], prior=c["r"]))
        if c and c.get("op") == "i2b":
            extra.append(dict(law="int_bytes", v=c["v"], n=c["n"]))
    hit = search(seed, 4000 if tier == "quick" else 40000, extra)
    what = "; ".join(n for n, okk, _ in rep.obligations if not okk)
    if hit:
        rep.violation("a codec law fails on the implementation: %s" % hit["observed"], hit, True)
    else:
        rep.violation("no longer shown to hold: " + what,
                      dict(kind="broken-obligation", obligations=[o for o in rep.obligations if not o[1]],
                           mismatching_cases=bad[:5]), False)
