"""C19 — the transport bindings are optional; a missing one is refused, not half-used."""
import json
import os
import random
import socket

import vlib

PID = "C19"
CONFIGS = ["", "sgio", "iscsi", "sgio,iscsi"]


def gen_cases(seed):
    rng = random.Random(seed ^ 0xC19)
    devs = ["/dev/sg0", "/dev/", "/dev", "/dev/shm/x", "/Dev/sg0", "dev/sg0", " /dev/sg0", "/devx/sg0", "/de/v/", "iscsi://h/iqn.t/0",
            "iscsi://", "iscsi:/h", "iscsi:///", "ISCSI://h/t/0", "iscsi//h", "iscsi:/", "", "x", "/", "file:///dev/sg0", "iscsi://h/t/7",
            "/dev/sg0iscsi://", "iscsi:///dev/sg0",
            # URLs with CHAP credentials, ports, escapes and queries; paths with unusual characters: opened exactly as requested
            "iscsi://user%secret@10.0.0.1:3260/iqn.2000-01.t:x/0", "iscsi://u%p@h/t/1", "iscsi://user@h/t/0", "iscsi://h/t%41/0",
            "iscsi://h:3260/iqn.t/0?x=y", "iscsi://a%b%c@d@e/t/2", "/dev/sg0%x@y", "/dev/disk/by-id/scsi-3600%41@b", "/dev/sg0 ", "/dev//sg0/../sg1"]
    for _ in range(30):
        base = rng.choice(["/dev/", "iscsi://"])
        i = rng.randrange(len(base))
        devs.append(base[:i] + rng.choice("xX/:_. ") + base[i + 1:] + "tail")
        devs.append(base[:rng.randint(0, len(base))])
    cases = []
    for d in devs:
        for rw in (False, True):
            for iname in (None, "", "iqn.2000-01.verif:init"):
                cases.append(dict(via="init_device", dev=d, rw=rw, iname=iname))
        cases.append(dict(via="SCSIDevice", dev=d, rw=False, iname=None))
        cases.append(dict(via="ISCSIDevice", dev=d, rw=False, iname=""))
        cases.append(dict(via="ISCSIDevice", dev=d, rw=False, iname="iqn.x"))
    return cases


def run_config(cfg, cases):
    env = vlib.impl_env([os.path.join(vlib.TOOLS, "stubs"), vlib.TOOLS])
    env["VERIF_BINDINGS"] = cfg
    rc, out, _ = vlib.sh([vlib.PY, os.path.join(vlib.TOOLS, "corr", "initdev_impl.py")], timeout=300, env=env,
                         inp=json.dumps(dict(cases=cases)))
    if rc != 0:
        raise RuntimeError("configuration %r: driver failed\n%s" % (cfg, out[-2000:]))
    return json.loads(out.strip().split("\n")[-1])


def oracle(cfg, c, r):
    """the property's dispatch table, on the implementation"""
    has = set(x for x in cfg.split(",") if x)
    dev = c["dev"]
    default_iname = "iqn.2018-01.org.pyscsi:%s" % socket.gethostname()
    want = None
    if c["via"] in ("init_device", "SCSIDevice") and dev.startswith("/dev/") and (c["via"] == "SCSIDevice" or True):
        if c["via"] == "SCSIDevice" or not dev.startswith("iscsi://"):
            want = ("SCSIDevice", "sgio")
    if c["via"] in ("init_device", "ISCSIDevice") and dev.startswith("iscsi://"):
        want = ("ISCSIDevice", "iscsi")
    if c["via"] == "SCSIDevice" and not dev.startswith("/dev/"):
        want = None
    if c["via"] == "ISCSIDevice" and not dev.startswith("iscsi://"):
        want = None
    if want and want[1] in has:
        if r.get("ok") != want[0]:
            return "expected a %s, got %s" % (want[0], r)
        if want[0] == "SCSIDevice":
            if r["opens"] != [["open", dev, "w+b" if c["rw"] else "rb"]] or r["iscsi"]:
                return "opened %s / %s, expected exactly open(%r, %r)" % (r["opens"], r["iscsi"], dev, "w+b" if c["rw"] else "rb")
        else:
            iname = c["iname"] if c["iname"] is not None else default_iname
            name = iname if len(iname) else dev
            exp = [["Context", name], ["URL", dev]]
            if [x for x in r["iscsi"] if x[0] != "connect"] != exp or sum(1 for x in r["iscsi"] if x[0] == "connect") != 1 or r["opens"]:
                return "iscsi calls %s (opens %s), expected Context(%r), URL(%r), one connect" % (r["iscsi"], r["opens"], name, dev)
    else:
        if r.get("exn") != "NotImplementedError":
            return "expected NotImplementedError, got %s" % r
        if r["opens"] or r["iscsi"]:
            return "refused, but something was opened first: %s %s" % (r["opens"], r["iscsi"])
    return None


def replay(obj):
    if obj.get("kind") != "c19-case":
        return False, "replay names a broken obligation, not an input: %s" % obj.get("what")
    out = run_config(obj["config"], [obj["case"]])
    if obj["case"] == "imports":
        return not out["import_errors"], "imports: %s" % (out["import_errors"] or "all modules import")
    why = oracle(obj["config"], obj["case"], out["results"][0])
    return why is None, ("on the implementation: %s" % (why or "dispatch as required"))


def run(rep, tier, seed, summary):
    rep.assumptions.append("the bindings are stand-ins (tools/stubs) made importable or not per configuration by an import hook; "
                           "Python's import machinery is exercised, not modelled")
    ok, log = vlib.build_property(rep, PID)
    vlib.grep_gate(rep)
    if ok:
        vlib.print_assumptions(rep, PID)
    cases = gen_cases(seed)
    outs = {cfg: run_config(cfg, cases) for cfg in CONFIGS}
    hits = []
    # the import half: every module imports, commands build/encode/decode, the facade works — identically in all four
    for cfg, o in outs.items():
        if o["import_errors"]:
            hits.append(dict(kind="c19-case", id="import fails with bindings {%s}: %s" % (cfg, sorted(o["import_errors"])[0]),
                             config=cfg, case="imports", observed=str(o["import_errors"])[:400]))
        if "digest_error" in o:
            hits.append(dict(kind="c19-case", id="commands/facade unusable with bindings {%s}" % cfg, config=cfg, case="imports",
                             observed=o["digest_error"]))
    digests = {json.dumps(o.get("digest")) for o in outs.values()}
    rep.oblig("imports + build/encode/decode + facade give identical results in all 4 binding configurations (%d modules each)"
              % outs[""]["modules"], len(digests) == 1 and not any(o["import_errors"] for o in outs.values()),
              "configurations differ" if len(digests) != 1 else "")
    # the dispatch half: model vs implementation
    with vlib.Lock():
        vlib.coq_make(["Model/InitDevice.vo"])

    def cs(x):
        return vlib.cstr(x)
    default_iname = "iqn.2018-01.org.pyscsi:%s" % socket.gethostname()
    rows = []
    flat = []
    for cfg in CONFIGS:
        for c, r in zip(cases, outs[cfg]["results"]):
            flat.append((cfg, c, r))
            iname = c["iname"] if c["iname"] is not None else (default_iname if c["via"] == "init_device" else "")
            cfgt = "(mkCfg %s %s)" % (vlib.cbool("sgio" in cfg), vlib.cbool("iscsi" in cfg))
            call = {"init_device": "init_device %s %s %s %s" % (cfgt, cs(c["dev"]), vlib.cbool(c["rw"]), cs(iname)),
                    "SCSIDevice": "new_scsi_device %s %s %s" % (cfgt, cs(c["dev"]), vlib.cbool(c["rw"])),
                    "ISCSIDevice": "new_iscsi_device %s %s %s" % (cfgt, cs(c["dev"]), cs(iname))}[c["via"]]
            if "ok" in r:
                calls = ["COpen %s %s" % (cs(x[1]), cs(x[2])) for x in r["opens"]]
                for x in r["iscsi"]:
                    calls.append({"Context": "CContext %s" % cs(x[1]) if x[0] == "Context" else "", "URL": "CUrl %s" % cs(x[1]) if x[0] == "URL" else "",
                                  "connect": "CConnect"}[x[0]])
                exp = "Ok (%s, [%s])" % ("DSCSIDevice" if r["ok"] == "SCSIDevice" else "DISCSIDevice", "; ".join(calls))
            else:
                exp = "Raise %s" % vlib.cexn(r["exn"])
            rows.append("(%s, %s)" % (call, exp))
    text = ("From Coq Require Import String.\nFrom PS Require Import Base.Bytes Base.Result Model.CorrUtil Model.InitDevice.\n"
            "Open Scope string_scope.\n"
            "Definition call_eqb (a b : extcall) : bool := match a, b with COpen p m, COpen q n => String.eqb p q && String.eqb m n "
            "| CContext x, CContext y => String.eqb x y | CUrl x, CUrl y => String.eqb x y | CConnect, CConnect => true | _, _ => false end.\n"
            "Definition res_eqb (a b : devclass * list extcall) : bool := match fst a, fst b with DSCSIDevice, DSCSIDevice | DISCSIDevice, DISCSIDevice => true | _, _ => false end && list_eqb call_eqb (snd a) (snd b).\n"
            "Definition cases : list (result (devclass * list extcall) * result (devclass * list extcall)) := [\n  %s].\n"
            "Eval vm_compute in (mismatches (fun c => result_eqb res_eqb (fst c) (snd c)) cases).\n" % ";\n  ".join(rows))
    rc, out = vlib.coqc_text("cases_initdev", text)
    mm = vlib.parse_eval_list(out)
    bad = []
    if rc != 0 or mm is None:
        rep.oblig("correspondence:init_device compiles", False, out[-600:])
        bad = [None]
    else:
        bad = [dict(config=flat[j][0], case=flat[j][1], impl=flat[j][2]) for j in mm]
        rep.suite("init_device / SCSIDevice / ISCSIDevice on %d device strings x rw x initiator names x 4 binding configurations vs Model/InitDevice.v"
                  % len({c["dev"] for c in cases}), len(flat), len(bad), distinct=len(flat),
                  samples=[dict(config=flat[5][0], case=flat[5][1], impl=flat[5][2])],
                  distribution=dict(ok=sum(1 for x in flat if "ok" in x[2]), refused=sum(1 for x in flat if "exn" in x[2])))
    import re
    seen = set()
    for cfg, c, r in flat:
        why = oracle(cfg, c, r)
        if why:
            sig = "%s {%s}: %s" % (c["via"], cfg, re.sub(r"'[^']*'|\"[^\"]*\"", "S", why)[:80])
            if sig not in seen:
                seen.add(sig)
                hits.append(dict(kind="c19-case", id=sig, config=cfg, case=c, observed=why))
    known = {k["id"]: k for k in vlib.load_known() if k.get("property") == PID and k.get("status") == "known"}
    new = [h for h in hits if h["id"] not in known]
    for h in hits:
        if h["id"] in known:
            rep.known("%s (%s)" % (known[h["id"]]["what"], h["id"]))
    for h in new[:6]:
        rep.violation(h["observed"], h, True)
    all_ok = ok and not bad and all(o[1] for o in rep.obligations)
    if not new and not all_ok:
        rep.violation("no longer shown to hold: " + "; ".join(n for n, okk, _ in rep.obligations if not okk),
                      dict(kind="broken-obligation", obligations=[o for o in rep.obligations if not o[1]],
                           mismatching_cases=bad[:3]), False)
