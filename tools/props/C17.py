"""C17 — invalid requests are refused before anything is sent."""
import os

import vlib
from corr import ctors as corr_ctors

PID = "C17"


def impl_refusals():
    res = vlib.run_impl("corr/refusals_impl.py", {}, extra_path=[os.path.join(vlib.TOOLS, "stubs")], timeout=300)
    bad = []
    for r in res:
        if r["outcome"] != r["expect"] or r["sent"] != 0:
            bad.append(dict(kind="c17-refusal", id=r["name"], scenario=r["name"], expected=r["expect"], observed=r["outcome"],
                            commands_sent=r["sent"]))
    return res, bad


def ctor_refusals(summary):
    """block size 0 and all 256 operation codes directly on the real constructors"""
    import ctor_oracle
    sp = ctor_oracle.specs()
    probes = []
    needs = {"Read10", "Read12", "Read16", "Write10", "Write12", "Write16", "WriteSame10", "WriteSame16"}
    sa = [[k, v] for k, v in ctor_oracle.sa_t10().items()]
    for ci in summary["ctors"]["ctors"]:
        if not ci.get("cls") or ci["key"] not in sp:
            continue
        base = ctor_oracle.base_args(ci, sp[ci["key"]])
        n = sp[ci["key"]]["len"]
        if ci["cls"] in needs:
            for lba in (0, 1, 2 ** 31):
                a = dict(base)
                a["blocksize"] = ["i", 0]
                a["lba"] = ["i", lba]
                probes.append(dict(key=ci["key"], stem=ci["stem"], cls=ci["cls"], op=ctor_oracle.natural_opcode(n), sa=sa, pos=[],
                                   kw=[[p, a[p]] for p in ci["params"]], calls=[], expect="MissingBlocksizeException"))
        for v in range(256):
            g = v >> 5
            if g in (3, 6, 7):
                probes.append(dict(key=ci["key"], stem=ci["stem"], cls=ci["cls"], op=v, sa=sa, pos=[],
                                   kw=[[p, base[p]] for p in ci["params"]], calls=[], expect="OpcodeException"))
    # ATA PASS-THROUGH: every flag combination that transfers logical-sector blocks without a block size, also with zero counts
    for ci in summary["ctors"]["ctors"]:
        if ci.get("cls", "").startswith("ATAPassThrough") and ci["key"] in sp:
            base = ctor_oracle.base_args(ci, sp[ci["key"]])
            for tl in (1, 2, 3):
                for feat in (0, 3):
                    for cnt in (0, 5):
                        for ex in (["n"], ["i", 0], ["i", 7]):
                            for d in (0, 1):
                                a = dict(base)
                                a.update(t_length=["i", tl], byte_block=["i", 1], t_type=["i", 1], t_dir=["i", d], fetures=["i", feat],
                                         count=["i", cnt], extra_tl=ex, blocksize=["i", 0], protocal=["i", 4], command=["i", 0xEC])
                                probes.append(dict(key=ci["key"], stem=ci["stem"], cls=ci["cls"], op=ctor_oracle.natural_opcode(sp[ci["key"]]["len"]),
                                                   sa=sa, pos=[], kw=[[p, a[p]] for p in ci["params"]], calls=[], expect="MissingBlocksizeException"))
    res = ctor_oracle.run_probes(probes)
    bad = []
    for p, r in zip(probes, res):
        got = r["res"][1] if r["res"][0] == "exn" else "returned"
        if got != p["expect"]:
            bad.append(dict(kind="c17-ctor", id="%s op=%#x expects %s" % (p["key"], p["op"], p["expect"]),
                            probe={k: v for k, v in p.items() if k != "calls"}, observed=got))
    return len(probes), bad


def replay(obj):
    if obj.get("kind") == "c17-refusal":
        res, bad = impl_refusals()
        now = [b for b in bad if b["id"] == obj["id"]]
        return not now, ("still not refused: %s" % now[0] if now else "refused as required")
    if obj.get("kind") == "c17-ctor":
        import ctor_oracle
        p = dict(obj["probe"])
        p["calls"] = []
        r = ctor_oracle.run_probes([p])[0]
        got = r["res"][1] if r["res"][0] == "exn" else "returned"
        return got == p["expect"], "constructor: %s (expected %s)" % (got, p["expect"])
    return False, "replay names a broken obligation, not an input: %s" % obj.get("what")


def run(rep, tier, seed, summary):
    vlib.validate_translator(rep, summary, parts=("tables",))
    ok, log = vlib.build_property(rep, PID)
    vlib.grep_gate(rep)
    if ok:
        vlib.print_assumptions(rep, PID)
    bad = corr_ctors.run(rep, tier, seed, summary)
    # the refusals that go through the facade / the parameter-list marshallers, and the constructor refusals,
    # observed directly on the implementation (exhaustive over the 256 operation codes)
    res, bad_ref = impl_refusals()
    rep.suite("facade / marshaller refusal scenarios on the implementation (error class, nothing sent, nothing returned)",
              len(res), len(bad_ref), samples=res[:2],
              distribution={e: sum(1 for r in res if r["expect"] == e) for e in {r["expect"] for r in res}})
    nprobe, bad_ctor = ctor_refusals(summary)
    rep.suite("constructor refusals on the implementation: block size 0; all operation codes of groups 3, 6, 7 x 42 classes",
              nprobe, len(bad_ctor), samples=[dict(classes=42, opcodes_per_class=96)])
    known = {k["id"]: k for k in vlib.load_known() if k.get("property") == PID and k.get("status") == "known"}
    hits = bad_ref + bad_ctor
    new = [h for h in hits if h["id"] not in known]
    for h in hits:
        if h["id"] in known:
            rep.known("%s (%s)" % (known[h["id"]]["what"], h["id"]))
    for h in new[:10]:
        rep.violation("not refused: %s" % h["id"], h, True)
    all_ok = ok and not bad and all(o[1] or o[0].startswith("correspondence:facade") or o[0].startswith("correspondence:constructor refusals")
                                    for o in rep.obligations)
    if not new and not all_ok:
        rep.violation("no longer shown to hold: " + "; ".join(n for n, okk, _ in rep.obligations if not okk),
                      dict(kind="broken-obligation", obligations=[o for o in rep.obligations if not o[1]],
                           mismatching_cases=bad[:5]), False)
