"""C04 — well-formed device responses are decoded to the values the device sent."""
import os
import random
import re

import vlib
import spec_resp

PID = "C04"
WHOLE = {"ReadCapacity10": "scsi_cdb_readcapacity10.ReadCapacity10.unmarshall_datain",
         "ReadCapacity16": "scsi_cdb_readcapacity16.ReadCapacity16.unmarshall_datain"}
LISTS = {"GetLBAStatus": ("scsi_cdb_getlbastatus.GetLBAStatus.unmarshall_datain", "lbas"),
         "ReportLuns": ("scsi_cdb_report_luns.ReportLuns.unmarshall_datain", "luns"),
         "PersistentReserveInReadKeys": ("scsi_cdb_persistentreservein.PersistentReserveInReadKeys.unmarshall_datain", "reservation_keys")}
FLAT_VPD = (0xB0, 0xB1, 0xB2, 0xB3, 0x86)
# self-describing descriptor lists: decoder, key of the result list, region of the buffer that holds the descriptors
VARL = {
    "vpd_device_identification": ("scsi_cdb_inquiry.Inquiry.unmarshall_datain", "designator_descriptors",
                                  lambda d: d[:4 + int.from_bytes(bytes(d[2:4]), "big")][4:]),
    "prin_read_full_status": ("scsi_cdb_persistentreservein.PersistentReserveInReadFullStatus.unmarshall_datain", "full_status",
                              lambda d: d[8:int.from_bytes(bytes(d[4:8]), "big") + 8]),
    "report_priority": ("scsi_cdb_report_priority.ReportPriority.unmarshall_datain", "priority_descriptors",
                        lambda d: d[4:int.from_bytes(bytes(d[:4]), "big") + 4]),
    "readelementstatus": ("scsi_cdb_readelementstatus.ReadElementStatus.unmarshall_datain", "element_status_pages",
                          lambda d: d[8:8 + int.from_bytes(bytes(d[5:8]), "big")]),
}


def impl(payload):
    return vlib.run_impl("corr/resp_impl.py", payload, timeout=900)


def cval(v):
    if isinstance(v, dict) and "__b" in v:
        return "VB %s" % vlib.cbytes(bytes.fromhex(v["__b"]))
    return "VI %d" % v


def cdict(d):
    return "[%s]" % "; ".join('(%s, %s)' % (vlib.cstr(k), cval(v)) for k, v in d.items())


def raw_cases(seed, tier):
    """buffers for the model-vs-code comparison: what the conformant device sends, and damaged versions of it"""
    rng = random.Random(seed ^ 0xC04)
    base = [c for c in spec_resp.cases(random.Random(seed), 6 if tier == "quick" else 40)
            if c["call"] in WHOLE or c["call"] in LISTS or c["fmt"] in VARL or (c["call"] == "Inquiry" and (c["args"].get("evpd") == 0 or c["data"][1] in FLAT_VPD))]
    out = []
    for c in base:
        d = list(c["data"])
        out.append((c["call"], c["args"], d, c["fmt"]))
        if c["fmt"] in VARL:
            continue                       # (damaged nested responses mostly raise; the walk is compared on conformant ones)
        k = rng.random()
        if k < 0.35 and len(d) > 2:
            out.append((c["call"], c["args"], d[:rng.randrange(1, len(d))], c["fmt"]))            # truncated
        elif k < 0.6:
            e = list(d)
            for _ in range(rng.randint(1, 4)):
                if e:
                    e[rng.randrange(len(e))] = rng.randrange(256)                      # corrupted (incl. length fields)
            out.append((c["call"], c["args"], e, c["fmt"]))
        elif k < 0.7:
            out.append((c["call"], c["args"], [rng.randrange(256) for _ in range(rng.choice([0, 3, 8, 40]))], c["fmt"]))
    return out


PRELUDE = """From Coq Require Import String.
From PS Require Import Base.Bytes Base.Result Model.Converter Model.Parser Model.ParserInst Model.CorrUtil Model.VarList Proofs.ParserChecks Gen.Tables Gen.Parsers.
Open Scope string_scope. Open Scope N_scope.
Definition dict := list (string * value).
Inductive pcase :=
| PWhole (fn : string) (data : bytes) (exp : result dict)
| PInq (evpd : N) (data : bytes) (exp : result dict)
| PListD (fn : string) (data : bytes) (exp : list dict)        (* descriptors decoded with the decoder's table *)
| PListI (fn : string) (data : bytes) (exp : list N)           (* descriptors as integers *)
| PWalk (fn : string) (region : bytes) (count : nat).          (* self-describing descriptors: how many the decoder returned *)
Definition deq := list_eqb kv_eqb.
Fixpoint list_match {A B} (f : A -> B -> bool) (a : list A) (b : list B) : bool :=
  match a, b with [], [] => true | x :: a', y :: b' => f x y && list_match f a' b' | _, _ => false end.
Definition chk (c : pcase) : bool :=
  match c with
  | PWhole fn data exp => result_eqb deq (parse_whole_named fn data) exp
  | PInq evpd data exp => result_eqb deq (parse_inquiry evpd data) exp
  | PListD fn data exp =>
      match parse_list_named fn data, lookup fn list_parsers with
      | Some cs, Some (_, tn) =>
          match lookup tn all_tables with
          | Some T => list_match (fun c e => result_eqb deq (decode_bits c T) (Ok e)) cs exp
          | None => false
          end
      | _, _ => false
      end
  | PListI fn data exp =>
      match parse_list_named fn data with
      | Some cs => list_eqb N.eqb (map ba_to_int cs) exp
      | None => false
      end
  | PWalk fn region n =>
      match Proofs.ParserChecks.walk_named fn region with
      | Some cs => Nat.eqb (length cs) n
      | None => false
      end
  end.
"""


def coq_case(call, args, data, r, fmt=None):
    if fmt in VARL:
        if "exn" in r:
            return None
        fn, key, region = VARL[fmt]
        return 'PWalk "%s" %s %d%%nat' % (fn, vlib.cbytes(region(data)), len(r["result"].get(key, [])))
    exp = ("Raise %s" % vlib.cexn(r["exn"])) if "exn" in r else None
    if call in WHOLE:
        return "PWhole \"%s\" %s (%s)" % (WHOLE[call], vlib.cbytes(data), exp or "Ok %s" % cdict(r["result"]))
    if call == "Inquiry":
        if args.get("evpd", 0) and (len(data) < 2 or data[1] not in FLAT_VPD):
            return None                 # a page whose decoder is not modelled
        return "PInq %d %s (%s)" % (args.get("evpd", 0), vlib.cbytes(data), exp or "Ok %s" % cdict(r["result"]))
    fn, key = LISTS[call]
    if exp:
        return None
    if call == "GetLBAStatus":
        return "PListD \"%s\" %s [%s]" % (fn, vlib.cbytes(data), "; ".join(cdict(x) for x in r["result"][key]))
    vals = r["result"][key]
    if any(not isinstance(v, int) for v in vals):
        return None
    return "PListI \"%s\" %s [%s]" % (fn, vlib.cbytes(data), "; ".join(str(v) for v in vals))


def replay(obj):
    if obj.get("kind") != "c04-response":
        return False, "replay names a broken obligation, not an input: %s" % obj.get("what")
    cases = spec_resp.cases(random.Random(obj["seed"]), obj["n_each"])
    res = impl(dict(seed=obj["seed"], n_each=obj["n_each"]))
    r = res[obj["index"]]
    return r["why"] is None, "on the implementation: %s %s" % (cases[obj["index"]]["fmt"], r["why"] or "decoded to the values the device sent")


def run(rep, tier, seed, summary):
    rep.assumptions.append("Spec/RespFormats.v (= tools/spec_formats.py) and the list / length rules in tools/spec_resp.py are my reading of "
                           "SPC-4, SBC-3, SMC-3 and MMC-6")
    vlib.validate_translator(rep, summary, parts=("tables",))
    ok, log = vlib.build_property(rep, PID)
    vlib.grep_gate(rep)
    if ok:
        vlib.print_assumptions(rep, PID)
    # the specification file is the one tools/spec_formats.py writes
    import spec_formats
    same = open(os.path.join(vlib.COQ, "Spec", "RespFormats.v")).read() == spec_formats.emit_coq()
    rep.oblig("spec:coq/Spec/RespFormats.v is what tools/spec_formats.py states", same, "")
    # (1) the conformant device against the real decoders
    n_each = 10 if tier == "quick" else 80
    res = impl(dict(seed=seed, n_each=n_each))
    cases = spec_resp.cases(random.Random(seed), n_each)
    known = {k["id"]: k for k in vlib.load_known() if k.get("property") == PID and k.get("status") == "known"}
    hits, seen, nbad = [], set(), 0
    for r in res:
        if r["why"]:
            nbad += 1
            sig = "%s: %s" % (r["fmt"], re.sub(r"0x[0-9a-f]+|\d+|b'.*'|[0-9a-f]{8,}", "N", r["why"]))
            if sig not in seen:
                seen.add(sig)
                hits.append(dict(kind="c04-response", id=sig, seed=seed, n_each=n_each, index=r["i"], format=r["fmt"],
                                 response=cases[r["i"]]["data"], observed=r["why"]))
    fmts = {}
    for c in cases:
        fmts[c["fmt"]] = fmts.get(c["fmt"], 0) + 1
    rep.suite("conformant-device responses (all 26 response kinds, 0..n descriptors, trailing bytes) decoded by the real parsers",
              len(cases), 0, samples=[dict(format=cases[0]["fmt"], response=cases[0]["data"][:24])],
              distribution=dict(per_format=fmts, not_decoded_to_sent_values=nbad))
    # (2) the model of the modelled decoders against the code
    raws = raw_cases(seed, tier)
    rr = impl(dict(raw=[x[:3] for x in raws]))
    with vlib.Lock():
        vlib.coq_make(["Model/ParserInst.vo", "Model/CorrUtil.vo", "Proofs/ParserChecks.vo"])
    lines, idx = [], []
    for j, ((call, args, data, fmt), r) in enumerate(zip(raws, rr)):
        t = coq_case(call, args, data, r, fmt)
        if t:
            lines.append(t)
            idx.append(j)
    bad, broken = [], None
    CH = 150
    for s in range(0, len(lines), CH):
        text = PRELUDE + "Definition cases : list pcase := [\n  %s].\nEval vm_compute in (mismatches chk cases).\n" % ";\n  ".join(lines[s:s + CH])
        rc, out = vlib.coqc_text("cases_resp_%d" % (s // CH), text)
        mm = vlib.parse_eval_list(out)
        if rc != 0 or mm is None:
            broken = out[-600:]
            break
        bad += [idx[s + j] for j in mm]
    if broken is not None:
        rep.oblig("correspondence:parser cases compile", False, broken)
    rep.suite("modelled decoders (READ CAPACITY 10/16, INQUIRY standard + flat VPD pages, REPORT LUNS, GET LBA STATUS, PR IN READ KEYS; descriptor walk of "
              "device identification, READ FULL STATUS, REPORT PRIORITY, READ ELEMENT STATUS) "
              "vs the code on conformant, truncated, corrupted and random buffers", len(lines), len(bad),
              distribution=dict(raised=sum(1 for r in rr if "exn" in r), buffers=len(raws)))
    # (3) the regenerated decoder / builder BODIES (Gen/PyFuncs.v under the semantics of Model/Py.v) against the real functions
    from corr import pyfuncs
    pybad, _pc, _pr = pyfuncs.run(rep, tier, seed, summary)
    rep.extra["pyfuncs_unknown"] = summary["pyfuncs"]["unknown"][:60]
    bad = list(bad) + [("pyfuncs", b) for b in pybad]
    new = [h for h in hits if h["id"] not in known]
    for h in hits:
        if h["id"] in known:
            rep.known("%s (%s)" % (known[h["id"]]["what"], h["id"]))
    for h in new[:6]:
        rep.violation("%s: %s" % (h["format"], h["observed"]), h, True)
    all_ok = ok and not bad and broken is None and all(o[1] for o in rep.obligations)
    if not new and not all_ok:
        rep.violation("no longer shown to hold: " + "; ".join(n for n, okk, _ in rep.obligations if not okk),
                      dict(kind="broken-obligation", obligations=[o for o in rep.obligations if not o[1]],
                           mismatching_cases=[(dict(call=raws[j][0], args=raws[j][1], data=raws[j][2], impl=rr[j]) if isinstance(j, int) else j[1]) for j in bad[:3]]), False)
