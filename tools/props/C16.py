"""C16 — attaching to a device selects the command set of its peripheral device type."""
import os
import random

import vlib

PID = "C16"
SPEC = {0: "sbc", 4: "sbc", 7: "sbc", 1: "ssc", 5: "mmc", 8: "smc"}


def gen_hists(seed, tier):
    rng = random.Random(seed ^ 0xC16)
    hists = [[dict(dev=0, b0=b, new_facade=True)] for b in range(256)]           # all 32 types x 8 qualifiers, fresh device
    for b in range(256):                                                           # re-attach after another type
        hists.append([dict(dev=0, b0=rng.choice([0, 1, 5, 8]), new_facade=True), dict(dev=1, b0=b, new_facade=False)])
    # whatever ELSE the standard INQUIRY data holds (vendor / product strings that are not text, all ones, high bytes): the type decides
    for t in (0, 1, 3, 4, 5, 7, 8, 0x0C, 0x1F, 0x20, 0x65):
        for rest in ("ff", "hi", rng.randrange(1 << 30), rng.randrange(1 << 30)):
            hists.append([dict(dev=0, b0=t, new_facade=True, rest=rest)])
            hists.append([dict(dev=0, b0=rng.choice([0, 1, 5, 8]), new_facade=True), dict(dev=1, b0=t, new_facade=False, rest=rest)])
    # the same over three objects of the REAL device class of each transport (stub bindings): the command set and device type stored by an
    # attach belong to that device object and to no other object of its class
    for real in ("sg", "iscsi"):
        for a in (0, 1, 5, 8):
            for b in (0, 1, 8, 3):
                hists.append([dict(dev=0, b0=a, new_facade=True, real=real), dict(dev=1, b0=b, new_facade=True, real=real),
                              dict(dev=2, b0=rng.choice([0, 1, 5, 8, 0x1F]), new_facade=rng.random() < 0.5, real=real)])
    for _ in range(300 if tier == "quick" else 5000):
        hists.append([dict(dev=rng.randint(0, 2), b0=rng.choice([0, 1, 3, 4, 5, 7, 8, 0x0C, 0x1F, rng.randint(0, 255)]),
                           new_facade=rng.random() < 0.3) for _ in range(rng.randint(2, 6))])
    return hists


BASE = {}


def oracle(hist, res):
    sets = ["spc", "spc", "spc"]
    for i, (st, r) in enumerate(zip(hist, res)):
        if r["exc"]:
            return "attach %d raised %s" % (i, r["exc"])
        if r["n_sent"] != 1:
            return "attach %d issued %d commands" % (i, r["n_sent"])
        cdb = r["cdbs"][0]
        if cdb[0] != 0x12 or (cdb[1] & 1) or cdb[2] != 0 or len(cdb) != 6:
            return "attach %d did not issue a standard INQUIRY: cdb %s" % (i, cdb)
        t = st["b0"] & 0x1F
        for j in range(3):
            if j != st["dev"] and r["sets"][j] != sets[j]:
                return "attach %d to device %d changed the command set of device %d (%s -> %s)" % (i, st["dev"], j, sets[j], r["sets"][j])
        got = r["sets"][st["dev"]]
        if t in SPEC and got != SPEC[t]:
            return "attach %d: device type %#x selected %s, expected %s" % (i, t, got, SPEC[t])
        if got not in ("spc", "sbc", "ssc", "smc", "mmc"):
            return "attach %d: device type %#x left an unknown command set" % (i, t)
        # no leak: what a re-attached facade selects equals what a brand-new facade selects for the same type on a device
        # in the same state (the baseline is filled from the attaches made with a new facade)
        key = (t, sets[st["dev"]])
        if st["new_facade"]:
            BASE.setdefault(key, got)
        elif key in BASE and BASE[key] != got:
            return "attach %d: device type %#x got %s from a re-used facade, %s from a new facade (the previous device's command set leaked)" % (
                i, t, got, BASE[key])
        sets = list(r["sets"])
    return None


def run_impl(hists):
    return vlib.run_impl("corr/attach_impl.py", hists, extra_path=[os.path.join(vlib.TOOLS, "stubs")], timeout=600)


def replay(obj):
    if obj.get("kind") != "c16-history":
        return False, "replay names a broken obligation, not an input: %s" % obj.get("what")
    fresh = [[dict(dev=0, b0=b, new_facade=True)] for b in range(256)]
    rs = run_impl(fresh + [obj["history"]])
    for h, r0 in zip(fresh, rs):
        oracle(h, r0)
    r = rs[-1]
    why = oracle(obj["history"], r)
    return why is None, ("on the implementation: %s" % (why or "every attach selected the set of the reported type"))


def run(rep, tier, seed, summary):
    vlib.validate_translator(rep, summary, parts=("opcodes", "tables"))
    ok, log = vlib.build_property(rep, PID)
    vlib.grep_gate(rep)
    if ok:
        vlib.print_assumptions(rep, PID)
    hists = gen_hists(seed, tier)
    results = run_impl(hists)
    with vlib.Lock():
        vlib.coq_make(["Model/Attach.vo"])
    # model side: the same histories through attach_all on the regenerated decision table
    body = ";\n  ".join("([%s], [%s])" % ("; ".join("(%d%%nat, %d)" % (s["dev"], s["b0"]) for s in h),
                                          "; ".join('"%s"' % x for x in r[-1]["sets"]))
                        for h, r in zip(hists, results))
    text = ("From Coq Require Import String.\nFrom PS Require Import Base.Bytes Base.Result Model.CorrUtil Model.Attach.\n"
            "Open Scope string_scope. Open Scope N_scope.\n"
            "Definition cases : list (list (nat * N) * list string) := [\n  %s].\n"
            "Eval vm_compute in (mismatches (fun c => list_eqb String.eqb (attach_all [\"spc\"; \"spc\"; \"spc\"] (fst c)) (snd c)) cases).\n" % body)
    rc, out = vlib.coqc_text("cases_attach", text)
    mm = vlib.parse_eval_list(out)
    bad = []
    if rc != 0 or mm is None:
        rep.oblig("correspondence:attach compiles", False, out[-500:])
        bad = [None]
    else:
        bad = [dict(history=hists[j], impl=results[j]) for j in mm]
        rep.suite("attach histories (all 256 INQUIRY first bytes, fresh and re-used devices and facades) vs attach_all on the regenerated table",
                  len(hists), len(bad), samples=[dict(history=hists[-1], final_sets=results[-1][-1]["sets"])],
                  distribution=dict(attaches=sum(len(h) for h in hists)))
        rep.extra["exhaustive"] = True
    known = {k["id"]: k for k in vlib.load_known() if k.get("property") == PID and k.get("status") == "known"}
    hits, seen = [], set()
    import re
    for h, r in zip(hists, results):
        why = oracle(h, r)
        if why:
            sig = re.sub(r"0x[0-9a-f]+|\d+", "N", why)
            if sig not in seen:
                seen.add(sig)
                hits.append(dict(kind="c16-history", id=sig, history=h, observed=why))
    new = [h for h in hits if h["id"] not in known]
    for h in hits:
        if h["id"] in known:
            rep.known("%s (%s)" % (known[h["id"]]["what"], h["id"]))
    for h in new[:6]:
        rep.violation(h["observed"], h, True)
    all_ok = ok and not bad and all(o[1] for o in rep.obligations)
    if not new and not all_ok:
        rep.violation("no longer shown to hold: " + "; ".join(n for n, okk, _ in rep.obligations if not okk),
                      dict(kind="broken-obligation", obligations=[o for o in rep.obligations if not o[1]],
                           mismatching_cases=bad[:3]), False)
