#!/usr/bin/env python3
"""Runtime reflection of the tables the translator extracts with `ast`, to validate the translator
(it is in the trusted base, so it is cross-checked on every run).  Runs under the repository's
interpreter; prints one JSON document."""
import importlib
import inspect
import json
import pkgutil
import os
import sys


def is_entry(v):
    if isinstance(v, (list, tuple)) and len(v) == 2 and all(isinstance(x, int) and not isinstance(x, bool) for x in v):
        return ["mask", v[0], v[1]]
    if isinstance(v, (list, tuple)) and len(v) == 3 and v[0] in ("b", "w", "dw") and isinstance(v[1], int) and isinstance(v[2], int):
        return ["blob", {"b": 1, "w": 2, "dw": 4}[v[0]], v[1], v[2]]
    return None


def as_table(d):
    if not isinstance(d, dict) or not d:
        return None
    if not all(isinstance(k, str) for k in d):
        return None
    ents = [(k, is_entry(v)) for k, v in d.items()]
    if not any(e is not None for _, e in ents):
        return None
    return [[k, e if e is not None else ["unknown"]] for k, e in ents]


ATTACHED = {}


def use_the_library():
    """--after-use: before the tables are dumped the library is USED — a facade attached (and re-attached) to devices of every
    peripheral device type, with every bit of the rest of the standard INQUIRY data set and clear, and every facade method called
    once — so that tables which only differ from T10 after some call in the process are seen as the caller sees them"""
    import inspect
    sys.path.insert(0, os.path.join(os.path.dirname(os.path.abspath(__file__)), "stubs"))
    from pyscsi.pyscsi import scsi_enum_command as ec
    from pyscsi.pyscsi.scsi import SCSI
    from recdev import RecordingDevice
    # an application makes its OWN OpCode objects that happen to carry a listed name and value (to describe a command the library has no
    # class for, or a variant of one) and then changes them through the documented setters: the library's tables are not its objects
    from pyscsi.pyscsi.scsi_opcode import OpCode
    for sname in ("spc", "sbc", "ssc", "smc", "mmc"):
        tbl = getattr(ec, sname)
        for k in list(tbl.keys):
            op = getattr(tbl, k)
            try:
                mine = OpCode(op.name, op.value, {"MY_ACTION": 0x1F})
                mine.value = op.value ^ 0xFF
                mine.name = "APPLICATION_" + str(op.name)
                mine.serviceaction.add("ANOTHER", 0x1E)
            except Exception:  # noqa
                pass
    for fillbyte in (0x00, 0xFF, 0x08, 0x55, 0xAA):
        for b0 in list(range(32)) + [0x20 | t for t in (0, 1, 5, 8)] + [0x7F, 0xFF]:
            dev = RecordingDevice(ec.spc)
            dev.fill = lambda cmd, b0=b0, fb=fillbyte: bytes([b0]) + bytes([fb]) * 95
            try:
                s = SCSI(dev, 512)
            except Exception:  # noqa
                continue
            # the table the attached device object carries IS what a caller of that device sees under the standard names
            try:
                tbl = dev.opcodes
                ents = []
                for k in tbl.keys:
                    op = getattr(tbl, k)
                    sa = op.serviceaction
                    ents.append([k, op.name, op.value, [[sk, getattr(sa, sk)] for sk in sa.keys]])
                if ents not in ATTACHED.values():
                    ATTACHED["type %02Xh" % b0] = ents
            except Exception as e:  # noqa
                ATTACHED["type %02Xh" % b0] = [["?", "?", -1, [["error", type(e).__name__]]]]
            dev2 = RecordingDevice(ec.spc)
            dev2.fill = lambda cmd, fb=fillbyte: bytes([0x01]) + bytes([fb]) * 95
            try:
                s(dev2)
            except Exception:  # noqa
                pass
            for name, fn in inspect.getmembers(s, predicate=inspect.ismethod):
                if name.startswith("_") or name in ("execute",):
                    continue
                sig = inspect.signature(fn)
                args = []
                for p in sig.parameters.values():
                    if p.kind in (p.VAR_KEYWORD, p.VAR_POSITIONAL):
                        continue
                    if p.default is not inspect.Parameter.empty:
                        continue
                    args.append(bytearray(512) if p.name == "data" else 1)
                try:
                    fn(*args)
                except Exception:  # noqa
                    pass


def main():
    if "--after-use" in sys.argv:
        use_the_library()
    import pyscsi
    out = dict(tables={}, opcodes={}, status=[], sense={}, modules=[], import_errors={})
    mods = []
    for m in pkgutil.walk_packages(pyscsi.__path__, "pyscsi."):
        try:
            mods.append(importlib.import_module(m.name))
            out["modules"].append(m.name)
        except Exception as e:  # noqa
            out["import_errors"][m.name] = "%s: %s" % (type(e).__name__, e)
    for mod in mods:
        stem = mod.__name__.split(".")[-1]
        for name, val in vars(mod).items():
            t = as_table(val)
            if t is not None and not name.startswith("__"):
                out["tables"]["%s.%s" % (stem, name)] = t
            if inspect.isclass(val) and val.__module__ == mod.__name__:
                for an, av in vars(val).items():
                    t = as_table(av)
                    if t is not None:
                        out["tables"]["%s.%s.%s" % (stem, name, an)] = t
    from pyscsi.pyscsi import scsi_enum_command as ec
    for s in ("spc", "sbc", "ssc", "smc", "mmc"):
        enum = getattr(ec, s)
        ents = []
        for k in enum.keys:
            op = getattr(enum, k)
            sa = op.serviceaction
            ents.append([k, op.name, op.value, [[sk, getattr(sa, sk)] for sk in sa.keys]])
        out["opcodes"][s] = ents
    # names a command set does NOT list (listed by another set, or the same command in another CDB size): looking one up must either fail or
    # give the operation code T10 assigns to THAT name — a lookup that falls back to a similar entry exposes a wrong value under a standard name
    import re as _re
    out["unlisted"] = []
    allnames = set()
    for s in ("spc", "sbc", "ssc", "smc", "mmc"):
        for k in getattr(ec, s).keys:
            allnames.add(k)
            base = _re.sub(r"_(6|10|12|16|32)$", "", k)
            allnames.add(base)
            for sz in ("6", "10", "12", "16", "32"):
                allnames.add(base + "_" + sz)
    for s in ("spc", "sbc", "ssc", "smc", "mmc"):
        enum = getattr(ec, s)
        have = set(enum.keys)
        for n in sorted(allnames - have):
            try:
                op = getattr(enum, n)
            except AttributeError:
                continue
            except Exception as e:  # noqa
                out["unlisted"].append([s, n, "exn", type(e).__name__])
                continue
            out["unlisted"].append([s, n, "ok", getattr(op, "value", None) if not isinstance(op, int) else op])
    out["attached"] = ATTACHED
    out["status"] = [[k, getattr(ec.SCSI_STATUS, k)] for k in ec.SCSI_STATUS.keys]
    from pyscsi.pyscsi import scsi_sense as ss
    out["sense"] = dict(
        consts={k: getattr(ss, k) for k in dir(ss) if k.startswith("SENSE_FORMAT")},
        sense_key_dict=[[k, v] for k, v in ss.sense_key_dict.items()],
        n_ascq=len(ss.sense_ascq_dict),
        ascq_sum=sum(k * 31 + len(v) for k, v in ss.sense_ascq_dict.items()),
        ranges={"vendor_specific_sense_asc": [ss.vendor_specific_sense_asc.start, ss.vendor_specific_sense_asc.stop],
                "vendor_specific_sense_ascq": [ss.vendor_specific_sense_ascq.start, ss.vendor_specific_sense_ascq.stop]})
    out["init_cdb"] = []
    from pyscsi.pyscsi.scsi_command import SCSICommand
    from pyscsi.pyscsi.scsi_opcode import OpCode
    for v in list(range(0, 256)) + [256, 300, 1000]:
        try:
            out["init_cdb"].append([v, "ok", len(SCSICommand.init_cdb(OpCode("x", v, {})))])
        except Exception as e:  # noqa
            out["init_cdb"].append([v, "exn", type(e).__name__])
    # the CDB a command CLASS builds for an operation code, after the class has already built an ordinary command (and another one of another
    # group): the length must still be the one the group of THAT operation code prescribes, refused codes must still be refused
    out["class_cdb"] = []
    try:
        from pyscsi.pyscsi.scsi_cdb_inquiry import Inquiry
        from pyscsi.pyscsi.scsi_cdb_read10 import Read10
        from pyscsi.pyscsi.scsi_cdb_testunitready import TestUnitReady
        from pyscsi.pyscsi.scsi_cdb_write16 import Write16
        from pyscsi.pyscsi.scsi_enum_command import sbc
        Inquiry(sbc.INQUIRY)
        Read10(sbc.READ_10, 512, 1, 1)
        TestUnitReady(sbc.TEST_UNIT_READY)
        Write16(sbc.WRITE_16, 512, 1, 1, bytearray(512))
        for cls in (Inquiry, Read10, TestUnitReady, Write16):
            for v in range(256):
                try:
                    out["class_cdb"].append([cls.__name__, v, "ok", len(cls.marshall_cdb({"opcode": v}))])
                except Exception as e:  # noqa
                    out["class_cdb"].append([cls.__name__, v, "exn", type(e).__name__])
    except Exception as e:  # noqa
        out["class_cdb"].append(["?", -1, "exn", "setup: %s" % type(e).__name__])
    print(json.dumps(out))


if __name__ == "__main__":
    main()
