(* Model/Py.v — a small Python: the fragment of the language the response decoders (unmarshall_X) and builders
   (marshall_X) of the command modules are written in, as a deep embedding with an executable big-step semantics.
   The PROGRAMS are REGENERATED from /repo on every run (Gen/PyFuncs.v, by tools/translate_py.py); this file is the
   hand-written semantics, tied to CPython by the correspondence run tools/corr/pyfuncs.py (same inputs through the
   real functions and through `run` below, inside Coq).  No proofs in this file.

   Values are immutable (bytearrays are byte lists, dicts are insertion-ordered association lists); the translator
   rejects (fail-closed) every function in which a mutable object is stored somewhere and changed afterwards, so value
   semantics and Python's reference semantics agree on the translated programs.  Loops and calls consume fuel; running
   out of fuel is the exception `Diverges`. *)
From Coq Require Import String ZArith List Bool DecimalString.
From PS Require Import Base.Bytes Base.Result Model.Converter.
Import ListNotations.
Open Scope string_scope.

Inductive pv :=
| PInt (z : Z) | PBool (b : bool) | PNone | PBytes (b : bytes) | PStr (s : string)
| PList (l : list pv) | PDict (d : list (string * pv)).

Inductive binop := BAdd | BSub | BMul | BFloorDiv | BMod | BAnd | BOr | BXor | BShl | BShr.
Inductive cmpop := CEq | CNe | CLt | CLe | CGt | CGe.

Inductive ex :=
| EVar (x : string)
| EConst (v : pv)
| EList (es : list ex)
| EDict (kvs : list (string * ex))
| ESlice (e : ex) (lo hi : option ex)          (* e[lo:hi] *)
| EIndex (e i : ex)                            (* e[i] *)
| ELen (e : ex)
| EBaToInt (e : ex)                            (* scsi_ba_to_int(e) *)
| EIntToBa (e n : ex)                          (* scsi_int_to_ba(e, n) *)
| EBytearray (e : ex)                          (* bytearray(n) | bytearray(bytes) *)
| EBin (o : binop) (a b : ex)
| ECmp (o : cmpop) (a b : ex)
| EIn (neg : bool) (a b : ex)                  (* a in b | a not in b *)
| ENot (e : ex)
| EAnd (a b : ex)
| EOr (a b : ex)
| EGet (d k : ex) (dflt : option ex)           (* d.get(k[, dflt]) *)
| EFmt (pre : string) (e : ex) (post : string) (* "pre%spost" % e *)
| ECall (f : string) (args : list ex)          (* another translated function *)
| EDecodeStr (e : ex)                          (* e.decode("utf-8").rstrip("\0")   (ASCII only in the model) *)
| EEncodeStr (e : ex)                          (* e.encode("utf-8")                 (ASCII only in the model) *)
| ERange (e : ex)                              (* range(e), as a list *)
| EComp (body : ex) (x : string) (it : ex)     (* [body for x in it]; also the generator handed to bytearray() / sum() *)
| EReversed (e : ex)                           (* reversed(e), as a list *)
| ESum (e : ex)                                (* sum(e) *)
| EAttr (e : ex) (name : string)               (* e.name — objects are dictionaries of their attributes (AttributeError if absent) *)
| ECopy (e : ex)                               (* e.copy() *)
| EJoin (e : ex)                               (* b"".join(e) *)
| EValues (e : ex)                             (* e.values(), as a list *)
| EDictComp (k v : ex) (x : string) (it : ex)  (* {k: v for x in it} *)
| EUnknown (src : string).

Inductive st :=
| SAssign (x : string) (e : ex)
| SStore (x : string) (path : list ex) (k e : ex)            (* x[p1]..[pn][k] = e *)
| SStoreSlice (x : string) (lo hi : option ex) (e : ex)      (* x[lo:hi] = e *)
| SAug (x : string) (o : binop) (e : ex)                     (* x op= e *)
| SDecode (d : ex) (table : string) (x : string)             (* decode_bits(d, TABLE, x) *)
| SEncode (d : ex) (table : string) (x : string)             (* encode_dict(d, TABLE, x) *)
| SUpdate (x : string) (path : list ex) (e : ex)             (* x[p..].update(e) *)
| SAppend (x : string) (path : list ex) (e : ex)             (* x[p..].append(e) *)
| SDel (x : string) (k : ex)                                 (* del x[k] *)
| SUnpack (xs : list string) (e : ex)                        (* x1, .., xn = e   (ValueError unless e has n items) *)
| SIf (c : ex) (a b : list st)
| SWhile (c : ex) (body : list st)
| SFor (x : string) (e : ex) (body : list st)
| SReturn (e : ex)
| SRaise (e : exn)
| SExpr (e : ex)
| SPass
| SUnknown (src : string).

Record fundef := mkFun { fn_params : list (string * option pv); fn_body : list st }.
Definition program := list (string * fundef).
Definition env := list (string * pv).

Inductive outcome := ONorm (e : env) | ORet (v : pv) | OExn (x : exn).

Definition unmodelled {A} (what : string) : result A := Raise (OtherExn ("unmodelled:" ++ what)).

(* ------------------------------------------------------------------ values *)

Definition truthy (v : pv) : bool :=
  match v with
  | PInt z => negb (Z.eqb z 0)
  | PBool b => b
  | PNone => false
  | PBytes b => match b with [] => false | _ => true end
  | PStr s => match s with EmptyString => false | _ => true end
  | PList l => match l with [] => false | _ => true end
  | PDict d => match d with [] => false | _ => true end
  end.

Definition as_int (v : pv) : option Z :=
  match v with PInt z => Some z | PBool b => Some (if b then 1 else 0)%Z | _ => None end.

Fixpoint bytes_eqb (a b : bytes) : bool :=
  match a, b with
  | [], [] => true
  | x :: a', y :: b' => N.eqb x y && bytes_eqb a' b'
  | _, _ => false
  end.

(* python ==  (None: a comparison the model does not follow, e.g. two dicts) *)
Fixpoint py_eq (a b : pv) {struct a} : option bool :=
  match a, b with
  | PNone, PNone => Some true
  | PBytes x, PBytes y => Some (bytes_eqb x y)
  | PStr x, PStr y => Some (String.eqb x y)
  | PList x, PList y =>
      (fix go (x y : list pv) : option bool :=
         match x, y with
         | [], [] => Some true
         | u :: x', v :: y' => match py_eq u v with
                               | Some true => go x' y'
                               | Some false => Some false
                               | None => None
                               end
         | _, _ => Some false
         end) x y
  | PDict _, PDict _ => None
  | _, _ => match as_int a, as_int b with
            | Some x, Some y => Some (Z.eqb x y)
            | _, _ => Some false
            end
  end.

(* index normalisation; lengths are clipped in Z before they become unary numbers *)
Definition clip (len : nat) (i : Z) : nat :=
  if (i <? 0)%Z then Z.to_nat (Z.max 0 (Z.of_nat len + i)) else Z.to_nat (Z.min i (Z.of_nat len)).

Definition py_slice {A} (l : list A) (lo hi : option Z) : list A :=
  let a := match lo with Some i => clip (length l) i | None => 0%nat end in
  match hi with
  | Some j => firstn (clip (length l) j - a) (skipn a l)
  | None => skipn a l
  end.

Definition norm_index (len : nat) (i : Z) : option nat :=
  if ((0 <=? i) && (i <? Z.of_nat len))%Z then Some (Z.to_nat i)
  else if ((i <? 0) && (- Z.of_nat len <=? i))%Z then Some (Z.to_nat (Z.of_nat len + i))
  else None.

Fixpoint set_nth {A} (l : list A) (n : nat) (v : A) : list A :=
  match l, n with
  | [], _ => []
  | _ :: l', O => v :: l'
  | x :: l', S n' => x :: set_nth l' n' v
  end.

Definition int_to_ba_z (v : Z) (n : Z) : bytes :=
  let k := Z.to_nat (Z.min (Z.max n 0) 4096) in
  if (0 <=? v)%Z then int_to_ba (Z.to_N v) k
  else int_to_ba (Z.to_N (v mod 256 ^ Z.of_nat k)) k.

Definition z_to_string (z : Z) : string := NilZero.string_of_int (Z.to_int z).

Fixpoint string_of_bytes (b : bytes) : option string :=
  match b with
  | [] => Some EmptyString
  | c :: r => if N.ltb c 128 then match string_of_bytes r with
                                  | Some s => Some (String (Ascii.ascii_of_N c) s)
                                  | None => None
                                  end
              else None
  end.
Fixpoint rstrip_nul (b : bytes) : bytes :=
  match b with
  | [] => []
  | c :: r => match rstrip_nul r with
              | [] => if N.eqb c 0 then [] else [c]
              | r' => c :: r'
              end
  end.

Definition bin_eval (o : binop) (a b : pv) : result pv :=
  match as_int a, as_int b with
  | Some x, Some y =>
      match o with
      | BAdd => Ok (PInt (x + y))
      | BSub => Ok (PInt (x - y))
      | BMul => Ok (PInt (x * y))
      | BFloorDiv => if Z.eqb y 0 then Raise (OtherExn "ZeroDivisionError") else Ok (PInt (x / y))
      | BMod => if Z.eqb y 0 then Raise (OtherExn "ZeroDivisionError") else Ok (PInt (x mod y))
      | BAnd => Ok (PInt (Z.land x y))
      | BOr => Ok (PInt (Z.lor x y))
      | BXor => Ok (PInt (Z.lxor x y))
      | BShl => if (y <? 0)%Z then Raise ValueError else if (1048576 <? y)%Z then unmodelled "shift" else Ok (PInt (Z.shiftl x y))
      | BShr => if (y <? 0)%Z then Raise ValueError else Ok (PInt (Z.shiftr x y))
      end
  | _, _ =>
      match o, a, b with
      | BAdd, PBytes x, PBytes y => Ok (PBytes (x ++ y)%list)
      | BAdd, PList x, PList y => Ok (PList (x ++ y)%list)
      | BAdd, PStr x, PStr y => Ok (PStr (x ++ y))
      | _, _, _ => Raise TypeError
      end
  end.

Definition cmp_eval (o : cmpop) (a b : pv) : result pv :=
  match o with
  | CEq => match py_eq a b with Some r => Ok (PBool r) | None => unmodelled "eq" end
  | CNe => match py_eq a b with Some r => Ok (PBool (negb r)) | None => unmodelled "eq" end
  | _ => match as_int a, as_int b with
         | Some x, Some y => Ok (PBool (match o with
                                        | CLt => Z.ltb x y | CLe => Z.leb x y | CGt => Z.ltb y x | _ => Z.leb y x
                                        end))
         | _, _ => Raise TypeError
         end
  end.

Definition len_eval (v : pv) : result pv :=
  match v with
  | PBytes b => Ok (PInt (Z.of_nat (length b)))
  | PList l => Ok (PInt (Z.of_nat (length l)))
  | PDict d => Ok (PInt (Z.of_nat (length d)))
  | PStr s => Ok (PInt (Z.of_nat (String.length s)))
  | _ => Raise TypeError
  end.

Definition index_eval (v i : pv) : result pv :=
  match v with
  | PDict d => match i with
               | PStr k => match lookup k d with Some x => Ok x | None => Raise KeyError end
               | PDict _ | PList _ => Raise TypeError
               | _ => Raise KeyError
               end
  | PBytes b => match as_int i with
                | Some z => match norm_index (length b) z with
                            | Some n => Ok (PInt (Z.of_N (nth n b 0%N)))
                            | None => Raise IndexError
                            end
                | None => Raise TypeError
                end
  | PList l => match as_int i with
               | Some z => match norm_index (length l) z with
                           | Some n => Ok (nth n l PNone)
                           | None => Raise IndexError
                           end
               | None => Raise TypeError
               end
  | PStr _ => unmodelled "str-index"
  | _ => Raise TypeError
  end.

Definition opt_int (v : option pv) : result (option Z) :=
  match v with
  | None => Ok None
  | Some PNone => Ok None
  | Some x => match as_int x with Some z => Ok (Some z) | None => Raise TypeError end
  end.

Definition slice_eval (v : pv) (lo hi : option pv) : result pv :=
  match opt_int lo, opt_int hi with
  | Ok a, Ok b =>
      match v with
      | PBytes l => Ok (PBytes (py_slice l a b))
      | PList l => Ok (PList (py_slice l a b))
      | PStr _ => unmodelled "str-slice"
      | _ => Raise TypeError
      end
  | Raise x, _ | _, Raise x => Raise x
  end.

Definition in_eval (a b : pv) : result bool :=
  match b with
  | PDict d => match a with
               | PStr k => Ok (match lookup k d with Some _ => true | None => false end)
               | PDict _ | PList _ => Raise TypeError
               | _ => Ok false
               end
  | PList l =>
      (fix go (l : list pv) : result bool :=
         match l with
         | [] => Ok false
         | x :: r => match py_eq a x with
                     | Some true => Ok true
                     | Some false => go r
                     | None => unmodelled "eq"
                     end
         end) l
  | PBytes l => match as_int a with
                | Some z => Ok (existsb (fun c => Z.eqb (Z.of_N c) z) l)
                | None => unmodelled "bytes-in-bytes"
                end
  | PStr _ => unmodelled "str-in"
  | _ => Raise TypeError
  end.

Fixpoint bytes_of_pvlist (l : list pv) : result bytes :=
  match l with
  | [] => Ok []
  | x :: r => match as_int x with
              | Some z => if ((0 <=? z) && (z <? 256))%Z
                          then match bytes_of_pvlist r with Ok t => Ok (Z.to_N z :: t) | Raise e => Raise e end
                          else Raise ValueError
              | None => Raise TypeError
              end
  end.

Definition bytearray_eval (v : pv) : result pv :=
  match v with
  | PBytes b => Ok (PBytes b)
  | PList l => match bytes_of_pvlist l with Ok b => Ok (PBytes b) | Raise e => Raise e end
  | _ => match as_int v with
         | Some z => if (z <? 0)%Z then Raise ValueError
                     else if (1048576 <? z)%Z then unmodelled "huge-bytearray"
                     else Ok (PBytes (zeros (Z.to_nat z)))
         | None => Raise TypeError
         end
  end.

Definition fmt_eval (pre : string) (v : pv) (post : string) : result pv :=
  match v with
  | PInt z => Ok (PStr (pre ++ z_to_string z ++ post))
  | PStr s => Ok (PStr (pre ++ s ++ post))
  | _ => unmodelled "format"
  end.

Definition decode_str_eval (v : pv) : result pv :=
  match v with
  | PBytes b => match string_of_bytes (rstrip_nul b) with
                | Some s => Ok (PStr s)
                | None => unmodelled "non-ascii"
                end
  | _ => Raise AttributeError
  end.

Fixpoint bytes_of_string (s : string) : option bytes :=
  match s with
  | EmptyString => Some []
  | String c r => let n := Ascii.N_of_ascii c in
                  if N.ltb n 128 then match bytes_of_string r with Some b => Some (n :: b) | None => None end else None
  end.
Definition encode_str_eval (v : pv) : result pv :=
  match v with
  | PStr s => match bytes_of_string s with Some b => Ok (PBytes b) | None => unmodelled "non-ascii" end
  | _ => Raise AttributeError
  end.
Definition range_eval (v : pv) : result pv :=
  match as_int v with
  | Some z => if (65536 <? z)%Z then unmodelled "huge-range"
              else Ok (PList (map (fun i => PInt (Z.of_nat i)) (seq 0 (Z.to_nat z))))
  | None => Raise TypeError
  end.

Definition reversed_eval (v : pv) : result pv :=
  match v with
  | PList l => Ok (PList (rev l))
  | PBytes b => Ok (PList (rev (map (fun c => PInt (Z.of_N c)) b)))
  | _ => Raise TypeError
  end.
Fixpoint sum_pvs (l : list pv) (acc : Z) : result pv :=
  match l with
  | [] => Ok (PInt acc)
  | x :: r => match as_int x with Some z => sum_pvs r (acc + z)%Z | None => Raise TypeError end
  end.
Definition sum_eval (v : pv) : result pv :=
  match v with
  | PList l => sum_pvs l 0
  | PBytes b => Ok (PInt (Z.of_N (fold_left N.add b 0%N)))
  | _ => Raise TypeError
  end.

(* objects (an OpCode, an Enum) are dictionaries of their attributes that carry the marker key "__obj__"; a plain dict has no attributes *)
Definition attr_eval (v : pv) (name : string) : result pv :=
  match v with
  | PDict d => match lookup "__obj__" d with
               | Some _ => match lookup name d with Some x => Ok x | None => Raise AttributeError end
               | None => Raise AttributeError
               end
  | _ => Raise AttributeError
  end.
Definition copy_eval (v : pv) : result pv :=
  match v with
  | PDict _ | PList _ | PBytes _ => Ok v
  | _ => Raise AttributeError
  end.
Fixpoint join_bytes (l : list pv) : result bytes :=
  match l with
  | [] => Ok []
  | PBytes b :: r => match join_bytes r with Ok t => Ok (b ++ t)%list | Raise e => Raise e end
  | _ :: _ => Raise TypeError
  end.
Definition join_eval (v : pv) : result pv :=
  match v with
  | PList l => match join_bytes l with Ok b => Ok (PBytes b) | Raise e => Raise e end
  | PBytes [] | PDict [] => Ok (PBytes [])
  | _ => Raise TypeError
  end.

(* ------------------------------------------------------------------ codec bridge *)

Definition pv_of_value (v : value) : pv := match v with VI n => PInt (Z.of_N n) | VB b => PBytes b end.
Definition dict_of_decoded (d : list (string * value)) : list (string * pv) := map (fun kv => (fst kv, pv_of_value (snd kv))) d.

(* encode_dict(data_dict, TABLE, result): keys the table does not have are skipped *)
Fixpoint encode_pv (d : list (string * pv)) (L : layout) (r : bytes) : result bytes :=
  match d with
  | [] => Ok r
  | (k, v) :: d' =>
      match lookup k L with
      | None => encode_pv d' L r
      | Some f =>
          let conv : result value :=
            match f with
            | Mask _ _ => match as_int v with
                          | Some z => if (z <? 0)%Z then unmodelled "negative-field" else Ok (VI (Z.to_N z))
                          | None => Raise TypeError
                          end
            | Blob _ _ _ => match v with
                            | PBytes b => Ok (VB b)
                            | PStr _ | PInt _ | PBool _ | PNone => Raise TypeError
                            | _ => unmodelled "blob-from-container"
                            end
            end in
          match conv with
          | Raise e => Raise e
          | Ok val => match encode1 r f val with
                      | Ok r' => encode_pv d' L r'
                      | Raise e => Raise e
                      end
          end
      end
  end.

(* ------------------------------------------------------------------ stores *)

Definition set_item (c k v : pv) : result pv :=
  match c with
  | PDict d => match k with
               | PStr s => Ok (PDict (dict_set d s v))
               | _ => unmodelled "non-string-key"
               end
  | PBytes b => match as_int k, as_int v with
                | Some i, Some x =>
                    match norm_index (length b) i with
                    | Some n => if ((0 <=? x) && (x <? 256))%Z then Ok (PBytes (set_nth b n (Z.to_N x))) else Raise ValueError
                    | None => Raise IndexError
                    end
                | _, _ => Raise TypeError
                end
  | PList l => match as_int k with
               | Some i => match norm_index (length l) i with
                           | Some n => Ok (PList (set_nth l n v))
                           | None => Raise IndexError
                           end
               | None => Raise TypeError
               end
  | _ => Raise TypeError
  end.

(* apply f to the container reached from v through the keys *)
Fixpoint update_at (v : pv) (keys : list pv) (f : pv -> result pv) : result pv :=
  match keys with
  | [] => f v
  | k :: ks =>
      match index_eval v k with
      | Raise e => Raise e
      | Ok sub => match update_at sub ks f with
                  | Raise e => Raise e
                  | Ok sub' => set_item v k sub'
                  end
      end
  end.

Definition store_slice (c : pv) (lo hi : option pv) (v : pv) : result pv :=
  match c, v, opt_int lo, opt_int hi with
  | PBytes l, PBytes x, Ok a, Ok b =>
      let i := match a with Some i => clip (length l) i | None => 0%nat end in
      let j := match b with Some j => clip (length l) j | None => length l end in
      Ok (PBytes (firstn i l ++ x ++ skipn (Nat.max i j) l)%list)
  | PBytes _, (PInt _ | PBool _ | PNone | PStr _), Ok _, Ok _ => Raise TypeError
  | PBytes _, _, Ok _, Ok _ => unmodelled "slice-store-value"
  | _, _, Raise e, _ | _, _, _, Raise e => Raise e
  | _, _, _, _ => Raise TypeError
  end.

Fixpoint dict_remove (d : list (string * pv)) (k : string) : list (string * pv) :=
  match d with
  | [] => []
  | (k', v) :: d' => if String.eqb k k' then d' else (k', v) :: dict_remove d' k
  end.

(* items a `for` iterates over *)
Definition iter_items (v : pv) : result (list pv) :=
  match v with
  | PList l => Ok l
  | PBytes b => Ok (map (fun c => PInt (Z.of_N c)) b)
  | PDict d => Ok (map (fun kv => PStr (fst kv)) d)
  | PStr _ => unmodelled "str-iter"
  | _ => Raise TypeError
  end.

(* ------------------------------------------------------------------ expressions *)

Section Eval.
  Variable call : string -> list pv -> result pv.

  Fixpoint eval (ρ : env) (e : ex) {struct e} : result pv :=
    match e with
    | EVar x => match lookup x ρ with Some v => Ok v | None => Raise (OtherExn "NameError") end
    | EConst v => Ok v
    | EList es =>
        match (fix go (l : list ex) : result (list pv) :=
                 match l with
                 | [] => Ok []
                 | a :: r => match eval ρ a with
                             | Raise x => Raise x
                             | Ok v => match go r with Ok vs => Ok (v :: vs) | Raise x => Raise x end
                             end
                 end) es with
        | Ok vs => Ok (PList vs)
        | Raise x => Raise x
        end
    | EDict kvs =>
        match (fix go (l : list (string * ex)) (acc : list (string * pv)) : result (list (string * pv)) :=
                 match l with
                 | [] => Ok acc
                 | (k, a) :: r => match eval ρ a with
                                  | Raise x => Raise x
                                  | Ok v => go r (dict_set acc k v)
                                  end
                 end) kvs [] with
        | Ok d => Ok (PDict d)
        | Raise x => Raise x
        end
    | ESlice a lo hi =>
        match eval ρ a with
        | Raise x => Raise x
        | Ok v =>
            match (match lo with None => Ok None | Some x => match eval ρ x with Ok v => Ok (Some v) | Raise e => Raise e end end) with
            | Raise x => Raise x
            | Ok l =>
                match (match hi with None => Ok None | Some x => match eval ρ x with Ok v => Ok (Some v) | Raise e => Raise e end end) with
                | Raise x => Raise x
                | Ok h => slice_eval v l h
                end
            end
        end
    | EIndex a i =>
        match eval ρ a with
        | Raise x => Raise x
        | Ok v => match eval ρ i with Raise x => Raise x | Ok k => index_eval v k end
        end
    | ELen a => match eval ρ a with Raise x => Raise x | Ok v => len_eval v end
    | EBaToInt a =>
        match eval ρ a with
        | Raise x => Raise x
        | Ok (PBytes b) => Ok (PInt (Z.of_N (ba_to_int b)))
        | Ok _ => Raise TypeError
        end
    | EIntToBa a n =>
        match eval ρ a with
        | Raise x => Raise x
        | Ok v => match eval ρ n with
                  | Raise x => Raise x
                  | Ok w => match as_int v, as_int w with
                            | Some z, Some k => Ok (PBytes (int_to_ba_z z k))
                            | _, _ => Raise TypeError
                            end
                  end
        end
    | EBytearray a => match eval ρ a with Raise x => Raise x | Ok v => bytearray_eval v end
    | EBin o a b =>
        match eval ρ a with
        | Raise x => Raise x
        | Ok v => match eval ρ b with Raise x => Raise x | Ok w => bin_eval o v w end
        end
    | ECmp o a b =>
        match eval ρ a with
        | Raise x => Raise x
        | Ok v => match eval ρ b with Raise x => Raise x | Ok w => cmp_eval o v w end
        end
    | EIn neg a b =>
        match eval ρ a with
        | Raise x => Raise x
        | Ok v => match eval ρ b with
                  | Raise x => Raise x
                  | Ok w => match in_eval v w with Ok r => Ok (PBool (if neg then negb r else r)) | Raise x => Raise x end
                  end
        end
    | ENot a => match eval ρ a with Raise x => Raise x | Ok v => Ok (PBool (negb (truthy v))) end
    | EAnd a b => match eval ρ a with Raise x => Raise x | Ok v => if truthy v then eval ρ b else Ok v end
    | EOr a b => match eval ρ a with Raise x => Raise x | Ok v => if truthy v then Ok v else eval ρ b end
    | EGet d k dflt =>
        match eval ρ d with
        | Raise x => Raise x
        | Ok dv =>
            match eval ρ k with
            | Raise x => Raise x
            | Ok kv =>
                match (match dflt with None => Ok PNone | Some x => eval ρ x end) with
                | Raise x => Raise x
                | Ok dvv =>
                    match dv, kv with
                    | PDict l, PStr s => Ok (match lookup s l with Some v => v | None => dvv end)
                    | PDict _, _ => Ok dvv
                    | _, _ => Raise AttributeError
                    end
                end
            end
        end
    | EFmt pre a post => match eval ρ a with Raise x => Raise x | Ok v => fmt_eval pre v post end
    | ECall f args =>
        match (fix go (l : list ex) : result (list pv) :=
                 match l with
                 | [] => Ok []
                 | a :: r => match eval ρ a with
                             | Raise x => Raise x
                             | Ok v => match go r with Ok vs => Ok (v :: vs) | Raise x => Raise x end
                             end
                 end) args with
        | Ok vs => call f vs
        | Raise x => Raise x
        end
    | EDecodeStr a => match eval ρ a with Raise x => Raise x | Ok v => decode_str_eval v end
    | EEncodeStr a => match eval ρ a with Raise x => Raise x | Ok v => encode_str_eval v end
    | ERange a => match eval ρ a with Raise x => Raise x | Ok v => range_eval v end
    | EComp body x it =>
        match eval ρ it with
        | Raise e => Raise e
        | Ok v =>
            match iter_items v with
            | Raise e => Raise e
            | Ok items =>
                match (fix go (l : list pv) : result (list pv) :=
                         match l with
                         | [] => Ok []
                         | i :: r => match eval (dict_set ρ x i) body with
                                     | Raise e => Raise e
                                     | Ok w => match go r with Ok ws => Ok (w :: ws) | Raise e => Raise e end
                                     end
                         end) items with
                | Ok ws => Ok (PList ws)
                | Raise e => Raise e
                end
            end
        end
    | EReversed a => match eval ρ a with Raise x => Raise x | Ok v => reversed_eval v end
    | ESum a => match eval ρ a with Raise x => Raise x | Ok v => sum_eval v end
    | EAttr a name => match eval ρ a with Raise x => Raise x | Ok v => attr_eval v name end
    | ECopy a => match eval ρ a with Raise x => Raise x | Ok v => copy_eval v end
    | EJoin a => match eval ρ a with Raise x => Raise x | Ok v => join_eval v end
    | EValues a => match eval ρ a with
                   | Raise x => Raise x
                   | Ok (PDict d) => Ok (PList (map snd d))
                   | Ok _ => Raise AttributeError
                   end
    | EDictComp k v x it =>
        match eval ρ it with
        | Raise e => Raise e
        | Ok iv =>
            match iter_items iv with
            | Raise e => Raise e
            | Ok items =>
                match (fix go (l : list pv) (acc : list (string * pv)) : result (list (string * pv)) :=
                         match l with
                         | [] => Ok acc
                         | i :: r => match eval (dict_set ρ x i) k with
                                     | Raise e => Raise e
                                     | Ok (PStr ks) => match eval (dict_set ρ x i) v with
                                                       | Raise e => Raise e
                                                       | Ok w => go r (dict_set acc ks w)
                                                       end
                                     | Ok _ => unmodelled "non-string-key"
                                     end
                         end) items [] with
                | Ok d => Ok (PDict d)
                | Raise e => Raise e
                end
            end
        end
    | EUnknown src => unmodelled src
    end.

  Fixpoint eval_list (ρ : env) (es : list ex) : result (list pv) :=
    match es with
    | [] => Ok []
    | a :: r => match eval ρ a with
                | Raise x => Raise x
                | Ok v => match eval_list ρ r with Ok vs => Ok (v :: vs) | Raise x => Raise x end
                end
    end.

  Definition eval_opt (ρ : env) (o : option ex) : result (option pv) :=
    match o with None => Ok None | Some x => match eval ρ x with Ok v => Ok (Some v) | Raise e => Raise e end end.
End Eval.

(* ------------------------------------------------------------------ statements *)

Section Exec.
  Variable tables : list (string * layout).
  Variable call : string -> list pv -> result pv.
  Variable again : st -> env -> outcome.        (* re-entry of a loop, with less fuel *)

  Definition with_var (ρ : env) (x : string) (f : pv -> result pv) : outcome :=
    match lookup x ρ with
    | None => OExn (OtherExn "NameError")
    | Some v => match f v with Ok v' => ONorm (dict_set ρ x v') | Raise e => OExn e end
    end.

  (* the effect of the statements that are neither control flow nor calls to `again` *)
  Definition exec_simple (ρ : env) (s : st) : outcome :=
    match s with
    | SAssign x e => match eval call ρ e with Ok v => ONorm (dict_set ρ x v) | Raise x => OExn x end
    | SStore x path k e =>
        match eval call ρ e with
        | Raise x => OExn x
        | Ok v => match eval_list call ρ path with
                  | Raise x => OExn x
                  | Ok ks => match eval call ρ k with
                             | Raise x => OExn x
                             | Ok kv => with_var ρ x (fun c => update_at c ks (fun leaf => set_item leaf kv v))
                             end
                  end
        end
    | SStoreSlice x lo hi e =>
        match eval call ρ e with
        | Raise x => OExn x
        | Ok v => match eval_opt call ρ lo with
                  | Raise x => OExn x
                  | Ok l => match eval_opt call ρ hi with
                            | Raise x => OExn x
                            | Ok h => with_var ρ x (fun c => store_slice c l h v)
                            end
                  end
        end
    | SAug x o e =>
        match lookup x ρ with
        | None => OExn (OtherExn "NameError")
        | Some cur => match eval call ρ e with
                      | Raise x => OExn x
                      | Ok v => match bin_eval o cur v with Ok r => ONorm (dict_set ρ x r) | Raise x => OExn x end
                      end
        end
    | SDecode d t x =>
        match eval call ρ d with
        | Raise e => OExn e
        | Ok (PBytes b) =>
            match lookup t tables with
            | None => OExn AttributeError
            | Some L => match decode_bits b L with
                        | Raise e => OExn e
                        | Ok r => with_var ρ x (fun c => match c with
                                                          | PDict cur => Ok (PDict (dict_update cur (dict_of_decoded r)))
                                                          | _ => Raise AttributeError
                                                          end)
                        end
            end
        | Ok _ => OExn TypeError
        end
    | SEncode d t x =>
        match eval call ρ d with
        | Raise e => OExn e
        | Ok (PDict dd) =>
            match lookup t tables with
            | None => OExn AttributeError
            | Some L => with_var ρ x (fun c => match c with
                                               | PBytes r => match encode_pv dd L r with Ok r' => Ok (PBytes r') | Raise e => Raise e end
                                               | _ => Raise TypeError
                                               end)
            end
        | Ok _ => OExn AttributeError
        end
    | SUpdate x path e =>
        match eval call ρ e with
        | Raise x => OExn x
        | Ok v => match eval_list call ρ path with
                  | Raise x => OExn x
                  | Ok ks => with_var ρ x (fun c => update_at c ks (fun leaf =>
                               match leaf, v with
                               | PDict cur, PDict new => Ok (PDict (dict_update cur new))
                               | PDict _, _ => Raise TypeError
                               | _, _ => Raise AttributeError
                               end))
                  end
        end
    | SAppend x path e =>
        match eval call ρ e with
        | Raise x => OExn x
        | Ok v => match eval_list call ρ path with
                  | Raise x => OExn x
                  | Ok ks => with_var ρ x (fun c => update_at c ks (fun leaf =>
                               match leaf with
                               | PList l => Ok (PList (l ++ [v])%list)
                               | PBytes b => match as_int v with
                                             | Some z => if ((0 <=? z) && (z <? 256))%Z then Ok (PBytes (b ++ [Z.to_N z])%list) else Raise ValueError
                                             | None => Raise TypeError
                                             end
                               | _ => Raise AttributeError
                               end))
                  end
        end
    | SDel x k =>
        match eval call ρ k with
        | Raise x => OExn x
        | Ok kv => with_var ρ x (fun c => match c, kv with
                                          | PDict d, PStr s => match lookup s d with
                                                               | Some _ => Ok (PDict (dict_remove d s))
                                                               | None => Raise KeyError
                                                               end
                                          | PDict _, _ => Raise KeyError
                                          | _, _ => unmodelled "del"
                                          end)
        end
    | SUnpack xs e =>
        match eval call ρ e with
        | Raise x => OExn x
        | Ok v => match iter_items v with
                  | Raise x => OExn x
                  | Ok items => if Nat.eqb (length items) (length xs)
                                then ONorm (fold_left (fun r xi => dict_set r (fst xi) (snd xi)) (combine xs items) ρ)
                                else OExn ValueError
                  end
        end
    | SReturn e => match eval call ρ e with Ok v => ORet v | Raise x => OExn x end
    | SRaise e => OExn e
    | SExpr e => match eval call ρ e with Ok _ => ONorm ρ | Raise x => OExn x end
    | SPass => ONorm ρ
    | SUnknown src => OExn (OtherExn ("unmodelled:" ++ src))
    | SIf _ _ _ | SWhile _ _ | SFor _ _ _ => OExn (OtherExn "exec_simple")
    end.

  Fixpoint exec (s : st) (ρ : env) {struct s} : outcome :=
    match s with
    | SIf c a b =>
        match eval call ρ c with
        | Raise x => OExn x
        | Ok v =>
            (fix block (l : list st) (ρ : env) : outcome :=
               match l with
               | [] => ONorm ρ
               | s' :: r => match exec s' ρ with ONorm ρ' => block r ρ' | o => o end
               end) (if truthy v then a else b) ρ
        end
    | SWhile c body =>
        match eval call ρ c with
        | Raise x => OExn x
        | Ok v =>
            if truthy v then
              match (fix block (l : list st) (ρ : env) : outcome :=
                       match l with
                       | [] => ONorm ρ
                       | s' :: r => match exec s' ρ with ONorm ρ' => block r ρ' | o => o end
                       end) body ρ with
              | ONorm ρ' => again (SWhile c body) ρ'
              | o => o
              end
            else ONorm ρ
        end
    | SFor x e body =>
        match eval call ρ e with
        | Raise x => OExn x
        | Ok v =>
            match iter_items v with
            | Raise x => OExn x
            | Ok items =>
                (fix iter (items : list pv) (ρ : env) : outcome :=
                   match items with
                   | [] => ONorm ρ
                   | i :: rest =>
                       match (fix block (l : list st) (ρ : env) : outcome :=
                                match l with
                                | [] => ONorm ρ
                                | s' :: r => match exec s' ρ with ONorm ρ' => block r ρ' | o => o end
                                end) body (dict_set ρ x i) with
                       | ONorm ρ' => iter rest ρ'
                       | o => o
                       end
                   end) items ρ
            end
        end
    | _ => exec_simple ρ s
    end.

  Fixpoint exec_block (l : list st) (ρ : env) : outcome :=
    match l with
    | [] => ONorm ρ
    | s :: r => match exec s ρ with ONorm ρ' => exec_block r ρ' | o => o end
    end.
End Exec.

(* ------------------------------------------------------------------ programs, fuel *)

Fixpoint bind_params (ps : list (string * option pv)) (args : list pv) : result env :=
  match ps, args with
  | [], [] => Ok []
  | [], _ :: _ => Raise TypeError
  | (p, _) :: ps', a :: args' => match bind_params ps' args' with Ok ρ => Ok ((p, a) :: ρ) | Raise e => Raise e end
  | (p, Some d) :: ps', [] => match bind_params ps' [] with Ok ρ => Ok ((p, d) :: ρ) | Raise e => Raise e end
  | (_, None) :: _, [] => Raise TypeError
  end.

Definition call_with (P : program) (runner : st -> env -> outcome) (f : string) (args : list pv) : result pv :=
  match lookup f P with
  | None => unmodelled ("call:" ++ f)
  | Some fd =>
      match bind_params (fn_params fd) args with
      | Raise e => Raise e
      | Ok ρ => match runner (SIf (EConst (PBool true)) (fn_body fd) []) ρ with
                | ORet v => Ok v
                | ONorm _ => Ok PNone
                | OExn e => Raise e
                end
      end
  end.

Section Run.
  Variable tables : list (string * layout).
  Variable P : program.

  Fixpoint run (fuel : nat) (s : st) (ρ : env) {struct fuel} : outcome :=
    match fuel with
    | O => OExn Diverges
    | S f => exec tables (call_with P (run f)) (run f) s ρ
    end.

  Definition call_fun (fuel : nat) (f : string) (args : list pv) : result pv := call_with P (run fuel) f args.
End Run.
