(* Model/Parser.v — the response decoders that are plain applications of decode_bits, and the fixed-stride
   descriptor lists; which tables, offsets, length bytes and strides they use is REGENERATED (Gen/Parsers.v).
   Hand-written semantics, tied to the code by the parser correspondence (tools/corr/resp_impl.py).
   No proofs in this file. *)
From Coq Require Import String.
From PS Require Import Base.Bytes Base.Result Model.Converter.
Open Scope string_scope.
Open Scope N_scope.

(* what a reader of the standard finds at (byte b, most significant bit m, width w), MSB first *)
Definition span (m w : N) : nat := N.to_nat ((7 - m + w + 7) / 8).
Definition std_read (data : bytes) (b m w : N) : N :=
  (ba_to_int (slice data (N.to_nat b) (N.to_nat b + span m w)) / 2 ^ (8 * N.of_nat (span m w) - (7 - m) - w)) mod 2 ^ w.
Definition std_read_bytes (data : bytes) (b w : N) : bytes := slice data (N.to_nat b) (N.to_nat (b + w / 8)).

(* result = {}; decode_bits(data, T1, result); decode_bits(data, T2, result); ... *)
Definition parse_whole (tables : list layout) (data : bytes) : result (list (string * value)) :=
  decode_bits data (concat tables).

(* while len(d): yield d[:stride]; d = d[stride:]   (fuel: the buffer length; a stride of 0 never ends) *)
Fixpoint chunks (stride : nat) (fuel : nat) (d : bytes) : option (list bytes) :=
  match d with
  | [] => Some []
  | _ :: _ =>
      match fuel with
      | O => None
      | S f => match chunks stride f (skipn stride d) with
               | Some cs => Some (firstn stride d :: cs)
               | None => None
               end
      end
  end.

Record list_params := mkLP { lp_start : nat; lp_len_a : nat; lp_len_b : nat; lp_bias : nat; lp_stride : nat }.

(* body = data[start : ba_to_int(data[a:b]) + bias]; the descriptors are its consecutive stride-byte pieces *)
(* (python clips a slice end beyond the buffer; the minimum is taken before leaving N so that a corrupted length
   field of 2^32 never becomes a unary number) *)
Definition list_body (p : list_params) (data : bytes) : bytes :=
  slice data (lp_start p)
        (N.to_nat (N.min (ba_to_int (slice data (lp_len_a p) (lp_len_b p)) + N.of_nat (lp_bias p)) (N.of_nat (length data)))).

Definition parse_list (p : list_params) (data : bytes) : option (list bytes) :=
  chunks (lp_stride p) (length data) (list_body p data).
