(* Model/Facade.v — the facade methods as lists of abstract actions (REGENERATED into Gen/FacadeTbl.v) and
   their trace semantics against a device that records what it is handed. No proofs in this file. *)
From Coq Require Import String.
From PS Require Import Base.Bytes Base.Result Model.Converter Model.Ctor.
Open Scope string_scope.

Inductive farg := FArg (x : string) | FOpcode | FBlocksize.

(* constructor call: class key, positional arguments, keyword arguments, whether **kwargs is passed through *)
Definition ccall := (string * list farg * list (string * farg) * bool)%type.

Inductive action :=
| ALookup (name : string)                       (* opcode = self.device.opcodes.NAME *)
| ALookupSuffix (suffix : string)               (* opcode = next(get_opcode(self.device.opcodes, "9E")) *)
| AConstruct (c : ccall)                        (* cmd = Cls(...) *)
| AConstructBySA (branches : list (string * string * ccall))   (* if sa == opcode.serviceaction.X: cmd = Cls(...) ... else: raise ValueError *)
| AExecute (raw : bool)                         (* self.execute(cmd[, en_raw_sense=True]) *)
| AUnmarshall (kw : list (string * farg)) (star : bool)   (* cmd.unmarshall(...) *)
| AReturn                                       (* return cmd *)
| AUnknownAction (src : string).

Record fmethod := mkF { f_name : string; f_params : list (string * option cval); f_kwargs : bool; f_acts : list action }.

(* what can be observed of one call *)
Inductive event := EvLookup | EvConstruct | EvExecute (raw : bool) | EvUnmarshall | EvReturn.

(* which step fails (None: none); the trace stops there *)
Inductive failure := FailLookup | FailConstruct | FailExecute | FailUnmarshall.

Definition ev_of (a : action) : option event :=
  match a with
  | ALookup _ | ALookupSuffix _ => Some EvLookup
  | AConstruct _ | AConstructBySA _ => Some EvConstruct
  | AExecute r => Some (EvExecute r)
  | AUnmarshall _ _ => Some EvUnmarshall
  | AReturn => Some EvReturn
  | AUnknownAction _ => None
  end.

Definition fails (f : option failure) (e : event) : bool :=
  match f, e with
  | Some FailLookup, EvLookup | Some FailConstruct, EvConstruct | Some FailExecute, EvExecute _
  | Some FailUnmarshall, EvUnmarshall => true
  | _, _ => false
  end.

(* the events that complete, in order; an action that fails completes nothing and ends the call *)
Fixpoint trace (f : option failure) (acts : list action) : list event :=
  match acts with
  | [] => []
  | a :: rest =>
      match ev_of a with
      | None => []
      | Some e => if fails f e then [] else
                  match e with EvReturn => [e] | _ => e :: trace f rest end
      end
  end.
