(* Model/Facade.v — the facade methods as lists of abstract actions (REGENERATED into Gen/FacadeTbl.v) and
   their trace semantics against a device that records what it is handed. No proofs in this file. *)
From Coq Require Import String.
From PS Require Import Base.Bytes Base.Result Model.Converter Model.Ctor.
From PS Require Export Model.Sx.
Open Scope string_scope.

Inductive farg := FArg (x : string) | FOpcode | FBlocksize.

(* constructor call: class key, positional arguments, keyword arguments, whether **kwargs is passed through *)
Definition ccall := (string * list farg * list (string * farg) * bool)%type.

Inductive action :=
| ALookup (name : string)                       (* opcode = self.device.opcodes.NAME *)
| ALookupSuffix (suffix : string)               (* opcode = next(get_opcode(self.device.opcodes, "9E")) *)
| AConstruct (c : ccall)                        (* cmd = Cls(...) *)
| AConstructBySA (branches : list (string * string * ccall))   (* if sa == opcode.serviceaction.X: cmd = Cls(...) ... else: raise ValueError *)
| AExecute (raw : bool)                         (* self.execute(cmd[, en_raw_sense=True]) *)
| AUnmarshall (kw : list (string * farg)) (star : bool)   (* cmd.unmarshall(...) *)
| AReturn                                       (* return cmd *)
| AUnknownAction (src : string).

Record fmethod := mkF { f_name : string; f_params : list (string * option cval); f_kwargs : bool; f_acts : list action }.

(* what can be observed of one call *)
Inductive event := EvLookup | EvConstruct | EvExecute (raw : bool) | EvUnmarshall | EvReturn.

(* which step fails (None: none); the trace stops there *)
Inductive failure := FailLookup | FailConstruct | FailExecute | FailUnmarshall.

Definition ev_of (a : action) : option event :=
  match a with
  | ALookup _ | ALookupSuffix _ => Some EvLookup
  | AConstruct _ | AConstructBySA _ => Some EvConstruct
  | AExecute r => Some (EvExecute r)
  | AUnmarshall _ _ => Some EvUnmarshall
  | AReturn => Some EvReturn
  | AUnknownAction _ => None
  end.

Definition fails (f : option failure) (e : event) : bool :=
  match f, e with
  | Some FailLookup, EvLookup | Some FailConstruct, EvConstruct | Some FailExecute, EvExecute _
  | Some FailUnmarshall, EvUnmarshall => true
  | _, _ => false
  end.

(* the events that complete, in order; an action that fails completes nothing and ends the call *)
Fixpoint trace (f : option failure) (acts : list action) : list event :=
  match acts with
  | [] => []
  | a :: rest =>
      match ev_of a with
      | None => []
      | Some e => if fails f e then [] else
                  match e with EvReturn => [e] | _ => e :: trace f rest end
      end
  end.

(* ---- the state of a facade object: its attributes, and the stores each function of the class performs
   (REGENERATED: Gen/FacadeTbl.facade_state_writes, facade_blocksize_get) ---- *)
Definition fstate := list (string * cval).          (* attribute -> value *)

(* value of a stored expression: a parameter of the call, another attribute, or something the model does not follow *)
Definition sx_eval (st : fstate) (args : list (string * cval)) (e : sx) : option cval :=
  match e with
  | SxParam x => lookup x args
  | SxAttr a => lookup a st
  | SxOther _ => None
  end.

(* the stores of one function, in program order; a store the model cannot follow leaves the attribute unknown (removed) *)
Fixpoint apply_writes (ws : list (string * sx)) (args : list (string * cval)) (st : fstate) : fstate :=
  match ws with
  | [] => st
  | (a, e) :: ws' =>
      apply_writes ws' args
        (match sx_eval st args e with
         | Some v => dict_set st a v
         | None => filter (fun kv => negb (String.eqb (fst kv) a)) st
         end)
  end.

(* what a caller can do to a facade object besides issuing commands *)
Inductive fop :=
| FoInit (dev bs : cval)          (* SCSI(dev, blocksize) *)
| FoCall (dev : cval)             (* s(dev) *)
| FoSetBlocksize (v : cval)       (* s.blocksize = v *)
| FoMethod (name : string).       (* any command method *)

Definition writes_of (tbl : list (string * list (string * sx))) (name : string) : list (string * sx) :=
  match lookup name tbl with Some ws => ws | None => [] end.

Definition fstep (tbl : list (string * list (string * sx))) (st : fstate) (o : fop) : fstate :=
  match o with
  | FoInit dev bs => apply_writes (writes_of tbl "__init__") [("dev", dev); ("blocksize", bs)] st
  | FoCall dev => apply_writes (writes_of tbl "__call__") [("dev", dev)] st
  | FoSetBlocksize v => apply_writes (writes_of tbl "blocksize.setter") [("value", v)] st
  | FoMethod name => apply_writes (writes_of tbl name) [] st
  end.

(* the block size the command methods hand to the constructors (FBlocksize) *)
Definition blocksize_seen (get : sx) (st : fstate) : option cval := sx_eval st [] get.

(* the specification: the block size is whatever was set last (the constructor's argument if never set) *)
Fixpoint last_blocksize (cur : option cval) (ops : list fop) : option cval :=
  match ops with
  | [] => cur
  | FoInit _ bs :: r => last_blocksize (Some bs) r
  | FoSetBlocksize v :: r => last_blocksize (Some v) r
  | _ :: r => last_blocksize cur r
  end.

(* decidable side condition on the regenerated stores: the setter and __init__ store their parameter, unmodified, in the
   attribute the getter returns, and no other function of the class stores to that attribute *)
Definition stores_param (ws : list (string * sx)) (attr param : string) : bool :=
  match filter (fun w => String.eqb (fst w) attr) ws with
  | [(_, SxParam p)] => String.eqb p param
  | _ => false
  end.
Definition no_store (ws : list (string * sx)) (attr : string) : bool :=
  forallb (fun w => negb (String.eqb (fst w) attr) && negb (String.eqb (fst w) "?")) ws.

Definition blocksize_state_ok (tbl : list (string * list (string * sx))) (get : sx) : bool :=
  match get with
  | SxAttr a =>
      stores_param (writes_of tbl "__init__") a "blocksize" &&
      stores_param (writes_of tbl "blocksize.setter") a "value" &&
      forallb (fun e => String.eqb (fst e) "__init__" || String.eqb (fst e) "blocksize.setter" || no_store (snd e) a) tbl
  | _ => false
  end.
