(* Model/Command.v — SCSICommand.init_cdb (scsi_command.py:50-70).
   The range table is REGENERATED from the source (Gen/Misc.v: init_cdb_ranges); this file
   gives its semantics: the first range containing the opcode value decides. *)
From Coq Require Import String.
From PS Require Import Base.Bytes Base.Result.

(* (lo, hi, Some n)  ~  `lo <= opcode.value <= hi: cdb = bytearray(n)`
   (lo, hi, None)    ~  `lo <= opcode.value <= hi: raise OpcodeException` *)
Definition cdb_range := (N * N * option nat)%type.

Fixpoint init_cdb_len (ranges : list cdb_range) (else_raises : bool) (v : N) : result nat :=
  match ranges with
  | [] => if else_raises then Raise OpcodeException else Raise (OtherExn "UnboundLocalError")
  | (lo, hi, r) :: rest =>
      if (lo <=? v) && (v <=? hi)
      then match r with Some n => Ok n | None => Raise OpcodeException end
      else init_cdb_len rest else_raises v
  end.
