(* Model/InitCdb.v — SCSICommand.init_cdb on the range table regenerated from scsi_command.py *)
From PS Require Import Base.Bytes Base.Result Model.Command Gen.Misc.
Definition init_cdb (v : N) : result nat := init_cdb_len init_cdb_ranges init_cdb_else_raises v.
