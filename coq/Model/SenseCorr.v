(* Model/SenseCorr.v — case format of the sense correspondence (tools/corr/sense.py). *)
From Coq Require Import String.
From PS Require Import Base.Bytes Base.Result Model.Converter Model.CorrUtil Model.Sense.
Open Scope string_scope.
Open Scope N_scope.

Definition new_obs := (N * list (string * value) * option N * option N)%type.
Definition sense_case := (bytes * result new_obs * result descr)%type.

Definition optN_eqb := option_eqb N.eqb.
Definition new_obs_eqb (a b : new_obs) : bool :=
  let '(r1, d1, a1, q1) := a in let '(r2, d2, a2, q2) := b in
  (r1 =? r2) && list_eqb kv_eqb d1 d2 && optN_eqb a1 a2 && optN_eqb q1 q2.
Definition descr_eqb (a b : descr) : bool :=
  match a, b with
  | DUnknownFormat x, DUnknownFormat y => x =? y
  | DKnown t1 k1 u1 n1, DKnown t2 k2 u2 n2 => String.eqb t1 t2 && (k1 =? k2) && String.eqb u1 u2 && (n1 =? n2)
  | _, _ => false
  end.

Definition check_sense_case (c : sense_case) : bool :=
  let '(s, en, ed) := c in
  match sense_new s with
  | Raise e => result_eqb new_obs_eqb (Raise e) en
  | Ok cc => result_eqb new_obs_eqb (Ok (cc_rc cc, cc_data cc, cc_asc cc, cc_ascq cc)) en
             && result_eqb descr_eqb (describe cc) ed
  end.
