(* Model/InitDevice.v — pyscsi.utils.init_device and the constructor guards of SCSIDevice / ISCSIDevice.
   The prefix tests (slice length, literal, class) and the guards are REGENERATED (Gen/Misc.v); this file is
   their semantics over real strings, with the external calls a successful construction makes. *)
From Coq Require Import String.
From PS Require Import Base.Bytes Base.Result Model.Command Model.Enum Model.Exec Model.Sx Gen.Tables Gen.Misc.
Open Scope string_scope.

Record config := mkCfg { has_sgio : bool; has_iscsi : bool }.

Inductive extcall :=
| COpen (path mode : string)                    (* builtins.open(path, mode) *)
| CContext (initiator : string)                 (* iscsi.Context(name) *)
| CUrl (url : string)                           (* iscsi.URL(ctx, url) *)
| CConnect.                                     (* ctx.connect(portal, lun) *)

Inductive devclass := DSCSIDevice | DISCSIDevice.

(* python:  s[:n] == lit *)
Definition slice_eq (n : nat) (lit s : string) : bool := String.eqb (String.substring 0 n s) lit.

Definition guard_passes (g : option (nat * string)) (flag : bool) (dev : string) : bool :=
  match g with Some (n, lit) => flag && slice_eq n lit dev | None => false end.

(* the name the binding is opened on: the constructor stores its `device` parameter, unmodified, in the attribute open()
   hands to the binding, and nothing else stores to that attribute (stores and open() argument REGENERATED) *)
Definition name_flow_ok (flow : list (string * string * sx) * sx) : bool :=
  match snd flow with
  | SxAttr a =>
      match filter (fun e => match e with (_, attr, _) => String.eqb attr a || String.eqb attr "?" end) (fst flow) with
      | [(f, _, SxParam p)] => String.eqb f "__init__" && String.eqb p "device"
      | _ => false
      end
  | _ => false
  end.
Definition opened_name (flow : list (string * string * sx) * sx) (dev : string) : string :=
  if name_flow_ok flow then dev else "<not the requested name>".

Definition new_scsi_device (cfg : config) (dev : string) (rw : bool) : result (devclass * list extcall) :=
  if guard_passes scsi_device_guard (has_sgio cfg) dev
  then Ok (DSCSIDevice, [COpen (opened_name scsi_device_name_flow dev) (if rw then "w+b" else "rb")])
  else Raise NotImplementedError.

Definition new_iscsi_device (cfg : config) (dev iname : string) : result (devclass * list extcall) :=
  if guard_passes iscsi_device_guard (has_iscsi cfg) dev
  then Ok (DISCSIDevice, [CContext (if Nat.eqb (String.length iname) 0 then dev else iname); CUrl (opened_name iscsi_device_name_flow dev); CConnect])
  else Raise NotImplementedError.

Fixpoint dispatch (rows : list (nat * string * string)) (cfg : config) (dev : string) (rw : bool) (iname : string)
  : result (devclass * list extcall) :=
  match rows with
  | [] => if init_device_else_raises then Raise NotImplementedError else Raise (OtherExn "UnboundLocalError")
  | (n, lit, cls) :: rest =>
      if slice_eq n lit dev then
        if String.eqb cls "SCSIDevice" then new_scsi_device cfg dev rw
        else if String.eqb cls "ISCSIDevice" then new_iscsi_device cfg dev iname
        else Raise (OtherExn "NameError")
      else dispatch rest cfg dev rw iname
  end.

Definition init_device (cfg : config) (dev : string) (rw : bool) (iname : string) := dispatch init_device_rows cfg dev rw iname.
