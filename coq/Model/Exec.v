(* Model/Exec.v — the two transports' execute() as small programs over the binding's observable outcome.
   The programs themselves (status dispatch chain of ISCSIDevice.execute, CheckConditionError handler of
   SCSIDevice.execute) are REGENERATED from the source (Gen/Misc.v); this file is their semantics.
   Sense data is tracked symbolically by its SOURCE (the task of this execution, a value cached on the
   command object by an earlier execution, the sgio error), so every statement below is over a finite
   domain; the correspondence run maps observed bytes back to sources. No proofs here. *)
From Coq Require Import String.
From PS Require Import Base.Bytes Base.Result.
Open Scope string_scope.

Inductive ssrc := SNone | SCached | STask | SErr.              (* where a sense value came from *)
Inductive sloc := LCmdSense | LRaw.                            (* cmd.sense / cmd.raw_sense_data *)
Inductive sexp := XCmdSense | XTaskSense | XErrSense.          (* cmd.sense / task.raw_sense / error.sense *)
Inductive guard := GAlways | GRaw (b : bool) | GNoSense.      (* always / if [not] en_raw_sense / if not cmd.sense *)
Inductive act :=
| ASet (dst : sloc) (src : sexp)
| ARaiseCC (src : sexp)            (* raise self.CheckCondition(src) *)
| AConstructCC (src : sexp)        (* self.CheckCondition(src)   -- constructed and discarded *)
| AReturn
| ARaise (e : exn)
| AUnknownAct (s : string).
Definition gact := (guard * act)%type.

Record xstate := mkX { x_sense : ssrc; x_raw : ssrc }.
Inductive xres := XReturn | XRaiseCC (s : ssrc) | XRaise (e : exn).

Definition src_of (st : xstate) (e : sexp) : ssrc :=
  match e with XCmdSense => x_sense st | XTaskSense => STask | XErrSense => SErr end.

Definition guard_ok (raw : bool) (st : xstate) (g : guard) : bool :=
  match g with
  | GAlways => true
  | GRaw b => Bool.eqb raw b
  | GNoSense => match x_sense st with SNone => true | _ => false end
  end.

(* constructing CheckCondition(None) fails: SCSICheckCondition.__init__ subscripts its argument *)
Definition raise_cc (s : ssrc) : xres := match s with SNone => XRaise TypeError | _ => XRaiseCC s end.

Fixpoint run_acts (raw : bool) (st : xstate) (acts : list gact) : xstate * option xres :=
  match acts with
  | [] => (st, None)
  | (g, a) :: rest =>
      if guard_ok raw st g then
        match a with
        | ASet LCmdSense e => run_acts raw (mkX (src_of st e) (x_raw st)) rest
        | ASet LRaw e => run_acts raw (mkX (x_sense st) (src_of st e)) rest
        | ARaiseCC e => (st, Some (raise_cc (src_of st e)))
        | AConstructCC e => match src_of st e with
                            | SNone => (st, Some (XRaise TypeError))
                            | _ => run_acts raw st rest
                            end
        | AReturn => (st, Some XReturn)
        | ARaise e => (st, Some (XRaise e))
        | AUnknownAct _ => (st, Some (XRaise (OtherExn "Unknown")))
        end
      else run_acts raw st rest
  end.

(* ISCSIDevice.execute after self._iscsi.command(...):  a chain of  `if task.status == SCSI_STATUS.NAME: acts`
   and what happens when no branch ends the function (Some e: raise e; None: fall off the end = return) *)
Definition iscsi_prog := list (string * list gact).

Fixpoint iscsi_run (status_tbl : list (string * N)) (prog : iscsi_prog) (final : option exn)
         (v : N) (raw : bool) (st : xstate) : xstate * xres :=
  match prog with
  | [] => (st, match final with Some e => XRaise e | None => XReturn end)
  | (name, acts) :: rest =>
      match (fix look (l : list (string * N)) := match l with
                                                 | [] => None
                                                 | (k, x) :: l' => if String.eqb k name then Some x else look l'
                                                 end) status_tbl with
      | None => (st, XRaise AttributeError)          (* SCSI_STATUS.<name> does not exist *)
      | Some x =>
          if N.eqb v x then
            match run_acts raw st acts with
            | (st', Some r) => (st', r)
            | (st', None) => iscsi_run status_tbl rest final v raw st'
            end
          else iscsi_run status_tbl rest final v raw st
      end
  end.

(* SCSIDevice.execute: sgio.execute either returns, raises CheckConditionError (handled by the regenerated
   handler), or raises something else (propagates) *)
Inductive sg_outcome := SgReturn | SgCheckCondition | SgRaises (e : exn).

Definition sg_run (handler : list gact) (o : sg_outcome) (raw : bool) (st : xstate) : xstate * xres :=
  match o with
  | SgReturn => (st, XReturn)
  | SgRaises e => (st, XRaise e)
  | SgCheckCondition =>
      match run_acts raw st handler with
      | (st', Some r) => (st', r)
      | (st', None) => (st', XReturn)       (* the handler falls off its end: execute() returns normally *)
      end
  end.

(* ---------- the transfer set-up of ISCSIDevice.execute (REGENERATED into Gen/Misc.v: iscsi_xfer_prog) ---------- *)
Inductive xstep :=
| XSetDir (d : string)                              (* dir = iscsi.<d> *)
| XSetLen0                                          (* xferlen = 0 *)
| XIfLen (buf d lenbuf : string)                    (* if len(cmd.<buf>): dir = iscsi.<d>; xferlen = len(cmd.<lenbuf>) *)
| XTask (args : list string)                        (* task = iscsi.Task(<args>) *)
| XCommand (args : list string)                     (* self._iscsi.command(<args>) *)
| XUnknownStep (src : string).

Definition buf_len (lo li : N) (buf : string) : option N :=
  if String.eqb buf "dataout" then Some lo else if String.eqb buf "datain" then Some li else None.

Fixpoint str_list_eqb (a b : list string) : bool :=
  match a, b with [] , [] => true | x :: a', y :: b' => String.eqb x y && str_list_eqb a' b' | _, _ => false end.

(* direction name and expected transfer length handed to the binding, given len(cmd.dataout) and len(cmd.datain);
   None: a step outside the recognised shapes, or Task / command not called with (cdb, dir, xferlen) / (lun, task, dataout, datain) *)
Fixpoint run_xfer (dirv lenv : string) (prog : list xstep) (lo li : N) (st : string * N) : option (string * N) :=
  match prog with
  | [] => Some st
  | XSetDir d :: rest => run_xfer dirv lenv rest lo li (d, snd st)
  | XSetLen0 :: rest => run_xfer dirv lenv rest lo li (fst st, 0%N)
  | XIfLen buf d lb :: rest =>
      match buf_len lo li buf, buf_len lo li lb with
      | Some n, Some m => run_xfer dirv lenv rest lo li (if N.eqb n 0 then st else (d, m))
      | _, _ => None
      end
  | XTask args :: rest =>
      if str_list_eqb args ["cmd.cdb"; dirv; lenv] then run_xfer dirv lenv rest lo li st else None
  | XCommand args :: rest =>
      if str_list_eqb args ["self._iscsi_url.lun"; "task"; "cmd.dataout"; "cmd.datain"] then run_xfer dirv lenv rest lo li st else None
  | XUnknownStep _ :: _ => None
  end.
