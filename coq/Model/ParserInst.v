(* Model/ParserInst.v — the decoders of Model/Parser.v instantiated with the REGENERATED skeletons (Gen/Parsers.v)
   and tables (Gen/Tables.v). No proofs in this file. *)
From Coq Require Import String.
From PS Require Import Base.Bytes Base.Result Model.Converter Model.Parser Gen.Tables Gen.Parsers.
Open Scope string_scope.
Open Scope N_scope.

Fixpoint tables_of (names : list string) : option (list layout) :=
  match names with
  | [] => Some []
  | n :: ns => match lookup n all_tables, tables_of ns with
               | Some t, Some ts => Some (t :: ts)
               | _, _ => None
               end
  end.

Definition layout_of (names : list string) : option layout :=
  match tables_of names with Some ts => Some (concat ts) | None => None end.

(* X.unmarshall_datain(data) for the whole-buffer decoders *)
Definition parse_whole_named (fn : string) (data : bytes) : result (list (string * value)) :=
  match lookup fn whole_parsers with
  | Some names => match layout_of names with Some L => decode_bits data L | None => Raise AttributeError end
  | None => Raise AttributeError
  end.

(* Inquiry.unmarshall_datain(data, evpd) for evpd = 0 and for the VPD pages that are one decode_bits *)
Definition vpd_truncate (data : bytes) : bytes := firstn (4 + N.to_nat (ba_to_int (slice data 2 4))) data.

Definition parse_inquiry (evpd : N) (data : bytes) : result (list (string * value)) :=
  match layout_of inquiry_pre, layout_of inquiry_std, layout_of inquiry_vpd_pre with
  | Some Lpre, Some Lstd, Some Lpc =>
      match decode_bits data Lpre with
      | Raise e => Raise e
      | Ok d0 =>
          if evpd =? 0 then
            match decode_bits data Lstd with Ok d1 => Ok (dict_update d0 d1) | Raise e => Raise e end
          else
            match decode_bits data Lpc with
            | Raise e => Raise e
            | Ok d1 =>
                let d01 := dict_update d0 d1 in
                match lookup "page_code" d01 with
                | Some (VI pc) =>
                    match find (fun e => fst e =? pc) inquiry_vpd_flat with
                    | Some (_, tn) =>
                        match layout_of [tn] with
                        | Some L => match decode_bits (vpd_truncate data) L with
                                    | Ok d2 => Ok (dict_update d01 d2)
                                    | Raise e => Raise e
                                    end
                        | None => Raise AttributeError
                        end
                    | None => Raise (OtherExn "not-modelled")
                    end
                | _ => Raise KeyError
                end
            end
      end
  | _, _, _ => Raise AttributeError
  end.

(* the descriptor chunks of the fixed-stride list decoders *)
Definition parse_list_named (fn : string) (data : bytes) : option (list bytes) :=
  match lookup fn list_parsers with
  | Some (p, _) => parse_list p data
  | None => None
  end.
