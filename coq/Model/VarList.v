(* Model/VarList.v — lists of descriptors that carry their own length: each descriptor is `fixed` bytes plus the
   value of a length field at bytes [a, b) of the descriptor (designation descriptors, READ FULL STATUS descriptors,
   REPORT PRIORITY descriptors, element status pages).  The decoders walk them with
       while len(d): n = fixed + ba_to_int(d[a:b]); use d[:n]; d = d[n:]
   Which (fixed, a, b) each decoder uses is REGENERATED (Gen/Parsers.v).  No proofs in this file. *)
From Coq Require Import String.
From PS Require Import Base.Bytes Base.Result Model.Converter.
Open Scope N_scope.

Record vparams := mkVP { vp_fixed : nat; vp_a : nat; vp_b : nat }.

(* the length the decoder takes the descriptor at the head of d to have (clipped to what is there, in N) *)
Definition desc_len (p : vparams) (d : bytes) : nat :=
  N.to_nat (N.min (N.of_nat (vp_fixed p) + ba_to_int (slice d (vp_a p) (vp_b p))) (N.of_nat (length d))).

Fixpoint vchunks (p : vparams) (fuel : nat) (d : bytes) : option (list bytes) :=
  match d with
  | [] => Some []
  | _ :: _ =>
      match fuel with
      | O => None
      | S f => match vchunks p f (skipn (desc_len p d) d) with
               | Some cs => Some (firstn (desc_len p d) d :: cs)
               | None => None
               end
      end
  end.
