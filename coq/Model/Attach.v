(* Model/Attach.v — SCSI.__init__/__call__ -> __init_opcode: one standard INQUIRY through the device's current
   command set, then the decision table REGENERATED from scsi.py (Gen/FacadeTbl.v: attach_table).
   The command set lives on the DEVICE object; the facade only points at a device. *)
From Coq Require Import String.
From PS Require Import Base.Bytes Base.Result Model.Converter Model.Ctor Model.Facade Gen.FacadeTbl.
Open Scope string_scope.
Open Scope N_scope.

Definition select (t : N) (current : string) : string :=
  match find (fun row => existsb (N.eqb t) (fst row)) attach_table with
  | Some (_, s) => s
  | None => current
  end.

(* devices: the command set each device object currently carries *)
Definition devices := list string.

Fixpoint set_nth {A} (l : list A) (n : nat) (x : A) : list A :=
  match l, n with
  | [], _ => []
  | _ :: l', O => x :: l'
  | y :: l', S n' => y :: set_nth l' n' x
  end.

(* attach the facade to device i, which answers INQUIRY with first byte b0 *)
Definition attach (devs : devices) (i : nat) (b0 : N) : devices :=
  set_nth devs i (select (N.land b0 31) (nth i devs "spc")).

Fixpoint attach_all (devs : devices) (h : list (nat * N)) : devices :=
  match h with [] => devs | (i, b) :: h' => attach_all (attach devs i b) h' end.
