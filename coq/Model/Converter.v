(* Model/Converter.v — hand-written executable model of pyscsi/utils/converter.py
   (scsi_int_to_ba / scsi_ba_to_int are in Base/Bytes.v).  No proofs in this file.
   Tied to the code by tools/corr/converter.py (correspondence run on every check). *)
From Coq Require Import String.
From PS Require Import Base.Bytes Base.Result.

(* a layout-table entry:  [mask, byte_offset]   or   ("b"|"w"|"dw", offset, length)  *)
Inductive fdesc :=
| Mask (mask off : N)
| Blob (unit_bytes off len : N).       (* "b" -> 1, "w" -> 2, "dw" -> 4 *)

Definition layout := list (string * fdesc).

Inductive value := VI (n : N) | VB (b : bytes).

Fixpoint lookup {A} (k : string) (l : list (string * A)) : option A :=
  match l with
  | [] => None
  | (k', v) :: l' => if String.eqb k k' then Some v else lookup k l'
  end.

(* python:  _num = 1; _bm = bitmask;  while _bm > 0xFF: _bm >>= 8; _num += 1 *)
Definition nbytes (m : N) : nat := N.to_nat (N.max 1 ((N.size m + 7) / 8)).

(* python:  while not bitmask & 1: bitmask >>= 1 ...   — does not terminate for mask 0 *)
Fixpoint pos_ctz (p : positive) : N :=
  match p with xO p' => N.succ (pos_ctz p') | _ => 0 end.
Definition ctz (m : N) : option N :=
  match m with N0 => None | Npos p => Some (pos_ctz p) end.

Fixpoint xor_list (a b : bytes) : bytes :=
  match a, b with
  | x :: a', y :: b' => N.lxor x y :: xor_list a' b'
  | _, _ => a
  end.

(* python: for i in range(len(v)): result[off+i] ^= v[i]     (caller checks bounds) *)
Definition xor_at (r : bytes) (off : nat) (v : bytes) : bytes :=
  firstn off r ++ xor_list (firstn (length v) (skipn off r)) v ++ skipn (off + length v) r.

Definition decode1 (data : bytes) (f : fdesc) : result value :=
  match f with
  | Mask m o =>
      match ctz m with
      | None => Raise Diverges
      | Some z =>
          let v := ba_to_int (slice data (N.to_nat o) (N.to_nat o + nbytes m)) in
          Ok (VI (N.land (N.shiftr v z) (N.shiftr m z)))
      end
  | Blob u o len => Ok (VB (slice data (N.to_nat o) (N.to_nat (o + len * u))))
  end.

Definition encode1 (r : bytes) (f : fdesc) (v : value) : result bytes :=
  match f, v with
  | Mask m o, VI x =>
      match ctz m with
      | None => Raise Diverges
      | Some z =>
          let n := nbytes m in
          if (N.to_nat o + n <=? length r)%nat
          then Ok (xor_at r (N.to_nat o) (int_to_ba (N.shiftl x z) n))
          else Raise IndexError
      end
  | Blob u o len, VB b =>
      (* python slice assignment: result[o : o+len*u] = b   (may change the length) *)
      Ok (firstn (N.to_nat o) r ++ b ++ skipn (N.to_nat (o + len * u)) r)
  | _, _ => Raise TypeError
  end.

(* python: for key in data_dict.keys(): if key not in check_dict: continue; ... *)
Fixpoint encode_dict (d : list (string * value)) (L : layout) (r : bytes) : result bytes :=
  match d with
  | [] => Ok r
  | (k, v) :: d' =>
      match lookup k L with
      | None => encode_dict d' L r
      | Some f => match encode1 r f v with
                  | Ok r' => encode_dict d' L r'
                  | Raise e => Raise e
                  end
      end
  end.

(* python: for key in check_dict.keys(): ... result_dict.update({key: value}) *)
Fixpoint decode_bits (data : bytes) (L : layout) : result (list (string * value)) :=
  match L with
  | [] => Ok []
  | (k, f) :: L' =>
      match decode1 data f with
      | Raise e => Raise e
      | Ok v => match decode_bits data L' with
                | Raise e => Raise e
                | Ok rest => Ok ((k, v) :: rest)
                end
      end
  end.

(* insertion-ordered dict update, as python's  d[k] = v  *)
Fixpoint dict_set {A} (d : list (string * A)) (k : string) (v : A) : list (string * A) :=
  match d with
  | [] => [(k, v)]
  | (k', v') :: d' => if String.eqb k k' then (k, v) :: d' else (k', v') :: dict_set d' k v
  end.

Definition dict_update {A} (d new : list (string * A)) : list (string * A) :=
  fold_left (fun acc kv => dict_set acc (fst kv) (snd kv)) new d.
