(* Model/Stack.v — one facade call, end to end: facade method (REGENERATED action list, Gen/FacadeTbl.v)
   -> operation code from the attached device's command set (REGENERATED, Gen/Opcodes.v) -> command constructor
   (REGENERATED IR, Gen/Ctors.v, semantics Model/Ctor.v) -> transport glue of SCSIDevice.execute /
   ISCSIDevice.execute (hand model below; the status handling is Model/Exec.v) -> target (Spec/Target.v).
   Tied to the code by the stack correspondence (tools/corr/stack_impl.py). No proofs in this file. *)
From Coq Require Import String.
From PS Require Import Base.Bytes Base.Result Model.Converter Model.Command Model.Ctor Model.InitCdb Model.Facade Model.Exec Model.Enum Model.Device Model.Xfer.
From PS Require Import Gen.Tables Gen.Opcodes Gen.Ctors Gen.FacadeTbl Gen.Misc Spec.Target.
Open Scope string_scope.
Open Scope N_scope.

Definition no_ext (fn : string) (args : list cval) : result cval := Raise (OtherExn "helper").

(* get_opcode(enum, "9E"): first key (in table order) whose last two characters are the suffix *)
Definition has_suffix2 (suffix key : string) : bool :=
  String.eqb (String.substring (String.length key - 2) 2 key) suffix.

Definition find_method (name : string) : option fmethod :=
  find (fun m => String.eqb (f_name m) name) facade_methods.

Definition op_of_entry (e : opentry) : opcode := mkOp (snd (fst (snd e))) (snd (snd e)).

(* the first two actions of a facade method: which operation code object, which class with which arguments *)
Definition resolve (set : list opentry) (name : string) : option (opcode * ctor * ccall) :=
  match find_method name with
  | None => None
  | Some m =>
      match f_acts m with
      | look :: AConstruct cc :: AExecute false :: _ =>
          let oe := match look with
                    | ALookup nm => find (fun e => String.eqb (fst e) nm) set
                    | ALookupSuffix sfx => find (fun e => has_suffix2 sfx (fst e)) set
                    | _ => None
                    end in
          match oe, lookup (fst (fst (fst cc))) all_ctors with
          | Some e, Some c => Some (op_of_entry e, c, cc)
          | _, _ => None
          end
      | _ => None
      end
  end.

Definition farg_val (bs : N) (args : env) (a : farg) : option cval :=
  match a with
  | FArg x => lookup x args
  | FBlocksize => Some (CInt bs)
  | FOpcode => None                      (* passed separately (the IR's parameters start after it) *)
  end.

Fixpoint pos_vals (bs : N) (args : env) (l : list farg) : list cval :=
  match l with
  | [] => []
  | a :: l' => match farg_val bs args a with Some v => v :: pos_vals bs args l' | None => pos_vals bs args l' end
  end.

Fixpoint kw_vals (bs : N) (args : env) (l : list (string * farg)) : list (string * cval) :=
  match l with
  | [] => []
  | (k, a) :: l' => match farg_val bs args a with Some v => (k, v) :: kw_vals bs args l' | None => kw_vals bs args l' end
  end.

(* the facade method's own parameters: given by position (here: by name in args), by keyword, or defaulted *)
Definition fparams (name : string) : list (string * option cval) :=
  match find_method name with Some m => f_params m | None => [] end.

Fixpoint bind_facade (params : list (string * option cval)) (args : env) (kw : list (string * cval)) : env :=
  match params with
  | [] => []
  | (x, d) :: ps =>
      match lookup x args, lookup x kw, d with
      | Some v, _, _ | None, Some v, _ | None, None, Some v => (x, v) :: bind_facade ps args kw
      | None, None, None => bind_facade ps args kw
      end
  end.

Definition passthrough (params : list (string * option cval)) (kw : list (string * cval)) : list (string * cval) :=
  filter (fun kv => match lookup (fst kv) params with Some _ => false | None => true end) kw.

(* facade.NAME(args by name, keywords kw): the command object handed to device.execute *)
Definition facade_cmd (set : list opentry) (bs : N) (name : string) (args : env) (kw : list (string * cval)) : result cmd :=
  match resolve set name with
  | None => Raise AttributeError
  | Some (op, c, (_, pos, kws, star)) =>
      let fenv := bind_facade (fparams name) args kw in
      snd (run_ctor no_ext op c init_cdb G0 (pos_vals bs fenv pos)
                    (kw_vals bs fenv kws ++ (if star then passthrough (fparams name) kw else []))%list)
  end.

(* ---------- the transports ---------- *)
Inductive transport := SGIO | ISCSI.

Definition cval_bytes (v : cval) : option bytes :=
  match v with CBytes b => Some b | CZeros n => Some (zeros (N.to_nat n)) | _ => None end.

(* what the target is handed: CDB, data-out bytes, and how many data-in bytes can be received.
   SG_IO: sgio.execute(file, cdb, dataout, datain) — both buffers as they are (argument list REGENERATED: sgio_execute_args).
   iSCSI: direction and expected transfer length come from the REGENERATED set-up of ISCSIDevice.execute
   (iscsi_xfer_prog); the binding sends data-out only for direction WRITE and receives data-in only for direction READ,
   in both cases no more than the expected transfer length. *)
Definition wire (tr : transport) (c : cmd) : option (bytes * bytes * nat) :=
  match cdb c, cval_bytes (dataout c), cval_bytes (datain c) with
  | Some b, Some o, Some i =>
      match tr with
      | SGIO => if sgio_args_ok then Some (b, o, length i) else None
      | ISCSI =>
          match iscsi_xfer (N.of_nat (length o)) (N.of_nat (length i)) with
          | Some (d, n) =>
              if String.eqb d "SCSI_XFER_WRITE" then Some (b, firstn (N.to_nat n) o, 0%nat)
              else if String.eqb d "SCSI_XFER_READ" then Some (b, [], Nat.min (N.to_nat n) (length i))
              else Some (b, [], 0%nat)
          | None => None
          end
      end
  | _, _, _ => None
  end.

(* the data-in buffer afterwards: the response, cut to the buffer, the rest of the buffer still zero *)
Definition fill (space : nat) (resp : bytes) : bytes :=
  (firstn space resp ++ zeros (space - length resp))%list.

Definition CheckCondition := CheckConditionE [].

Definition stack_call (tr : transport) (bs : N) (t : target) (name : string) (args : env) (kw : list (string * cval))
  : target * result bytes :=
  match facade_cmd E_sbc bs name args kw with
  | Raise e => (t, Raise e)
  | Ok c =>
      match wire tr c with
      | None => (t, Raise TypeError)
      | Some (b, o, space) =>
          match t_exec t b o with
          | (t', TGood resp) => (t', Ok (fill space resp))
          | (t', TCheck) => (t', Raise CheckCondition)
          end
      end
  end.

Definition call := (string * env * list (string * cval))%type.

Fixpoint stack_run (tr : transport) (bs : N) (t : target) (h : list call) : target * list (result bytes) :=
  match h with
  | [] => (t, [])
  | (name, args, kw) :: h' =>
      let '(t1, r) := stack_call tr bs t name args kw in
      let '(t2, rs) := stack_run tr bs t1 h' in
      (t2, r :: rs)
  end.
