(* Model/Device.v — SCSIDevice over a file system that can replace or remove the device node.
   The shape of execute()'s replug prologue is REGENERATED (Gen/Misc.v: replug_prologue); this file is the
   state machine.  Assumed behaviour of the outside world (DESIGN §6): a re-created node has a new inode;
   os.stat of a missing node raises OSError; closing an already closed Python file object is a no-op.
   Tied by tools/corr/device.py on a real file system under /dev/shm.  No proofs in this file. *)
From Coq Require Import String.
From PS Require Import Base.Bytes Base.Result.
Open Scope nat_scope.

Inductive prologue := PNone | PCloseOpen | PTryCloseFinallyOpen | POpenOnly | PUnknown.

Record handle := mkH { h_inode : nat; h_open : bool; h_closes : nat (* OS-level closes performed *) }.

Record world := mkW {
  w_node : option nat;            (* inode currently at the device path; None = unplugged *)
  w_next : nat;                   (* next fresh inode *)
  w_handles : list handle;        (* every handle ever opened, by handle id = position *)
  w_close_fails : bool }.         (* the next close() of an open handle raises (and does not close) *)

Record dev := mkD { d_cur : nat; d_ino : nat; d_detect : bool }.

Inductive event := EExecute | EReplug | EUnplug | ESetCloseFails (b : bool) | EClose | EExit.

(* what one event produced: a command sent through handle h while the node had inode n; an exception *)
Inductive out := OSent (h : nat) (h_ino : nat) (node : option nat) (h_is_open : bool) | ORaised (e : exn) | ONothing.

Fixpoint set_nth {A} (l : list A) (n : nat) (x : A) : list A :=
  match l, n with
  | [], _ => []
  | _ :: l', O => x :: l'
  | y :: l', S n' => y :: set_nth l' n' x
  end.

Definition the_handle (w : world) (h : nat) : handle := nth h (w_handles w) (mkH 0 false 0).

(* file.close(): may raise when the world says so (only for an open handle); idempotent on a closed one *)
Definition do_close (w : world) (h : nat) : world * bool (* raised? *) :=
  let hd := the_handle w h in
  if h_open hd then
    if w_close_fails w then (mkW (w_node w) (w_next w) (w_handles w) false, true)
    else (mkW (w_node w) (w_next w) (set_nth (w_handles w) h (mkH (h_inode hd) false (S (h_closes hd)))) (w_close_fails w), false)
  else (w, false).

(* open(): needs the node to exist; returns the new handle id *)
Definition do_open (w : world) : option (world * nat * nat) :=
  match w_node w with
  | None => None
  | Some i => Some (mkW (w_node w) (w_next w) (w_handles w ++ [mkH i true 0]) (w_close_fails w), length (w_handles w), i)
  end.

Definition send (w : world) (d : dev) : out :=
  let hd := the_handle w (d_cur d) in OSent (d_cur d) (h_inode hd) (w_node w) (h_open hd).

Definition step (p : prologue) (wd : world * dev) (e : event) : (world * dev) * out :=
  let '(w, d) := wd in
  match e with
  | EReplug => ((mkW (Some (w_next w)) (S (w_next w)) (w_handles w) (w_close_fails w), d), ONothing)
  | EUnplug => ((mkW None (w_next w) (w_handles w) (w_close_fails w), d), ONothing)
  | ESetCloseFails b => ((mkW (w_node w) (w_next w) (w_handles w) b, d), ONothing)
  | EClose | EExit =>
      let '(w', raised) := do_close w (d_cur d) in ((w', d), if raised then ORaised OSError else ONothing)
  | EExecute =>
      if d_detect d then
        match p with
        | PNone => ((w, d), send w d)
        | PUnknown => ((w, d), ORaised (OtherExn "Unknown"))
        | _ =>
            match w_node w with
            | None => ((w, d), ORaised OSError)                       (* os.stat in _is_replugged *)
            | Some i =>
                if Nat.eqb i (d_ino d) then ((w, d), send w d)
                else
                  match p with
                  | PTryCloseFinallyOpen =>
                      let '(w1, raised) := do_close w (d_cur d) in
                      match do_open w1 with
                      | None => ((w1, d), ORaised OSError)
                      | Some (w2, h, ino) =>
                          let d2 := mkD h ino (d_detect d) in
                          if raised then ((w2, d2), ORaised OSError) else ((w2, d2), send w2 d2)
                      end
                  | PCloseOpen =>
                      let '(w1, raised) := do_close w (d_cur d) in
                      if raised then ((w1, d), ORaised OSError) else
                      match do_open w1 with
                      | None => ((w1, d), ORaised OSError)
                      | Some (w2, h, ino) => let d2 := mkD h ino (d_detect d) in ((w2, d2), send w2 d2)
                      end
                  | _ => (* POpenOnly *)
                      match do_open w with
                      | None => ((w, d), ORaised OSError)
                      | Some (w2, h, ino) => let d2 := mkD h ino (d_detect d) in ((w2, d2), send w2 d2)
                      end
                  end
            end
        end
      else ((w, d), send w d)
  end.

Fixpoint run (p : prologue) (wd : world * dev) (es : list event) : (world * dev) * list out :=
  match es with
  | [] => (wd, [])
  | e :: es' => let '(wd1, o) := step p wd e in let '(wd2, os) := run p wd1 es' in (wd2, o :: os)
  end.

(* a device constructed on an existing node (inode 1) *)
Definition init (detect : bool) : world * dev := (mkW (Some 1) 2 [mkH 1 true 0] false, mkD 0 1 detect).
