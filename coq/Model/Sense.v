(* Model/Sense.v — SCSICheckCondition: constructor, text description.
   The format dispatch (which response codes are decoded with which table, which keys give ASC/ASCQ), the
   lookup forms of __str__ / _describe_ascq (strict subscript or .get with a default, guard for undecoded
   data) and all tables are REGENERATED from scsi_sense.py (Gen/Misc.v, Gen/SenseTables.v, Gen/Tables.v);
   this file is the semantics.  Tied by tools/corr/sense.py.  No proofs here. *)
From Coq Require Import String.
From PS Require Import Base.Bytes Base.Result Model.Converter Model.Command Model.Enum Model.Exec.
From PS Require Import Model.SenseStep Gen.Tables Gen.SenseTables Gen.Misc.
Open Scope string_scope.
Open Scope N_scope.

Record cc := mkCC { cc_rc : N; cc_data : list (string * value); cc_asc : option N; cc_ascq : option N }.

Definition handles (rc : N) (d : list N * layout * string * string) : bool :=
  let '(codes, _, _, _) := d in existsb (N.eqb rc) codes.

Definition sense_new (s : bytes) : result cc :=
  match s with
  | [] => Raise IndexError                          (* sense[0] *)
  | b0 :: _ =>
      let rc := N.land b0 127 in
      match find (handles rc) sense_dispatch with
      | None => Ok (mkCC rc [] sense_init_asc sense_init_ascq)
      | Some (_, L, ak, qk) =>
          match decode_bits s L with
          | Raise e => Raise e
          | Ok d => match lookup ak d, lookup qk d with
                    | Some (VI a), Some (VI q) => Ok (mkCC rc d (Some a) (Some q))
                    | _, _ => Raise KeyError
                    end
          end
      end
  end.

Fixpoint lookupN {A} (k : N) (l : list (N * A)) : option A :=
  match l with [] => None | (k', v) :: l' => if k =? k' then Some v else lookupN k l' end.

Definition in_range (r : N * N) (x : N) : bool := (fst r <=? x) && (x <? snd r).

Inductive descr :=
| DUnknownFormat (rc : N)
| DKnown (key_text : string) (key : N) (ascq_text : string) (ascq16 : N).

(* the regenerated steps, in program order; falling off the end returns None, which "%s" would print as the text "None" *)
Fixpoint describe_steps (steps : list ascq_step) (a q : N) : result string :=
  match steps with
  | [] => Ok "None"
  | s :: r =>
      match s with
      | AInTable => match lookupN (a * 256 + q) sense_ascq_dict with Some t => Ok t | None => describe_steps r a q end
      | AVendorAsc t => if in_range vendor_specific_sense_asc a then Ok t else describe_steps r a q
      | AVendorAscq t => if in_range vendor_specific_sense_ascq q then Ok t else describe_steps r a q
      | AGetDefault d => Ok (match lookupN (a * 256 + q) sense_ascq_dict with Some t => t | None => d end)
      | AStrict => match lookupN (a * 256 + q) sense_ascq_dict with Some t => Ok t | None => Raise KeyError end
      | AText t => Ok t
      | AUnknownStep => Raise (OtherExn "unknown step")
      end
  end.
Definition describe_ascq (a q : N) : result string := describe_steps sense_ascq_steps a q.

(* __str__ (without the optional print_data) as structured data instead of a formatted string *)
Definition describe (c : cc) : result descr :=
  match lookup "sense_key" (cc_data c) with
  | None => if sense_str_guard then Ok (DUnknownFormat (cc_rc c)) else Raise KeyError
  | Some (VB _) => Raise TypeError
  | Some (VI k) =>
      match match lookupN k sense_key_dict, sense_key_default with
            | Some t, _ => Ok t
            | None, Some d => Ok d
            | None, None => Raise KeyError
            end with
      | Raise e => Raise e
      | Ok kt =>
          match cc_asc c, cc_ascq c with
          | Some a, Some q => match describe_ascq a q with
                              | Raise e => Raise e
                              | Ok t => Ok (DKnown kt k t (a * 256 + q))
                              end
          | _, _ => Raise AttributeError
          end
      end
  end.
