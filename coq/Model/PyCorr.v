(* Model/PyCorr.v — decidable comparison of Python values, used by the generated correspondence files for the
   regenerated function bodies (coq/Corr/cases_pyfuncs_*.v). *)
From Coq Require Import String ZArith.
From PS Require Import Base.Bytes Base.Result Model.Converter Model.CorrUtil Model.Py.
Open Scope string_scope.

(* exact structural equality (True is not 1 here; dictionaries compare with their insertion order) *)
Fixpoint pv_eqb (a b : pv) {struct a} : bool :=
  match a, b with
  | PInt x, PInt y => Z.eqb x y
  | PBool x, PBool y => Bool.eqb x y
  | PNone, PNone => true
  | PBytes x, PBytes y => Py.bytes_eqb x y
  | PStr x, PStr y => String.eqb x y
  | PList x, PList y =>
      (fix go (x y : list pv) : bool :=
         match x, y with
         | [], [] => true
         | u :: x', v :: y' => pv_eqb u v && go x' y'
         | _, _ => false
         end) x y
  | PDict x, PDict y =>
      (fix go (x y : list (string * pv)) : bool :=
         match x, y with
         | [], [] => true
         | (k, u) :: x', (k', v) :: y' => String.eqb k k' && pv_eqb u v && go x' y'
         | _, _ => false
         end) x y
  | _, _ => false
  end.

Definition pycase := (string * list pv * result pv)%type.
Definition py_fuel : nat := 6000.

Definition is_unmodelled (r : result pv) : bool :=
  match r with
  | Raise (OtherExn s) => String.prefix "unmodelled:" s
  | _ => false
  end.

Section Check.
  Variable tables : list (string * layout).
  Variable P : program.
  Definition py_result (c : pycase) : result pv := let '(f, args, _) := c in call_fun tables P py_fuel f args.
  (* a case the model declines (an `unmodelled:` outcome) is counted separately, not as agreement *)
  Definition py_check (c : pycase) : bool :=
    let r := py_result c in is_unmodelled r || result_eqb pv_eqb r (snd c).
  Definition py_modelled (c : pycase) : bool := negb (is_unmodelled (py_result c)).
End Check.
