(* Model/CorrUtil.v — decidable comparisons used by the generated correspondence files
   (coq/Corr/cases_*.v): Coq itself compares the model's result with the implementation's. *)
From Coq Require Import String.
From PS Require Import Base.Bytes Base.Result Model.Converter.

Fixpoint bytes_eqb (a b : bytes) : bool :=
  match a, b with
  | [], [] => true
  | x :: a', y :: b' => (x =? y) && bytes_eqb a' b'
  | _, _ => false
  end.

Definition value_eqb (a b : value) : bool :=
  match a, b with
  | VI x, VI y => x =? y
  | VB x, VB y => bytes_eqb x y
  | _, _ => false
  end.

(* exceptions are compared by class only *)
Definition exn_eqb (a b : exn) : bool :=
  match a, b with
  | KeyError, KeyError | IndexError, IndexError | ValueError, ValueError | TypeError, TypeError
  | AttributeError, AttributeError | NotImplementedError, NotImplementedError
  | MissingBlocksize, MissingBlocksize | OpcodeException, OpcodeException
  | StopIteration, StopIteration | RuntimeError, RuntimeError | OSError, OSError
  | CheckConditionE _, CheckConditionE _ | ConditionsMet, ConditionsMet | BusyStatus, BusyStatus
  | ReservationConflict, ReservationConflict | TaskSetFull, TaskSetFull | ACAActive, ACAActive
  | TaskAborted, TaskAborted | Diverges, Diverges => true
  | OtherExn x, OtherExn y => String.eqb x y
  | _, _ => false
  end.

Definition result_eqb {A} (eqb : A -> A -> bool) (a b : result A) : bool :=
  match a, b with
  | Ok x, Ok y => eqb x y
  | Raise e, Raise f => exn_eqb e f
  | _, _ => false
  end.

Fixpoint list_eqb {A} (eqb : A -> A -> bool) (a b : list A) : bool :=
  match a, b with
  | [], [] => true
  | x :: a', y :: b' => eqb x y && list_eqb eqb a' b'
  | _, _ => false
  end.

Definition kv_eqb (a b : string * value) : bool := String.eqb (fst a) (fst b) && value_eqb (snd a) (snd b).

Definition option_eqb {A} (eqb : A -> A -> bool) (a b : option A) : bool :=
  match a, b with Some x, Some y => eqb x y | None, None => true | _, _ => false end.

Fixpoint memb_s (k : string) (l : list string) : bool :=
  match l with [] => false | k' :: l' => String.eqb k k' || memb_s k l' end.

Lemma memb_s_In k l : memb_s k l = true -> In k l.
Proof.
  induction l as [|k' l IH]; cbn [memb_s In]; [discriminate|].
  intros H. apply orb_prop in H as [H|H]; [left; symmetry; now apply String.eqb_eq|right; auto].
Qed.

(* indices (from 0) of the cases whose check is false *)
Fixpoint mismatches_from {A} (chk : A -> bool) (i : N) (l : list A) : list N :=
  match l with
  | [] => []
  | c :: l' => if chk c then mismatches_from chk (i + 1) l' else i :: mismatches_from chk (i + 1) l'
  end.
Definition mismatches {A} (chk : A -> bool) (l : list A) : list N := mismatches_from chk 0 l.

(* ---- converter cases ---- *)
Inductive ccase :=
| CI2B (v : N) (n : nat) (exp : bytes)
| CB2I (b : bytes) (exp : N)
| CDec (data : bytes) (L : layout) (exp : result (list (string * value)))
| CEnc (d : list (string * value)) (L : layout) (r : bytes) (exp : result bytes).

Definition check_ccase (c : ccase) : bool :=
  match c with
  | CI2B v n exp => bytes_eqb (int_to_ba v n) exp
  | CB2I b exp => ba_to_int b =? exp
  | CDec data L exp => result_eqb (list_eqb kv_eqb) (decode_bits data L) exp
  | CEnc d L r exp => result_eqb bytes_eqb (encode_dict d L r) exp
  end.
