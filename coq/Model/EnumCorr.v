(* Model/EnumCorr.v — case format of the Enum correspondence: three live enumerations, operations tagged
   with the enumeration they act on. *)
From Coq Require Import String.
From PS Require Import Base.Bytes Base.Result Model.Converter Model.CorrUtil Model.Enum Model.Command Gen.Misc.
Open Scope string_scope.

Definition enum_case := (list estate * list (nat * eop) * list eout)%type.

Fixpoint set_nth {A} (l : list A) (n : nat) (x : A) : list A :=
  match l, n with
  | [], _ => []
  | _ :: l', O => x :: l'
  | y :: l', S n' => y :: set_nth l' n' x
  end.

Fixpoint run_multi (sts : list estate) (ops : list (nat * eop)) : list eout :=
  match ops with
  | [] => []
  | (i, o) :: ops' =>
      let '(st', r) := e_step enum_keys_filter (nth i sts []) o in
      r :: run_multi (set_nth sts i st') ops'
  end.

Definition eout_eqb (a b : eout) : bool :=
  match a, b with
  | RUnit, RUnit => true
  | RExn x, RExn y => exn_eqb x y
  | RVal x, RVal y => evalue_eqb x y
  | RName x, RName y => String.eqb x y
  | RKeys x, RKeys y => list_eqb String.eqb x y
  | _, _ => false
  end.

Definition check_enum_case (c : enum_case) : bool :=
  let '(inits, ops, exp) := c in list_eqb eout_eqb (run_multi (map e_new inits) ops) exp.
