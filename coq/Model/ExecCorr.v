(* Model/ExecCorr.v — histories of executions over several command objects, with sense values identified by
   the index of the execution that produced them; case format of tools/corr/exec.py. *)
From Coq Require Import String.
From PS Require Import Base.Bytes Base.Result Model.CorrUtil Model.Exec Model.Command Model.Enum Gen.Opcodes Gen.Misc.
Open Scope N_scope.

Inductive estep :=
| EIscsi (cmd : nat) (v : N) (raw : bool)
| ESg (cmd : nat) (o : sg_outcome) (raw : bool).

Inductive eobs := OReturn | OCC (step : option nat) | OExn (e : exn).
Definition obs := (eobs * option nat)%type.      (* outcome, and which execution's sense cmd.raw_sense_data holds *)

Definition cstate := (option nat * option nat)%type.   (* cmd.sense, cmd.raw_sense_data as step indices *)

Definition interp (cur : nat) (cached : option nat) (s : ssrc) : option nat :=
  match s with SNone => None | SCached => cached | STask | SErr => Some cur end.

Fixpoint set_nth {A} (l : list A) (n : nat) (x : A) : list A :=
  match l, n with
  | [], _ => []
  | _ :: l', O => x :: l'
  | y :: l', S n' => y :: set_nth l' n' x
  end.

Definition step_model (i : nat) (cs : cstate) (s : estep) : cstate * obs :=
  let '(sense, rawd) := cs in
  let init := match sense with Some _ => SCached | None => SNone end in
  let '(st, r) := match s with
                  | EIscsi _ v raw => iscsi_run E_SCSI_STATUS iscsi_status_prog iscsi_final v raw (mkX init SNone)
                  | ESg _ o raw => sg_run sgio_cc_handler o raw (mkX init SNone)
                  end in
  let sense' := interp i sense (x_sense st) in
  let rawd' := match x_raw st with SNone => rawd | s' => interp i sense s' end in
  let o := match r with
           | XReturn => OReturn
           | XRaiseCC s' => OCC (interp i sense s')
           | XRaise e => OExn e
           end in
  ((sense', rawd'), (o, rawd')).

Definition cmd_of (s : estep) : nat := match s with EIscsi c _ _ | ESg c _ _ => c end.

Fixpoint run_hist (i : nat) (cmds : list cstate) (h : list estep) : list obs :=
  match h with
  | [] => []
  | s :: h' =>
      let '(cs', o) := step_model i (nth (cmd_of s) cmds (None, None)) s in
      o :: run_hist (S i) (set_nth cmds (cmd_of s) cs') h'
  end.

Definition onat_eqb := option_eqb Nat.eqb.
Definition eobs_eqb (a b : eobs) : bool :=
  match a, b with
  | OReturn, OReturn => true
  | OCC x, OCC y => onat_eqb x y
  | OExn x, OExn y => exn_eqb x y
  | _, _ => false
  end.
Definition obs_eqb (a b : obs) : bool := eobs_eqb (fst a) (fst b) && onat_eqb (snd a) (snd b).

Definition exec_case := (list estep * list obs)%type.
Definition check_exec_case (c : exec_case) : bool :=
  list_eqb obs_eqb (run_hist 0 (repeat (None, None) 4) (fst c)) (snd c).
