(* Model/Xfer.v — the transfer set-up of the two transports, instantiated with the REGENERATED programs of Gen/Misc.v.
   No proofs in this file. *)
From Coq Require Import String.
From PS Require Import Base.Bytes Base.Result Model.Converter Model.Command Model.Enum Model.Exec Model.Device Gen.Tables Gen.Misc.
Open Scope string_scope.
Open Scope N_scope.

Definition iscsi_xfer (lo li : N) : option (string * N) :=
  run_xfer (fst iscsi_xfer_vars) (snd iscsi_xfer_vars) iscsi_xfer_prog lo li ("", 0).

Definition sgio_args_ok : bool :=
  match sgio_execute_args with
  | [args] => str_list_eqb args ["self._file"; "cmd.cdb"; "cmd.dataout"; "cmd.datain"]
  | _ => false
  end.


(* neither execute() rebinds or resizes the CDB or a data buffer of the command it was handed (stores REGENERATED):
   a command object that is issued again is handed over with the buffers its constructor sized *)
Definition buffers_kept : bool :=
  forallb (fun e => match e with (_, attr, kind) =>
             negb (String.eqb attr "?") &&
             negb ((String.eqb attr "cdb" || String.eqb attr "dataout" || String.eqb attr "datain") &&
                   negb (String.eqb kind "content"))
           end) exec_cmd_stores.
