(* Model/Sx.v — the right-hand side of a store to an attribute of `self`, as the translator classifies it:
   a parameter of the function, another attribute of self, or anything else (not followed by the model). *)
From Coq Require Import String.
Inductive sx := SxParam (x : string) | SxAttr (a : string) | SxOther (src : string).
