(* Model/CtorCorr.v — case format of the constructor correspondence (tools/corr/ctors.py). *)
From Coq Require Import String.
From PS Require Import Base.Bytes Base.Result Model.Converter Model.CorrUtil Model.Command Model.Ctor Model.InitCdb.
Open Scope string_scope.
Open Scope N_scope.

Record ctor_case := mkCase {
  cc_ctor : ctor;
  cc_op : opcode;
  cc_pos : list cval;
  cc_kw : list (string * cval);
  cc_ext : list (string * result cval);      (* results of the helper calls, as observed on the implementation *)
  cc_exp : result (bytes * cval * cval);      (* cdb, dataout, datain *)
  (* K.unmarshall_cdb(cmd.cdb) and K.marshall_cdb(of that) right after construction *)
  cc_dec : option (list (string * value) * result bytes) }.

Definition ext_of (tbl : list (string * result cval)) (fn : string) (_ : list cval) : result cval :=
  match lookup fn tbl with Some r => r | None => Raise (OtherExn "helper not called") end.

Definition cval_eqb' (a b : cval) : bool :=
  match a, b with
  | COpaque _, COpaque _ => true
  | CZeros n, CZeros m => n =? m
  | CZeros n, CBytes b | CBytes b, CZeros n => (N.of_nat (length b) =? n) && forallb (fun x => x =? 0) b
  | _, _ => cval_eqb a b
  end.

Definition run_case (c : ctor_case) : result (bytes * cval * cval) :=
  match snd (run_ctor (ext_of (cc_ext c)) (cc_op c) (cc_ctor c) init_cdb G0 (cc_pos c) (cc_kw c)) with
  | Raise e => Raise e
  | Ok cm => match cdb cm with
             | Some b => Ok (b, dataout cm, datain cm)
             | None => Raise (OtherExn "no cdb")
             end
  end.

Definition triple_eqb (a b : bytes * cval * cval) : bool :=
  let '(b1, o1, i1) := a in let '(b2, o2, i2) := b in
  bytes_eqb b1 b2 && cval_eqb' o1 o2 && cval_eqb' i1 i2.

Definition check_dec (c : ctor_case) : bool :=
  match cc_dec c with
  | None => true
  | Some (d, re) =>
      match run_ctor (ext_of (cc_ext c)) (cc_op c) (cc_ctor c) init_cdb G0 (cc_pos c) (cc_kw c) with
      | (G', Ok cm) =>
          match cdb cm with
          | Some b => result_eqb (list_eqb kv_eqb) (unmarshall_cdb (cc_ctor c) b) (Ok d)
                      && result_eqb bytes_eqb (marshall_cdb init_cdb (cc_ctor c) d) re
          | None => false
          end
      | _ => false
      end
  end.

Definition check_ctor_case (c : ctor_case) : bool :=
  result_eqb triple_eqb (run_case c) (cc_exp c) && check_dec c.
