(* Model/SenseStep.v — the steps SCSICheckCondition._describe_ascq goes through, in program order (REGENERATED into Gen/Misc.v). *)
From Coq Require Import String.

Inductive ascq_step :=
| AInTable                      (* if self._ascq() in sense_ascq_dict: return sense_ascq_dict[self._ascq()] *)
| AVendorAsc (text : string)    (* if self.asc in vendor_specific_sense_asc: return text *)
| AVendorAscq (text : string)   (* if self.ascq in vendor_specific_sense_ascq: return text *)
| AGetDefault (dflt : string)   (* return sense_ascq_dict.get(self._ascq(), dflt) *)
| AStrict                       (* return sense_ascq_dict[self._ascq()] *)
| AText (text : string)         (* return text *)
| AUnknownStep.
