(* Model/Ctor.v — constructor IR and its semantics.

   Every `__init__` of a SCSICommand subclass is REGENERATED from the source as a value of
   type [ctor] (Gen/Ctors.v).  This file is the hand-written semantics of that IR: what Python
   does for the statement shapes the translator recognises, including what
   SCSICommand.__init__ does to the class-level state (scsi_command.py:38-39) and that
   build_cdb -> marshall_cdb reads it back (:228-229).  Tied to the code by the constructor
   correspondence (tools/corr/ctors.py).  No proofs in this file. *)
From Coq Require Import String.
From PS Require Import Base.Bytes Base.Result Model.Converter Model.Command.
Open Scope string_scope.
Open Scope N_scope.

(* CZeros n stands for bytearray(n) (n zero bytes) without materialising the list *)
Inductive cval := CInt (n : N) | CBytes (b : bytes) | CNone | COpaque (tag : string) | CZeros (n : N).

Inductive iexpr :=
| EVar (x : string)
| EConst (n : N)
| ENone
| EBytes0                              (* bytearray(0) *)
| EOpValue                             (* self.opcode.value *)
| ESA (name : string)                  (* [self.]opcode.serviceaction.NAME *)
| EMul (a b : iexpr)
| EAdd (a b : iexpr)
| ELen (e : iexpr)
| EIf (c : cond) (a b : iexpr)         (* a if c else b *)
| ECall (fn : string) (args : list string)   (* helper call; all arguments are plain names *)
| EUnknown (src : string)
with cond :=
| CEq (a b : iexpr)
| CTruthy (e : iexpr)
| CNot (c : cond)
| CAnd (a b : cond)
| COr (a b : cond)
| CIsNone (e : iexpr)
| CUnknown (src : string).

Inductive sstmt :=
| SRaise (e : exn)
| SAssign (x : string) (e : iexpr)
| SAssignC (x : string) (c : cond)     (* boolean temporary of an if-chain:  x = 1 if c else 0 *)
| SInit (out_len in_len : iexpr)       (* SCSICommand.__init__(self, opcode, out_len, in_len) *)
| SSetOut (e : iexpr)                  (* self.dataout = e *)
| SSetIn (e : iexpr)                   (* self.datain = e *)
| SSetAttr (a : string) (e : iexpr)    (* self._private = e *)
| SBuild (npos : nat) (kvs : list (string * iexpr))   (* self.cdb = self.build_cdb(<npos positional>, k=e, ...) *)
| SUnknown (src : string).

(* a statement guarded by the boolean temporaries of the enclosing if/elif/else branches *)
Definition gstmt := (list (string * bool) * sstmt)%type.

Record ctor := mkCtor {
  c_name : string;
  c_bits_name : string;                       (* which table `self._cdb_bits` resolves to *)
  c_bits : layout;
  c_params : list (string * option cval);     (* after self and opcode; default values *)
  c_kwargs : bool;                            (* has **kwargs *)
  c_body : list gstmt }.

Record opcode := mkOp { op_value : N; op_sa : list (string * N) }.

(* the class-level state SCSICommand._cdb_bits / len(SCSICommand._cdb) that the library used to keep: no statement
   reads or writes it any more (Proofs/CtorSound.v: exec_G); it is still threaded so that this is a theorem *)
Record gstate := mkG { g_bits : layout; g_len : nat }.
Definition G0 : gstate := mkG [] 0.

Record cmd := mkCmd {
  cdb : option bytes;
  dataout : cval;
  datain : cval;
  attrs : list (string * cval) }.
Definition cmd0 : cmd := mkCmd None CNone CNone [].

Definition env := list (string * cval).

Definition truthy (v : cval) : bool :=
  match v with
  | CInt n => negb (n =? 0)
  | CBytes b => match b with [] => false | _ => true end
  | CNone => false
  | COpaque _ => true
  | CZeros n => negb (n =? 0)
  end.

Definition cval_eqb (a b : cval) : bool :=
  match a, b with
  | CInt x, CInt y => x =? y
  | CNone, CNone => true
  | CBytes x, CBytes y => (fix eqb (a b : bytes) := match a, b with
                            | [], [] => true | x :: a', y :: b' => (x =? y) && eqb a' b' | _, _ => false end) x y
  | _, _ => false
  end.

Section Eval.
  (* helper functions that are modelled elsewhere (marshallers) or supplied per case by the harness *)
  Variable ext : string -> list cval -> result cval.
  Variable op : opcode.

  Definition get (ρ : env) (x : string) : result cval :=
    match lookup x ρ with Some v => Ok v | None => Raise (OtherExn "NameError") end.

  (* arguments of helper calls: names that are not constructor variables (opcode, kwargs) are opaque *)
  Fixpoint get_all (ρ : env) (xs : list string) : list cval :=
    match xs with
    | [] => []
    | x :: xs' => (match lookup x ρ with Some v => v | None => COpaque x end) :: get_all ρ xs'
    end.

  Fixpoint eval (ρ : env) (e : iexpr) : result cval :=
    match e with
    | EVar x => get ρ x
    | EConst n => Ok (CInt n)
    | ENone => Ok CNone
    | EBytes0 => Ok (CBytes [])
    | EOpValue => Ok (CInt (op_value op))
    | ESA name => match lookup name (op_sa op) with
                  | Some v => Ok (CInt v)
                  | None => Raise AttributeError
                  end
    | EMul a b => match eval ρ a with
                  | Raise e => Raise e
                  | Ok va => match eval ρ b with
                             | Raise e => Raise e
                             | Ok vb => match va, vb with
                                        | CInt x, CInt y => Ok (CInt (x * y))
                                        | _, _ => Raise TypeError
                                        end
                             end
                  end
    | EAdd a b => match eval ρ a with
                  | Raise e => Raise e
                  | Ok va => match eval ρ b with
                             | Raise e => Raise e
                             | Ok vb => match va, vb with
                                        | CInt x, CInt y => Ok (CInt (x + y))
                                        | _, _ => Raise TypeError
                                        end
                             end
                  end
    | ELen a => match eval ρ a with
                | Raise e => Raise e
                | Ok (CBytes b) => Ok (CInt (N.of_nat (length b)))
                | Ok (CZeros n) => Ok (CInt n)
                | Ok _ => Raise TypeError
                end
    | EIf c a b => match evalc ρ c with
                   | Raise e => Raise e
                   | Ok true => eval ρ a
                   | Ok false => eval ρ b
                   end
    | ECall fn args => ext fn (get_all ρ args)
    | EUnknown _ => Raise (OtherExn "Unknown")
    end
  with evalc (ρ : env) (c : cond) : result bool :=
    match c with
    | CEq a b => match eval ρ a with
                 | Raise e => Raise e
                 | Ok va => match eval ρ b with Raise e => Raise e | Ok vb => Ok (cval_eqb va vb) end
                 end
    | CTruthy e => match eval ρ e with Raise e' => Raise e' | Ok v => Ok (truthy v) end
    | CNot c' => match evalc ρ c' with Raise e => Raise e | Ok b => Ok (negb b) end
    | CAnd a b => match evalc ρ a with
                  | Raise e => Raise e
                  | Ok false => Ok false
                  | Ok true => evalc ρ b
                  end
    | COr a b => match evalc ρ a with
                 | Raise e => Raise e
                 | Ok true => Ok true
                 | Ok false => evalc ρ b
                 end
    | CIsNone e => match eval ρ e with
                   | Raise e' => Raise e'
                   | Ok CNone => Ok true
                   | Ok _ => Ok false
                   end
    | CUnknown _ => Raise (OtherExn "Unknown")
    end.

  Fixpoint eval_kvs (ρ : env) (kvs : list (string * iexpr)) : result (list (string * cval)) :=
    match kvs with
    | [] => Ok []
    | (k, e) :: kvs' => match eval ρ e with
                        | Raise x => Raise x
                        | Ok v => match eval_kvs ρ kvs' with
                                  | Raise x => Raise x
                                  | Ok vs => Ok ((k, v) :: vs)
                                  end
                        end
    end.

  (* marshall_cdb: encode_dict over python values; only ints (masks) / bytes (blobs) are encodable *)
  Fixpoint encode_cdict (d : list (string * cval)) (L : layout) (r : bytes) : result bytes :=
    match d with
    | [] => Ok r
    | (k, v) :: d' =>
        match lookup k L with
        | None => encode_cdict d' L r
        | Some f =>
            match v with
            | CInt n => match encode1 r f (VI n) with Ok r' => encode_cdict d' L r' | Raise e => Raise e end
            | CBytes b => match encode1 r f (VB b) with Ok r' => encode_cdict d' L r' | Raise e => Raise e end
            | CZeros n => match encode1 r f (VB (zeros (N.to_nat n))) with Ok r' => encode_cdict d' L r' | Raise e => Raise e end
            | _ => Raise TypeError
            end
        end
    end.

  Definition guard_holds (ρ : env) (g : list (string * bool)) : bool :=
    forallb (fun tb => match lookup (fst tb) ρ with
                       | Some (CInt n) => Bool.eqb (negb (n =? 0)) (snd tb)
                       | _ => false
                       end) g.

  Definition state := (env * cmd)%type.

  Variable K : ctor.
  Variable init_len : N -> result nat.     (* SCSICommand.init_cdb: instantiated with Proofs.Opcodes.init_cdb *)

  (* one statement; the class-level state is threaded separately so that it survives an exception *)
  Definition exec (G : gstate) (st : state) (s : sstmt) : gstate * result state :=
    let '(ρ, c) := st in
    match s with
    | SRaise e => (G, Raise e)
    | SAssign x e => match eval ρ e with
                     | Raise x' => (G, Raise x')
                     | Ok v => (G, Ok (dict_set ρ x v, c))
                     end
    | SAssignC x cnd => match evalc ρ cnd with
                        | Raise x' => (G, Raise x')
                        | Ok b => (G, Ok (dict_set ρ x (CInt (if b then 1 else 0)), c))
                        end
    | SInit eo ei =>
        match eval ρ eo with
        | Raise x => (G, Raise x)
        | Ok vo =>
            match eval ρ ei with
            | Raise x => (G, Raise x)
            | Ok vi =>
                (* SCSICommand.init_cdb(opcode) only validates the opcode (OpcodeException); nothing is stored on the class *)
                match init_len (op_value op) with
                | Raise x => (G, Raise x)
                | Ok n =>
                    match vo, vi with
                    | CInt no, CInt ni =>
                        (G, Ok (ρ, mkCmd (cdb c) (CZeros no) (CZeros ni) (attrs c)))
                    | _, _ => (G, Raise TypeError)
                    end
                end
            end
        end
    | SSetOut e => match eval ρ e with
                   | Raise x => (G, Raise x)
                   | Ok v => (G, Ok (ρ, mkCmd (cdb c) v (datain c) (attrs c)))
                   end
    | SSetIn e => match eval ρ e with
                  | Raise x => (G, Raise x)
                  | Ok v => (G, Ok (ρ, mkCmd (cdb c) (dataout c) v (attrs c)))
                  end
    | SSetAttr a e => match eval ρ e with
                      | Raise x => (G, Raise x)
                      | Ok v => (G, Ok (ρ, mkCmd (cdb c) (dataout c) (datain c) (dict_set (attrs c) a v)))
                      end
    | SBuild npos kvs =>
        match eval_kvs ρ kvs with
        | Raise x => (G, Raise x)
        | Ok d =>
            match npos with
            | S _ => (G, Raise TypeError)          (* build_cdb() takes keyword arguments only *)
            | O =>
                (* cls.marshall_cdb(cdb): result = cls.init_cdb(cdb["opcode"]); encode_dict(cdb, cls._cdb_bits, result) *)
                match lookup "opcode" d with
                | None => (G, Raise KeyError)
                | Some (CInt v) =>
                    match init_len v with
                    | Raise x => (G, Raise x)
                    | Ok n => match encode_cdict d (c_bits K) (zeros n) with
                              | Raise x => (G, Raise x)
                              | Ok r => (G, Ok (ρ, mkCmd (Some r) (dataout c) (datain c) (attrs c)))
                              end
                    end
                | Some _ => (G, Raise TypeError)
                end
            end
        end
    | SUnknown _ => (G, Raise (OtherExn "Unknown"))
    end.

  Fixpoint run (G : gstate) (st : state) (body : list gstmt) : gstate * result state :=
    match body with
    | [] => (G, Ok st)
    | (g, s) :: rest =>
        if guard_holds (fst st) g
        then match exec G st s with
             | (G', Ok st') => run G' st' rest
             | (G', Raise e) => (G', Raise e)
             end
        else run G st rest
    end.

  (* python argument binding: positional arguments by position, keywords by name, then defaults *)
  Fixpoint bind_pos (params : list (string * option cval)) (pos : list cval) : result (env * list (string * option cval)) :=
    match pos, params with
    | [], _ => Ok ([], params)
    | _ :: _, [] => Raise TypeError
    | v :: pos', (x, _) :: params' =>
        match bind_pos params' pos' with
        | Raise e => Raise e
        | Ok (ρ, rest) => Ok ((x, v) :: ρ, rest)
        end
    end.

  Fixpoint bind_rest (rest : list (string * option cval)) (kw : list (string * cval)) : result env :=
    match rest with
    | [] => Ok []
    | (x, d) :: rest' =>
        match bind_rest rest' kw with
        | Raise e => Raise e
        | Ok ρ => match lookup x kw, d with
                  | Some v, _ => Ok ((x, v) :: ρ)
                  | None, Some v => Ok ((x, v) :: ρ)
                  | None, None => Raise TypeError
                  end
        end
    end.

  Definition bind_args (pos : list cval) (kw : list (string * cval)) : result env :=
    match bind_pos (c_params K) pos with
    | Raise e => Raise e
    | Ok (ρ1, rest) =>
        (* a keyword naming an already-bound positional parameter, or an unknown keyword without **kwargs *)
        if existsb (fun kv => match lookup (fst kv) ρ1 with Some _ => true | None => false end) kw then Raise TypeError
        else if negb (c_kwargs K) && existsb (fun kv => match lookup (fst kv) rest with Some _ => false | None => true end) kw
        then Raise TypeError
        else match bind_rest rest kw with
             | Raise e => Raise e
             | Ok ρ2 => Ok (ρ1 ++ ρ2)%list
             end
    end.

  Definition run_ctor (G : gstate) (pos : list cval) (kw : list (string * cval)) : gstate * result cmd :=
    match bind_args pos kw with
    | Raise e => (G, Raise e)
    | Ok ρ => match run G (ρ, cmd0) (c_body K) with
              | (G', Ok (_, c)) => (G', Ok c)
              | (G', Raise e) => (G', Raise e)
              end
    end.
End Eval.

(* the classmethods K.marshall_cdb / K.unmarshall_cdb use the layout of their own class; the cdb length comes from the
   operation code in the dictionary *)
Definition unmarshall_cdb (K : ctor) (b : bytes) : result (list (string * value)) := decode_bits b (c_bits K).
Definition marshall_cdb (init_len : N -> result nat) (K : ctor) (d : list (string * value)) : result bytes :=
  match lookup "opcode" d with
  | None => Raise KeyError
  | Some (VI v) => match init_len v with Ok n => encode_dict d (c_bits K) (zeros n) | Raise e => Raise e end
  | Some (VB _) => Raise TypeError
  end.
