(* Model/Loops.v — loop skeletons of the decoders:  while len(v): ... ; v = v[stride:]
   (REGENERATED into Gen/Loops.v) and the abstract loop they stand for. *)
From Coq Require Import String.
From PS Require Import Base.Bytes Base.Result.

Inductive stride :=
| SConst (k : N)              (* v = v[k:] *)
| SAddConst (c : N)           (* v = v[e + c:]  with e read from the buffer (any non-negative value) *)
| SGuarded (x : string)       (* v = v[x:]  where the loop condition requires x to be non-zero *)
| SData (src : string)        (* v = v[x:]  with x read from the buffer and not guarded: may be 0 *)
| SNone                       (* the loop variable is not advanced on every path *)
| SUnknown.

(* how many bytes one iteration consumes, given the value e of the data-dependent part *)
Definition stride_value (s : stride) (e : N) : N :=
  match s with
  | SConst k => k
  | SAddConst c => e + c
  | SGuarded _ => N.max 1 e        (* the guard makes it at least 1 *)
  | SData _ => e
  | SNone | SUnknown => 0
  end.

Definition stride_ok (s : stride) : bool :=
  match s with
  | SConst k => 1 <=? k
  | SAddConst c => 1 <=? c
  | SGuarded _ => true
  | _ => false
  end.

(* the abstract loop:  while len(d): (d, acc) = body d acc   — with explicit fuel; None = fuel exhausted *)
Section Loop.
  Variable A : Type.
  Variable body : bytes -> A -> bytes * A.
  Fixpoint loop (fuel : nat) (d : bytes) (acc : A) : option (A * nat (* iterations *)) :=
    match d with
    | [] => Some (acc, 0%nat)
    | _ =>
        match fuel with
        | O => None
        | S f => let '(d', acc') := body d acc in
                 match loop f d' acc' with
                 | Some (r, n) => Some (r, S n)
                 | None => None
                 end
        end
    end.
End Loop.
