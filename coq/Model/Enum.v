(* Model/Enum.v — hand-written model of pyscsi/utils/enum.py (the Enum metaclass).
   An enumeration is the insertion-ordered attribute dictionary of its class object (what vars(cls)
   holds after type.__new__), i.e. the supplied names followed by the dunder attributes Python adds.
   The filter of the `keys` property is REGENERATED from the source (Gen/Misc.v: enum_keys_filter);
   this file gives its semantics and the operations.  Tied by tools/corr/enum.py.  No proofs here. *)
From Coq Require Import String.
From PS Require Import Base.Bytes Base.Result Model.Converter.
Open Scope string_scope.

(* values: ints, strings, and opaque objects (dicts, OpCode objects, functions, classes, bound methods)
   identified by a tag; python == on them is tag equality (identity / structural equality of the tag) *)
(* plain object (dict, OpCode, ...), callable (function, class), bound method (callable, type name "method") *)
Inductive okind := Plain | Callable | Method.

Inductive evalue :=
| EVInt (n : N)
| EVStr (s : string)
| EVObj (tag : string) (kind : okind).

Definition evalue_eqb (a b : evalue) : bool :=
  match a, b with
  | EVInt x, EVInt y => N.eqb x y
  | EVStr x, EVStr y => String.eqb x y
  | EVObj x _, EVObj y _ => String.eqb x y
  | _, _ => false
  end.

Definition is_callable (v : evalue) : bool := match v with EVObj _ Callable | EVObj _ Method => true | _ => false end.
Definition is_method (v : evalue) : bool := match v with EVObj _ Method => true | _ => false end.
Definition is_dunder (k : string) : bool := String.prefix "__" k.

(* the filter expression of the keys property *)
Inductive fexpr := FTrue | FCallable | FDunder | FIsMethod | FNot (a : fexpr) | FAnd (a b : fexpr) | FOr (a b : fexpr)
                 | FUnknown (src : string).

Fixpoint feval (f : fexpr) (callable dunder method : bool) : bool :=
  match f with
  | FTrue => true
  | FCallable => callable
  | FDunder => dunder
  | FIsMethod => method
  | FNot a => negb (feval a callable dunder method)
  | FAnd a b => feval a callable dunder method && feval b callable dunder method
  | FOr a b => feval a callable dunder method || feval b callable dunder method
  | FUnknown _ => false
  end.

Definition estate := list (string * evalue).

(* attributes type.__new__ adds to every class dictionary (all dunder, never listed) *)
Definition hidden_attrs : estate :=
  [("__module__", EVStr "m"); ("__dict__", EVObj "getset" Plain); ("__weakref__", EVObj "getset" Plain);
   ("__doc__", EVStr "")].

Section Ops.
  Variable filt : fexpr.

  Definition keep (kv : string * evalue) : bool :=
    feval filt (is_callable (snd kv)) (is_dunder (fst kv)) (is_method (snd kv)).

  Definition e_new (m : estate) : estate := (m ++ hidden_attrs)%list.
  Definition e_keys (st : estate) : list string := map fst (filter keep st).
  Definition e_getattr (st : estate) (k : string) : result evalue :=
    match lookup k st with Some v => Ok v | None => Raise AttributeError end.
  (* __getitem__: first listed name whose value equals v, "" if none *)
  Definition e_getitem (st : estate) (v : evalue) : string :=
    match find (fun k => match lookup k st with Some w => evalue_eqb w v | None => false end) (e_keys st) with
    | Some k => k
    | None => ""
    end.
  Fixpoint mem (k : string) (l : list string) : bool :=
    match l with [] => false | x :: l' => String.eqb k x || mem k l' end.
  Definition e_add (st : estate) (k : string) (v : evalue) : result estate :=
    if mem k (e_keys st) then Raise KeyError else Ok (dict_set st k v).
  Fixpoint dict_del {A} (d : list (string * A)) (k : string) : list (string * A) :=
    match d with
    | [] => []
    | (k', v) :: d' => if String.eqb k k' then d' else (k', v) :: dict_del d' k
    end.
  Definition e_remove (st : estate) (k : string) : result estate :=
    match lookup k st with Some _ => Ok (dict_del st k) | None => Raise KeyError end.
End Ops.

(* operations of the correspondence / refinement *)
Inductive eop :=
| OAdd (k : string) (v : evalue)
| ORemove (k : string)
| OGet (k : string)
| OReverse (v : evalue)
| OKeys.

Inductive eout :=
| RUnit | RExn (e : exn) | RVal (v : evalue) | RName (k : string) | RKeys (ks : list string).

Definition e_step (filt : fexpr) (st : estate) (o : eop) : estate * eout :=
  match o with
  | OAdd k v => match e_add filt st k v with Ok st' => (st', RUnit) | Raise e => (st, RExn e) end
  | ORemove k => match e_remove st k with Ok st' => (st', RUnit) | Raise e => (st, RExn e) end
  | OGet k => match e_getattr st k with Ok v => (st, RVal v) | Raise e => (st, RExn e) end
  | OReverse v => (st, RName (e_getitem filt st v))
  | OKeys => (st, RKeys (e_keys filt st))
  end.

Fixpoint e_run (filt : fexpr) (st : estate) (ops : list eop) : estate * list eout :=
  match ops with
  | [] => (st, [])
  | o :: ops' => let '(st1, r) := e_step filt st o in
                 let '(st2, rs) := e_run filt st1 ops' in (st2, r :: rs)
  end.

(* ---- the specification: an ordinary insertion-ordered dictionary ---- *)
Definition d_step (d : estate) (o : eop) : estate * eout :=
  match o with
  | OAdd k v => match lookup k d with Some _ => (d, RExn KeyError) | None => ((d ++ [(k, v)])%list, RUnit) end
  | ORemove k => match lookup k d with Some _ => (dict_del d k, RUnit) | None => (d, RExn KeyError) end
  | OGet k => match lookup k d with Some v => (d, RVal v) | None => (d, RExn AttributeError) end
  | OReverse v => (d, RName (match find (fun kv => evalue_eqb (snd kv) v) d with Some kv => fst kv | None => "" end))
  | OKeys => (d, RKeys (map fst d))
  end.

Fixpoint d_run (d : estate) (ops : list eop) : estate * list eout :=
  match ops with
  | [] => (d, [])
  | o :: ops' => let '(d1, r) := d_step d o in
                 let '(d2, rs) := d_run d1 ops' in (d2, r :: rs)
  end.
