(* Proofs/PyRoundTrip.v — both directions of a structure with a descriptor list, over the REGENERATED bodies (Gen/PyFuncs.v) under
   Model/Py.v: GET LBA STATUS.  The builder returns header + one 16-byte descriptor per dictionary with PARAMETER DATA LENGTH set to
   what follows; decoding what was built returns the dictionaries; for any number of descriptors. *)
From Coq Require Import String ZArith List Bool Lia.
From PS Require Import Base.Bytes Base.Result Model.Converter Model.Py Proofs.FacadeState Proofs.PyLemmas Proofs.PyParsers Gen.Tables Gen.PyFuncs.
Import ListNotations.
Set Default Timeout 120.
Open Scope string_scope.
Open Scope nat_scope.

Local Arguments py_slice : simpl never.
Local Arguments run : simpl never.
Local Arguments call_with : simpl never.
Local Arguments encode_pv : simpl never.
Local Arguments decode_bits : simpl never.
Local Arguments Z.add : simpl never.
Local Arguments Z.sub : simpl never.
Local Arguments Z.of_nat : simpl never.
Local Arguments Z.eqb : simpl never.
Local Arguments length : simpl never.
Local Arguments app : simpl never.
Local Arguments concat : simpl never.
Local Arguments zeros : simpl never.
Local Arguments int_to_ba_z : simpl never.
Local Arguments int_to_ba : simpl never.
Local Arguments store_slice : simpl never.

Ltac lk := repeat (rewrite lookup_set_same || rewrite lookup_set_other by (let H := fresh in intro H; discriminate H)).
Ltac step := rewrite exec_block_cons; cbn [exec exec_simple eval eval_list eval_opt]; lk.

Definition GLSM := "scsi_cdb_getlbastatus.GetLBAStatus.marshall_datain".
Notation PF_glsm := PF_scsi_cdb_getlbastatus_GetLBAStatus_marshall_datain.

Lemma glsm_lookup : lookup GLSM py_program = Some PF_glsm.
Proof. vm_compute. reflexivity. Qed.

(* encode_dict over a dictionary of model values, seen as Python values *)
Lemma encode_pv_of_decoded (dv : list (string * value)) L : forall r, encode_pv (dict_of_decoded dv) L r = encode_dict dv L r.
Proof.
  induction dv as [|[k v] dv IH]; intros r; [reflexivity|].
  unfold dict_of_decoded in *. cbn [map fst snd]. unfold encode_pv. fold encode_pv. cbn [encode_dict].
  destruct (lookup k L) as [f|]; [|apply IH].
  destruct f as [m o|u o len]; destruct v as [x|b]; cbn [pv_of_value as_int].
  - destruct (Z.ltb_spec (Z.of_N x) 0); [lia|]. rewrite N2Z.id. destruct (encode1 r (Mask m o) (VI x)); [apply IH|reflexivity].
  - cbn [encode1]. reflexivity.
  - cbn [encode1]. reflexivity.
  - destruct (encode1 r (Blob u o len) (VB b)); [apply IH|reflexivity].
Qed.

Definition gls_dict (dv : list (string * value)) : pv := PDict (dict_of_decoded dv).

Definition glsm_inv (all : list (list (string * value) * bytes)) (items : list pv) (ρ : env) : Prop :=
  exists done rest, all = (done ++ rest)%list /\ items = map (fun p => gls_dict (fst p)) rest /\
    lookup "result" ρ = Some (PBytes (zeros 8 ++ concat (map snd done))%list).

(* the builder: 8-byte header whose first four bytes count what follows them, then one descriptor per dictionary, in order *)
Theorem getlbastatus_build_exact : forall (all : list (list (string * value) * bytes)) f,
  Forall (fun p => encode_dict (fst p) T_gls (zeros 16) = Ok (snd p) /\ length (snd p) = 16) all -> 1 <= f ->
  call_fun all_tables py_program f GLSM [PDict [("lbas", PList (map (fun p => gls_dict (fst p)) all))]]
  = Ok (PBytes (int_to_ba (N.of_nat (4 + 16 * length all)) 4 ++ zeros 4 ++ concat (map snd all))%list).
Proof.
  intros all f Hall Hf. destruct f as [|f]; [lia|].
  unfold call_fun, call_with. rewrite glsm_lookup. cbn [fn_params bind_params PF_glsm].
  rewrite run_S, exec_if. cbn [eval truthy]. cbn [fn_body PF_glsm].
  step. cbn [bytearray_eval as_int]. change (Z.ltb 8 0) with false. change (Z.ltb 1048576 8) with false. cbn iota. change (Z.to_nat 8) with 8.
  rewrite exec_block_cons, exec_if. cbn [eval]. lk. cbn [lookup String.eqb Ascii.eqb Bool.eqb in_eval negb truthy]. rewrite exec_block_nil.
  rewrite exec_block_cons, exec_for. cbn [eval]. lk. cbn [lookup String.eqb Ascii.eqb Bool.eqb index_eval iter_items].
  match goal with |- context [for_iter _ ?c ?a "l" ?body _ ?r0] =>
    destruct (for_consumes all_tables c a "l" body (glsm_inv all)) with (ds := map (fun p => gls_dict (fst p)) all) (ρ := r0) as (ρ' & Hrun & Hinv) end.
  - intros d ds ρ (done & rest & Hsplit & Hds & Hres). destruct rest as [|[dv b] rest]; [discriminate|]. cbn [map fst] in Hds. injection Hds as -> ->.
    assert (Hin : In (dv, b) all) by (rewrite Hsplit; apply in_or_app; right; now left).
    rewrite Forall_forall in Hall. destruct (Hall _ Hin) as [Henc Hlen]. cbn [fst snd] in Henc, Hlen.
    step. cbn [bytearray_eval as_int]. change (Z.ltb 16 0) with false. change (Z.ltb 1048576 16) with false. cbn iota. change (Z.to_nat 16) with 16.
    step. unfold gls_dict at 1. rewrite gls_table. unfold with_var. lk. rewrite encode_pv_of_decoded, Henc.
    step. rewrite Hres. cbn [bin_eval as_int]. rewrite exec_block_nil.
    eexists. split; [reflexivity|]. exists (done ++ [(dv, b)])%list, rest. split; [now rewrite <- app_assoc|]. split; [reflexivity|].
    lk. rewrite map_app, concat_app. change (concat (map snd [(dv, b)])) with (b ++ [])%list. rewrite app_nil_r, <- app_assoc. reflexivity.
  - exists [], all. repeat split.
  - rewrite Hrun. destruct Hinv as (done & rest & Hsplit & Hds & Hres). symmetry in Hds. apply map_eq_nil in Hds. subst rest. rewrite app_nil_r in Hsplit. subst done.
    step. rewrite Hres. cbn [len_eval bin_eval as_int]. unfold with_var. rewrite Hres.
    assert (Hl : length (zeros 8 ++ concat (map snd all))%list = 8 + 16 * length all).
    { rewrite app_length, zeros_length. f_equal. clear -Hall. induction Hall as [|p l [_ Hp] _ IH]; [reflexivity|].
      change (concat (map snd (p :: l))) with (snd p ++ concat (map snd l))%list. rewrite app_length, Hp, IH. change (length (p :: l)) with (S (length l)). lia. }
    rewrite Hl.
    assert (Hi : int_to_ba_z (Z.of_nat (8 + 16 * length all) - 4) 4 = int_to_ba (N.of_nat (4 + 16 * length all)) 4).
    { unfold int_to_ba_z. destruct (Z.leb_spec 0 (Z.of_nat (8 + 16 * length all) - 4)); [|lia].
      change (Z.to_nat (Z.min (Z.max 4 0) 4096)) with 4. f_equal. lia. }
    rewrite Hi.
    assert (Hs : forall x : bytes, length x = 4 -> store_slice (PBytes (zeros 8 ++ concat (map snd all))%list) None (Some (PInt 4)) (PBytes x)
                 = Ok (PBytes (x ++ zeros 4 ++ concat (map snd all))%list)).
    { intros x Hx. unfold store_slice. cbn [opt_int as_int]. unfold clip. rewrite Hl. change (Z.ltb 4 0) with false. cbn iota.
      replace (Z.to_nat (Z.min 4 (Z.of_nat (8 + 16 * length all)))) with 4 by lia. change (Nat.max 0 4) with 4. cbn [firstn].
      change (zeros 8) with (zeros 4 ++ zeros 4)%list. rewrite <- app_assoc.
      rewrite skipn_app, skipn_all2 by (rewrite zeros_length; lia). rewrite zeros_length, Nat.sub_diag. reflexivity. }
    rewrite Hs by apply int_to_ba_length.
    step. lk. reflexivity.
Qed.

(* ------------------------------------------------------------------ dict -> bytes -> dict *)
From PS Require Import Proofs.Codec Proofs.Layout.

(* decoding what a complete, valid dictionary (keys in table order) was encoded into returns that dictionary *)
Lemma decode_bits_of_encoded n L dv b :
  wf_layout n L = true -> valid_dict n L dv = true -> map fst dv = map fst L ->
  encode_dict dv L (zeros n) = Ok b -> decode_bits b L = Ok dv.
Proof.
  intros Hwf Hvd Hk Henc.
  assert (Hfield : forall k f v, In (k, f) L -> In (k, v) dv -> decode1 b f = Ok v).
  { intros k f v Hin Hv.
    destruct (decode_encode_field n L dv (zeros n) k f Hwf Hvd (zeros_length n) (bytes_ok_zeros n) Hin) as (r2 & E2 & _ & _ & Hdec & _).
    rewrite Henc in E2. injection E2 as <-. apply Hdec; [exact Hv|apply ba_to_int_zeros]. }
  clear Henc Hvd Hwf. revert dv Hk Hfield. induction L as [|[k f] L IH]; intros dv Hk Hf.
  - destruct dv; [reflexivity|discriminate].
  - destruct dv as [|[k' v] dv]; [discriminate|]. cbn [map fst] in Hk. injection Hk as -> Hk.
    unfold decode_bits. fold decode_bits. rewrite (Hf k f v (or_introl eq_refl) (or_introl eq_refl)).
    rewrite (IH dv Hk); [reflexivity|]. intros k0 f0 v0 H1 H2. apply (Hf k0 f0 v0); now right.
Qed.

Lemma concat_len_const (ds : list bytes) (E : nat) : Forall (fun d => length d = E) ds -> length (concat ds) = E * length ds.
Proof.
  intros H. induction H as [|d ds Hd _ IH]; [now rewrite Nat.mul_0_r|].
  change (concat (d :: ds)) with (d ++ concat ds)%list. rewrite app_length, Hd, IH. change (length (d :: ds)) with (S (length ds)). rewrite Nat.mul_succ_r. apply Nat.add_comm.
Qed.

Lemma gls_wf16 : wf_layout 16 T_gls = true.
Proof. vm_compute. reflexivity. Qed.

(* build, then parse: every list of complete valid descriptor dictionaries comes back, whole and in order — any number of them *)
Theorem getlbastatus_parse_inverts_build : forall (dvs : list (list (string * value))) f,
  Forall (fun dv => valid_dict 16 T_gls dv = true /\ map fst dv = map fst T_gls) dvs ->
  (Z.of_nat (length dvs) <= 100000000)%Z -> length dvs + 2 <= f ->
  exists built, call_fun all_tables py_program f GLSM [PDict [("lbas", PList (map gls_dict dvs))]] = Ok (PBytes built) /\
    call_fun all_tables py_program f GLS [PBytes built] = Ok (PDict [("lbas", PList (map gls_dict dvs))]).
Proof.
  intros dvs f Hall Hsmall Hf.
  (* what each dictionary is encoded into *)
  assert (Henc : exists bs, length bs = length dvs /\
            Forall (fun p => encode_dict (fst p) T_gls (zeros 16) = Ok (snd p) /\ length (snd p) = 16) (combine dvs bs)).
  { clear Hsmall Hf. induction Hall as [|dv dvs [Hv _] _ (bs & Hl & Hb)]; [exists []; split; [reflexivity|constructor]|].
    destruct (valid_dict_parts _ _ _ Hv) as (_ & Hvals).
    destruct (encode_dict_bits 16 T_gls dv (zeros 16) (zeros_length 16) (bytes_ok_zeros 16) Hvals) as (r & E & Lr & _).
    exists (r :: bs). split; [change (length (r :: bs)) with (S (length bs)); change (length (dv :: dvs)) with (S (length dvs)); now rewrite Hl|].
    cbn [combine]. constructor; [split; assumption|exact Hb]. }
  destruct Henc as (bs & Hlen & Hb).
  set (all := combine dvs bs).
  assert (Hfst : map fst all = dvs) by (unfold all; clear -Hlen; revert bs Hlen; induction dvs as [|d dvs IH]; intros [|b bs] H; try discriminate; [reflexivity|];
                                        cbn [combine map fst]; f_equal; apply IH; change (length (b :: bs)) with (S (length bs)) in H; change (length (d :: dvs)) with (S (length dvs)) in H; lia).
  assert (Hla : length all = length dvs) by (clearbody all; subst dvs; symmetry; apply map_length).
  pose proof (getlbastatus_build_exact all f Hb ltac:(lia)) as Hbuild.
  rewrite <- (map_map fst gls_dict), Hfst in Hbuild.
  eexists. split; [exact Hbuild|].
  set (hdr := (int_to_ba (N.of_nat (4 + 16 * length all)) 4 ++ zeros 4)%list).
  assert (H16 : Forall (fun d => length d = 16) (map snd all)).
  { apply Forall_map. eapply Forall_impl; [|exact Hb]. intros p [_ H]. exact H. }
  assert (Hcl : length (concat (map snd all)) = 16 * length all) by (rewrite (concat_len_const _ 16 H16), map_length; reflexivity).
  pose proof (getlbastatus_exact hdr (map snd all) [] f) as Hex.
  rewrite app_nil_r in Hex. unfold hdr in Hex. rewrite <- app_assoc in Hex. rewrite Hex.
  - f_equal. f_equal. f_equal. f_equal. replace (map gls_dict dvs) with (map gls_dict (map fst all)) by (now rewrite Hfst). rewrite !map_map. f_equal. apply map_ext_in. intros [dv b] Hin. cbn [fst snd].
    unfold gls_desc, gls_dict. f_equal. f_equal.
    rewrite Forall_forall in Hb. destruct (Hb _ Hin) as [He _]. cbn [fst snd] in He.
    assert (Hdv : In dv dvs) by (rewrite <- Hfst; apply (in_map fst _ _ Hin)).
    rewrite Forall_forall in Hall. destruct (Hall _ Hdv) as [Hv Hk].
    unfold decode_total. now rewrite (decode_bits_of_encoded 16 T_gls dv b gls_wf16 Hv Hk He).
  - rewrite app_length, int_to_ba_length, zeros_length. reflexivity.
  - exact H16.
  - rewrite firstn_app, int_to_ba_length, Nat.sub_diag, firstn_O, app_nil_r. rewrite firstn_all2 by (rewrite int_to_ba_length; lia).
    rewrite ba_to_int_to_ba. rewrite N.mod_small by (change (256 ^ N.of_nat 4)%N with 4294967296%N; lia). rewrite Hcl. lia.
  - rewrite map_length. lia.
Qed.

(* ------------------------------------------------------------------ REPORT LUNS: the builder *)
Definition RLM := "scsi_cdb_report_luns.ReportLuns.marshall_datain".
Notation PF_rlm := PF_scsi_cdb_report_luns_ReportLuns_marshall_datain.
Definition T_luns := T_scsi_cdb_report_luns__ReportLuns___datain_bits.

Lemma rlm_lookup : lookup RLM py_program = Some PF_rlm.
Proof. vm_compute. reflexivity. Qed.
Lemma luns_table : lookup "scsi_cdb_report_luns.ReportLuns._datain_bits" all_tables = Some T_luns.
Proof. vm_compute. reflexivity. Qed.

Lemma lxor_0_l_list (b : bytes) : xor_list (repeat 0%N (length b)) b = b.
Proof. induction b as [|x b IH]; [reflexivity|]. change (length (x :: b)) with (S (length b)). cbn [repeat xor_list]. now rewrite IH, N.lxor_0_l. Qed.

Lemma luns_encode (v : N) : encode_pv [("lun", PInt (Z.of_N v))] T_luns (zeros 8) = Ok (int_to_ba v 8).
Proof.
  unfold encode_pv, T_luns, T_scsi_cdb_report_luns__ReportLuns___datain_bits. cbn [lookup String.eqb Ascii.eqb Bool.eqb as_int].
  destruct (Z.ltb_spec (Z.of_N v) 0); [lia|]. rewrite N2Z.id. unfold encode1. cbn [ctz pos_ctz]. change (nbytes 18446744073709551615) with 8.
  rewrite zeros_length. cbn [N.to_nat Nat.add Nat.leb]. rewrite N.shiftl_0_r. f_equal.
Qed.

Definition lun_entry (kv : string * N) : pv := PDict [(fst kv, PInt (Z.of_N (snd kv)))].

Definition rlm_inv (all : list (string * N)) (items : list pv) (ρ : env) : Prop :=
  exists done rest, all = (done ++ rest)%list /\ items = map lun_entry rest /\
    lookup "result" ρ = Some (PBytes (zeros 8 ++ concat (map (fun kv => int_to_ba (snd kv) 8) done))%list).

(* the builder: LUN LIST LENGTH (bytes 0..3) = 8 per entry, 4 reserved bytes, then the LUNs in the CALLER'S order (whatever the keys are
   called — lun0, lun1, ..., lun10: the order of the list decides, not the names) *)
Theorem reportluns_build_exact : forall (all : list (string * N)) f, 1 <= f ->
  call_fun all_tables py_program f RLM [PDict [("luns", PList (map lun_entry all))]]
  = Ok (PBytes (int_to_ba (N.of_nat (8 * length all)) 4 ++ zeros 4 ++ concat (map (fun kv => int_to_ba (snd kv) 8) all))%list).
Proof.
  intros all f Hf. destruct f as [|f]; [lia|].
  unfold call_fun, call_with. rewrite rlm_lookup. cbn [fn_params bind_params PF_rlm].
  rewrite run_S, exec_if. cbn [eval truthy]. cbn [fn_body PF_rlm].
  step. cbn [bytearray_eval as_int]. change (Z.ltb 8 0) with false. change (Z.ltb 1048576 8) with false. cbn iota. change (Z.to_nat 8) with 8.
  rewrite exec_block_cons, exec_if. cbn [eval]. lk. cbn [lookup String.eqb Ascii.eqb Bool.eqb in_eval negb truthy]. rewrite exec_block_nil.
  rewrite exec_block_cons, exec_for. cbn [eval]. lk. cbn [lookup String.eqb Ascii.eqb Bool.eqb index_eval iter_items].
  match goal with |- context [for_iter _ ?c ?a "l" ?body _ ?r0] =>
    destruct (for_consumes all_tables c a "l" body (rlm_inv all)) with (ds := map lun_entry all) (ρ := r0) as (ρ' & Hrun & Hinv) end.
  - intros d ds ρ (done & rest & Hsplit & Hds & Hres). destruct rest as [|[k v] rest]; [discriminate|]. cbn [map] in Hds. injection Hds as -> ->.
    step. cbn [bytearray_eval as_int]. change (Z.ltb 8 0) with false. change (Z.ltb 1048576 8) with false. cbn iota. change (Z.to_nat 8) with 8.
    step. unfold lun_entry at 1. cbn [fst snd map iter_items]. lk. cbn [lookup String.eqb Ascii.eqb Bool.eqb dict_set].
    rewrite luns_table. unfold with_var. lk. rewrite luns_encode.
    step. rewrite Hres. cbn [bin_eval as_int]. rewrite exec_block_nil.
    eexists. split; [reflexivity|]. exists (done ++ [(k, v)])%list, rest. split; [now rewrite <- app_assoc|]. split; [reflexivity|].
    lk. rewrite map_app, concat_app. change (concat (map (fun kv => int_to_ba (snd kv) 8) [(k, v)])) with (int_to_ba v 8 ++ [])%list.
    rewrite app_nil_r, <- app_assoc. reflexivity.
  - exists [], all. repeat split.
  - rewrite Hrun. destruct Hinv as (done & rest & Hsplit & Hds & Hres). symmetry in Hds. apply map_eq_nil in Hds. subst rest. rewrite app_nil_r in Hsplit. subst done.
    step. rewrite Hres. cbn [len_eval bin_eval as_int]. unfold with_var. rewrite Hres.
    assert (Hl : length (zeros 8 ++ concat (map (fun kv : string * N => int_to_ba (snd kv) 8) all))%list = 8 + 8 * length all).
    { rewrite app_length, zeros_length. f_equal. rewrite (concat_len_const _ 8); [now rewrite map_length|].
      apply Forall_map. apply Forall_forall. intros x _. apply int_to_ba_length. }
    rewrite Hl.
    assert (Hi : int_to_ba_z (Z.of_nat (8 + 8 * length all) - 8) 4 = int_to_ba (N.of_nat (8 * length all)) 4).
    { unfold int_to_ba_z. destruct (Z.leb_spec 0 (Z.of_nat (8 + 8 * length all) - 8)); [|lia].
      change (Z.to_nat (Z.min (Z.max 4 0) 4096)) with 4. f_equal. lia. }
    rewrite Hi.
    assert (Hs : forall x : bytes, length x = 4 -> store_slice (PBytes (zeros 8 ++ concat (map (fun kv : string * N => int_to_ba (snd kv) 8) all))%list) None (Some (PInt 4)) (PBytes x)
                 = Ok (PBytes (x ++ zeros 4 ++ concat (map (fun kv : string * N => int_to_ba (snd kv) 8) all))%list)).
    { intros x Hx. unfold store_slice. cbn [opt_int as_int]. unfold clip. rewrite Hl. change (Z.ltb 4 0) with false. cbn iota.
      replace (Z.to_nat (Z.min 4 (Z.of_nat (8 + 8 * length all)))) with 4 by lia. change (Nat.max 0 4) with 4. cbn [firstn].
      change (zeros 8) with (zeros 4 ++ zeros 4)%list. rewrite <- app_assoc.
      rewrite skipn_app, skipn_all2 by (rewrite zeros_length; lia). rewrite zeros_length, Nat.sub_diag. reflexivity. }
    rewrite Hs by apply int_to_ba_length.
    step. lk. reflexivity.
Qed.

(* ------------------------------------------------------------------ REPORT LUNS: build, then parse *)
From PS Require Import Proofs.PyTotal.

Fixpoint numbered (i : nat) (vs : list N) : list (string * N) :=
  match vs with [] => [] | v :: r => ("lun" ++ z_to_string (Z.of_nat i), v) :: numbered (S i) r end.

Lemma numbered_length i vs : length (numbered i vs) = length vs.
Proof. revert i. induction vs as [|v vs IH]; intros i; [reflexivity|]. cbn [numbered]. change (length (?a :: ?l)) with (S (length l)). now rewrite IH. Qed.

Lemma rl_value_of_encoded v : (v < 2 ^ 64)%N -> rl_value (int_to_ba v 8) = PInt (Z.of_N v).
Proof.
  intros Hv. unfold rl_value. change (nbytes 18446744073709551615) with 8. rewrite !N.shiftr_0_r.
  unfold slice. change (0 + 8 - 0) with 8. change (skipn 0 (int_to_ba v 8)) with (int_to_ba v 8).
  rewrite firstn_all2 by (rewrite int_to_ba_length; lia). rewrite ba_to_int_to_ba.
  change (256 ^ N.of_nat 8)%N with (2 ^ 64)%N. rewrite N.mod_small by exact Hv.
  change 18446744073709551615%N with (N.ones 64). rewrite N.land_ones. now rewrite N.mod_small.
Qed.

Lemma rl_entries_numbered i vs : Forall (fun v => (v < 2 ^ 64)%N) vs ->
  rl_entries i (map (fun kv => int_to_ba (snd kv) 8) (numbered i vs)) = map lun_entry (numbered i vs).
Proof.
  intros H. revert i. induction H as [|v vs Hv _ IH]; intros i; [reflexivity|].
  cbn [numbered map rl_entries snd]. rewrite IH. f_equal. unfold rl_entry, lun_entry. cbn [fst snd]. now rewrite rl_value_of_encoded.
Qed.

(* REPORT LUNS built from lun0 .. lun<n-1> (any number of them, values below 2^64) decodes to exactly those entries, in order *)
Theorem reportluns_parse_inverts_build : forall (vs : list N) f,
  Forall (fun v => (v < 2 ^ 64)%N) vs -> (Z.of_nat (length vs) <= 100000000)%Z -> 8 * length vs + 11 <= f ->
  exists built, call_fun all_tables py_program f RLM [PDict [("luns", PList (map lun_entry (numbered 0 vs)))]] = Ok (PBytes built) /\
    call_fun all_tables py_program f RL [PBytes built] = Ok (PDict [("luns", PList (map lun_entry (numbered 0 vs)))]).
Proof.
  intros vs f Hvs Hsmall Hf.
  set (all := numbered 0 vs). set (descs := map (fun kv : string * N => int_to_ba (snd kv) 8) all).
  assert (Hla : length all = length vs) by apply numbered_length.
  assert (H8 : Forall (fun d => length d = 8) descs) by (apply Forall_map, Forall_forall; intros x _; apply int_to_ba_length).
  assert (Hcl : length (concat descs) = 8 * length vs) by (rewrite (concat_len_const _ 8 H8); unfold descs; now rewrite map_length, Hla).
  eexists. split; [apply reportluns_build_exact; lia|]. fold descs.
  set (built := (int_to_ba (N.of_nat (8 * length all)) 4 ++ zeros 4 ++ concat descs)%list).
  assert (Hbl : length built = 8 + 8 * length vs).
  { unfold built. rewrite !app_length, int_to_ba_length, zeros_length, Hcl. lia. }
  rewrite (reportluns_total built f) by lia.
  assert (Hann : py_slice built (Some 8%Z) (Some (Z.of_N (ba_to_int (py_slice built None (Some 4%Z))) + 8)%Z) = concat descs).
  { assert (H4 : py_slice built None (Some 4%Z) = int_to_ba (N.of_nat (8 * length all)) 4).
    { unfold built. apply py_slice_prefix. now rewrite int_to_ba_length. }
    rewrite H4, ba_to_int_to_ba. rewrite N.mod_small by (change (256 ^ N.of_nat 4)%N with 4294967296%N; lia).
    unfold built. replace (int_to_ba (N.of_nat (8 * length all)) 4 ++ zeros 4 ++ concat descs)%list
      with ((int_to_ba (N.of_nat (8 * length all)) 4 ++ zeros 4) ++ concat descs ++ [])%list by (now rewrite app_nil_r, <- app_assoc).
    apply py_slice_mid; rewrite ?app_length, ?int_to_ba_length, ?zeros_length, ?Hcl; lia. }
  rewrite Hann. rewrite chunks_concat by (assumption || lia).
  unfold descs, all. now rewrite rl_entries_numbered.
Qed.

(* ------------------------------------------------------------------ plain table builders and their decoders *)
Definition plain_builder_body (n : Z) (tname : string) : list st :=
  [SAssign "result" (EBytearray (EConst (PInt n))); SEncode (EVar "data") tname "result"; SReturn (EVar "result")].

Theorem plain_builder_exact : forall (name tname : string) (F : fundef) (T : layout) (n : nat),
  lookup name py_program = Some F -> fn_params F = [("data", None)] -> fn_body F = plain_builder_body (Z.of_nat n) tname ->
  lookup tname all_tables = Some T -> (Z.of_nat n <= 1048576)%Z ->
  forall (dd : list (string * pv)) (r : bytes) f, 1 <= f -> encode_pv dd T (zeros n) = Ok r ->
  call_fun all_tables py_program f name [PDict dd] = Ok (PBytes r).
Proof.
  intros name tname F T n HF Hp Hb HT Hn dd r f Hf Henc. destruct f as [|f]; [lia|].
  unfold call_fun, call_with. rewrite HF, Hp. cbn [bind_params]. rewrite run_S, exec_if. cbn [eval truthy]. rewrite Hb. unfold plain_builder_body.
  step. cbn [bytearray_eval as_int]. destruct (Z.ltb_spec (Z.of_nat n) 0); [lia|]. destruct (Z.ltb_spec 1048576 (Z.of_nat n)); [lia|]. rewrite Nat2Z.id.
  step. cbn [lookup String.eqb Ascii.eqb Bool.eqb]. rewrite HT. unfold with_var. lk. rewrite Henc.
  step. reflexivity.
Qed.

(* a structure that is one table in both directions: decoding what was built from a complete valid dictionary returns it *)
Theorem plain_pair_round_trip : forall (bname dname tname : string) (B D : fundef) (T : layout) (n : nat),
  lookup bname py_program = Some B -> fn_params B = [("data", None)] -> fn_body B = plain_builder_body (Z.of_nat n) tname ->
  lookup dname py_program = Some D -> fn_params D = [("data", None)] -> fn_body D = plain_body tname ->
  lookup tname all_tables = Some T -> wf_layout n T = true -> masks_nonzero T = true -> names_distinct (map fst T) = true -> (Z.of_nat n <= 1048576)%Z ->
  forall (dv : list (string * value)) f, 1 <= f -> valid_dict n T dv = true -> map fst dv = map fst T ->
  exists built, call_fun all_tables py_program f bname [PDict (dict_of_decoded dv)] = Ok (PBytes built) /\
    call_fun all_tables py_program f dname [PBytes built] = Ok (PDict (dict_of_decoded dv)).
Proof.
  intros bname dname tname B D T n HB HBp HBb HD HDp HDb HT Hwf Hm Hd Hn dv f Hf Hv Hk.
  destruct (valid_dict_parts _ _ _ Hv) as (_ & Hvals).
  destruct (encode_dict_bits n T dv (zeros n) (zeros_length n) (bytes_ok_zeros n) Hvals) as (r & E & _).
  exists r. split.
  - eapply plain_builder_exact; try eassumption. now rewrite encode_pv_of_decoded.
  - rewrite (plain_decoder_total dname tname D T HD HDp HDb HT Hm Hd r f Hf). f_equal. f_equal. f_equal.
    unfold decode_total. now rewrite (decode_bits_of_encoded n T dv r Hwf Hv Hk E).
Qed.

Theorem readcapacity10_round_trip : forall (dv : list (string * value)) f, 1 <= f ->
  valid_dict 8 T_rc10 dv = true -> map fst dv = map fst T_rc10 ->
  exists built, call_fun all_tables py_program f "scsi_cdb_readcapacity10.ReadCapacity10.marshall_datain" [PDict (dict_of_decoded dv)] = Ok (PBytes built) /\
    call_fun all_tables py_program f "scsi_cdb_readcapacity10.ReadCapacity10.unmarshall_datain" [PBytes built] = Ok (PDict (dict_of_decoded dv)).
Proof.
  apply (plain_pair_round_trip _ _ "scsi_cdb_readcapacity10.ReadCapacity10._datain_bits"
           PF_scsi_cdb_readcapacity10_ReadCapacity10_marshall_datain PF_scsi_cdb_readcapacity10_ReadCapacity10_unmarshall_datain T_rc10 8);
    vm_compute; try reflexivity; discriminate.
Qed.

Theorem readcapacity16_round_trip : forall (dv : list (string * value)) f, 1 <= f ->
  valid_dict 32 T_rc16 dv = true -> map fst dv = map fst T_rc16 ->
  exists built, call_fun all_tables py_program f "scsi_cdb_readcapacity16.ReadCapacity16.marshall_datain" [PDict (dict_of_decoded dv)] = Ok (PBytes built) /\
    call_fun all_tables py_program f "scsi_cdb_readcapacity16.ReadCapacity16.unmarshall_datain" [PBytes built] = Ok (PDict (dict_of_decoded dv)).
Proof.
  apply (plain_pair_round_trip _ _ "scsi_cdb_readcapacity16.ReadCapacity16._datain_bits"
           PF_scsi_cdb_readcapacity16_ReadCapacity16_marshall_datain PF_scsi_cdb_readcapacity16_ReadCapacity16_unmarshall_datain T_rc16 32);
    vm_compute; try reflexivity; discriminate.
Qed.
