(* Proofs/VarListProps.v — a list of self-describing descriptors is walked exactly: every descriptor whose own
   length field is honest is returned whole and in order, for every number of descriptors and every content. *)
From Coq Require Import String Lia.
From PS Require Import Base.Bytes Base.Result Model.Converter Model.VarList.
Set Default Timeout 60.
Open Scope N_scope.

(* a well-formed descriptor: long enough to hold its length field, and as long as that field (plus the fixed part) says *)
Definition desc_ok (p : vparams) (d : bytes) : Prop :=
  (vp_b p <= length d)%nat /\ (0 < length d)%nat /\
  N.of_nat (length d) = N.of_nat (vp_fixed p) + ba_to_int (slice d (vp_a p) (vp_b p)).

Lemma slice_app_prefix (d rest : bytes) a b : (b <= length d)%nat -> slice (d ++ rest)%list a b = slice d a b.
Proof.
  intros H. unfold slice. rewrite skipn_app, firstn_app, skipn_length.
  replace (b - a - (length d - a))%nat with 0%nat by lia. cbn [firstn]. now rewrite app_nil_r.
Qed.

Lemma desc_len_head p (d rest : bytes) : desc_ok p d -> desc_len p (d ++ rest)%list = length d.
Proof.
  intros (Hb & _ & Hl). unfold desc_len. rewrite slice_app_prefix by assumption. rewrite <- Hl, app_length. lia.
Qed.

Theorem vchunks_exact p (descs : list bytes) :
  Forall (desc_ok p) descs ->
  forall fuel, (length descs <= fuel)%nat -> vchunks p fuel (concat descs) = Some descs.
Proof.
  intros H. induction H as [|d ds Hd Hds IH]; intros fuel Hf; [destruct fuel; reflexivity|].
  cbn [concat]. destruct fuel as [|fuel]; [cbn in Hf; lia|].
  assert (Hne : (d ++ concat ds)%list <> []).
  { destruct Hd as (_ & Hp & _). destruct d; [cbn in Hp; lia|discriminate]. }
  assert (Hstep : vchunks p (S fuel) (d ++ concat ds)%list =
                  match vchunks p fuel (skipn (desc_len p (d ++ concat ds)%list) (d ++ concat ds)%list) with
                  | Some cs => Some (firstn (desc_len p (d ++ concat ds)%list) (d ++ concat ds)%list :: cs)
                  | None => None end).
  { destruct (d ++ concat ds)%list; [contradiction|reflexivity]. }
  rewrite Hstep, (desc_len_head p d (concat ds) Hd).
  rewrite skipn_app, skipn_all, Nat.sub_diag. cbn [skipn app].
  rewrite IH by (cbn [length] in Hf; lia).
  rewrite firstn_app, Nat.sub_diag, firstn_all. cbn [firstn]. now rewrite app_nil_r.
Qed.
