(* Proofs/CtorBuffers.v — data buffers (C03) and refusals (C17) of every constructor of the recognised
   shape, for ALL arguments.  Generic over the IR; the per-class obligation is a decidable check on
   the regenerated term. *)
From Coq Require Import String.
From PS Require Import Base.Bytes Base.Result Model.Converter Model.Command Model.Ctor Model.CorrUtil.
From PS Require Import Proofs.CtorSound Proofs.CdbSpec Spec.CdbFormats.
Set Default Timeout 60.
Open Scope string_scope.
Open Scope N_scope.

Definition DOUT := "%dataout".

(* the two shapes of the statements between SCSICommand.__init__ and build_cdb *)
(* MidNone also covers a single private-attribute store (self._evpd = evpd) *)
Inductive mid_kind := MidNone | MidSetOut (e : iexpr).

Definition mid_of (mid : list gstmt) : option mid_kind :=
  match mid with
  | [] => Some MidNone
  | [([], SSetAttr _ _)] => Some MidNone
  | [([], SAssign x e); ([], SSetOut (EVar y))] =>
      if String.eqb x DOUT && String.eqb y DOUT then Some (MidSetOut e) else None
  | _ => None
  end.

Section Buf.
  Variable ext : string -> list cval -> result cval.
  Variable op : opcode.
  Variable K : ctor.
  Variable init_len : N -> result nat.

  Lemma lookup_dict_set_same {A} (d : list (string * A)) k v : lookup k (dict_set d k v) = Some v.
  Proof.
    induction d as [|[k1 v1] d IH]; cbn [dict_set lookup].
    - now rewrite String.eqb_refl.
    - destruct (String.eqb_spec k k1) as [->|Hne]; cbn [lookup].
      + now rewrite String.eqb_refl.
      + destruct (String.eqb_spec k k1); [contradiction|exact IH].
  Qed.

  (* the buffers after a constructor of the recognised shape returned *)
  Theorem ctor_buffers (s : shape) (mk : mid_kind) G ρ0 G' ρ' cm n :
    shape_ok s = true -> mid_of (sh_mid s) = Some mk -> init_len (op_value op) = Ok n ->
    run ext op K init_len G (ρ0, cmd0) (shape_body s) = (G', Ok (ρ', cm)) ->
    exists ρ1 no ni,
      (forall x, ~ In x (assigned (sh_pre s)) -> lookup x ρ1 = lookup x ρ0) /\
      eval ext op ρ1 (sh_eo s) = Ok (CInt no) /\ eval ext op ρ1 (sh_ei s) = Ok (CInt ni) /\
      datain cm = CZeros ni /\
      match mk with
      | MidNone => dataout cm = CZeros no
      | MidSetOut e => exists v, eval ext op ρ1 e = Ok v /\ dataout cm = v
      end.
  Proof.
    intros Hok Hmid Hn Hrun. unfold shape_ok in Hok. apply andb_prop in Hok as [Hok _]. apply andb_prop in Hok as [Hpre _].
    assert (Hpre' : forallb (fun gs => negb (is_init (snd gs))) (sh_pre s) = true).
    { rewrite forallb_forall in *. intros gs Hin. specialize (Hpre gs Hin). unfold plain in Hpre.
      apply andb_prop in Hpre as [Hp _]. apply andb_prop in Hp as [Hp _]. exact Hp. }
    unfold shape_body in Hrun. rewrite run_app in Hrun.
    destruct (run ext op K init_len G (ρ0, cmd0) (sh_pre s)) as [G1 [[ρ1 c1]|e]] eqn:E1; [|inversion Hrun].
    pose proof (run_G_any ext op K init_len _ _ _ _ _ E1) as HG1. subst G1.
    cbn [app run guard_holds forallb fst] in Hrun.
    destruct (exec ext op K init_len G (ρ1, c1) (SInit (sh_eo s) (sh_ei s))) as [G2 [[ρ2 c2]|e]] eqn:E2; [|inversion Hrun].
    cbn [exec] in E2.
    destruct (eval ext op ρ1 (sh_eo s)) as [vo|] eqn:Eo; [|inversion E2].
    destruct (eval ext op ρ1 (sh_ei s)) as [vi|] eqn:Ei; [|inversion E2].
    rewrite Hn in E2.
    destruct vo as [no| | | |]; try (destruct vi; inversion E2; fail).
    destruct vi as [ni| | | |]; try (inversion E2; fail).
    inversion E2; subst G2 ρ2 c2. clear E2.
    exists ρ1, no, ni.
    split; [intros x Hx; eapply run_env; eassumption|].
    split; [exact Eo|]. split; [exact Ei|].
    destruct (sh_mid s) as [|[g1 s1] mid] eqn:Em.
    - (* no statements between __init__ and build_cdb *)
      inversion Hmid; subst mk.
      cbn [app run guard_holds forallb fst exec] in Hrun.
      destruct (eval_kvs ext op ρ1 (sh_kvs s)) as [dd|]; [|inversion Hrun].
      destruct (lookup "opcode" dd) as [[v| | | |]|]; try (inversion Hrun; fail).
      destruct (init_len v) as [nn|]; [|inversion Hrun].
      destruct (encode_cdict dd (c_bits K) (zeros nn)); inversion Hrun; subst. cbn [datain dataout]. auto.
    - destruct g1; [|discriminate]. destruct s1; try discriminate.
      + (* self.dataout = e *)
        cbn [mid_of] in Hmid.
        destruct mid as [|[g2 s2] mid]; [discriminate|]. destruct g2; [|discriminate].
        destruct s2; try discriminate. destruct e0; try discriminate.
        destruct mid; [|discriminate].
        destruct (String.eqb_spec x DOUT) as [->|]; [|discriminate].
        destruct (String.eqb_spec x0 DOUT) as [->|]; [|discriminate].
        inversion Hmid; subst mk. clear Hmid.
        cbn [app run guard_holds forallb fst exec] in Hrun.
        destruct (eval ext op ρ1 e) as [v|] eqn:Ee; [|inversion Hrun].
        cbn [run guard_holds forallb fst exec] in Hrun.
        rewrite eval_eq in Hrun. unfold get in Hrun. rewrite lookup_dict_set_same in Hrun.
        cbn [run guard_holds forallb fst exec cdb dataout datain attrs] in Hrun.
        destruct (eval_kvs ext op (dict_set ρ1 DOUT v) (sh_kvs s)) as [dd|]; [|inversion Hrun].
        destruct (lookup "opcode" dd) as [[vv| | | |]|]; try (inversion Hrun; fail).
        destruct (init_len vv) as [nn|]; [|inversion Hrun].
        destruct (encode_cdict dd (c_bits K) (zeros nn)); inversion Hrun; subst. cbn [datain dataout].
        split; [reflexivity|]. exists v. auto.
      + (* self._private = e *)
        cbn [mid_of] in Hmid. destruct mid; [|discriminate]. inversion Hmid; subst mk. clear Hmid.
        cbn [app run guard_holds forallb fst exec] in Hrun.
        destruct (eval ext op ρ1 e) as [va|]; [|inversion Hrun].
        cbn [run guard_holds forallb fst exec cdb dataout datain attrs] in Hrun.
        destruct (eval_kvs ext op ρ1 (sh_kvs s)) as [dd|]; [|inversion Hrun].
        destruct (lookup "opcode" dd) as [[vv| | | |]|]; try (inversion Hrun; fail).
        destruct (init_len vv) as [nn|]; [|inversion Hrun].
        destruct (encode_cdict dd (c_bits K) (zeros nn)); inversion Hrun; subst. cbn [datain dataout]. auto.
  Qed.

  (* refusal before anything is built: a guard `if c: raise e` as the first statements *)
  Theorem guard_refuses t c e rest G ρ0 :
    evalc ext op ρ0 c = Ok true ->
    run ext op K init_len G (ρ0, cmd0) (([], SAssignC t c) :: ([(t, true)], SRaise e) :: rest) = (G, Raise e).
  Proof.
    intros Hc. cbn [run guard_holds forallb fst exec]. rewrite Hc.
    cbn [run guard_holds forallb fst snd]. rewrite lookup_dict_set_same. cbn [negb Bool.eqb N.eqb].
    replace (1 =? 0) with false by reflexivity. cbn [negb Bool.eqb andb exec]. reflexivity.
  Qed.

  (* an operation code without a fixed CDB length: no constructor of the recognised shape returns *)
  Theorem opcode_refused (s : shape) G ρ0 e :
    shape_ok s = true -> init_len (op_value op) = Raise e ->
    forall G' st, run ext op K init_len G (ρ0, cmd0) (shape_body s) <> (G', Ok st).
  Proof.
    intros Hok Hn G' st Hrun. unfold shape_body in Hrun. rewrite run_app in Hrun.
    destruct (run ext op K init_len G (ρ0, cmd0) (sh_pre s)) as [G1 [[ρ1 c1]|e1]] eqn:E1; [|inversion Hrun].
    cbn [app run guard_holds forallb fst exec] in Hrun.
    destruct (eval ext op ρ1 (sh_eo s)); [|inversion Hrun].
    destruct (eval ext op ρ1 (sh_ei s)); [|inversion Hrun].
    rewrite Hn in Hrun. inversion Hrun.
  Qed.
End Buf.

(* ---------- decidable per-class checks against Spec.xfer_specs ---------- *)

Definition xlen_matches (ok : string -> bool) (l : xlen) (e : iexpr) : bool :=
  match l, e with
  | XZero, EConst 0 => true
  | XArg x, EVar y => String.eqb x y && ok x
  | XMul x y, EMul (EVar a) (EVar b) =>
      ((String.eqb x a && String.eqb y b) || (String.eqb x b && String.eqb y a)) && ok x && ok y
  | XMulK x k, EMul (EVar a) (EConst j) => String.eqb x a && (k =? j) && ok x
  | XMulK x k, EMul (EConst j) (EVar a) => String.eqb x a && (k =? j) && ok x
  | _, _ => false
  end.

Definition out_matches (ok : string -> bool) (kvs : list (string * iexpr)) (xo : xout) (eo : iexpr) (mk : mid_kind) : bool :=
  match xo, mk with
  | OZeros l, MidNone => xlen_matches ok l eo
  | OCaller x, MidSetOut (EVar y) => String.eqb x y && ok x
  | OCallerUnless flag x, MidSetOut (EIf (CTruthy (EVar f)) EBytes0 (EVar y)) =>
      String.eqb flag f && String.eqb x y && ok x && ok flag
  | OParamList, MidSetOut (EVar v) =>
      (* the list was marshalled into v before __init__; PARAMETER LIST LENGTH = len(v) *)
      existsb (fun kv => match snd kv with ELen (EVar w) => String.eqb v w | _ => false end) kvs
  | OParamList, MidSetOut (ECall _ _) =>
      existsb (fun kv => match snd kv with ELen (EVar w) => String.eqb w DOUT | _ => false end) kvs
  | _, _ => false
  end.

Definition xfer_matches (c : ctor) (x : xout * xin) : bool :=
  match shape_of (c_body c) with
  | None => false
  | Some sh =>
      match mid_of (sh_mid sh), snd x with
      | Some mk, IZeros li =>
          let params := map fst (c_params c) in
          let asg := assigned (sh_pre sh) in
          let ok := fun v => memb_s v params && negb (memb_s v asg) in
          shape_ok sh && xlen_matches ok li (sh_ei sh) && out_matches ok (sh_kvs sh) (fst x) (sh_eo sh) mk
      | _, _ => false
      end
  end.

(* what a buffer-length expression of the standard denotes on the caller's arguments *)
Definition xlen_denotes (ρ0 : env) (l : xlen) (n : N) : Prop :=
  match l with
  | XZero => n = 0
  | XArg x => lookup x ρ0 = Some (CInt n)
  | XMul x y => exists a b, lookup x ρ0 = Some (CInt a) /\ lookup y ρ0 = Some (CInt b) /\ n = a * b
  | XMulK x k => exists a, lookup x ρ0 = Some (CInt a) /\ n = a * k
  end.

Lemma memb_s_false_notin x l : memb_s x l = false -> ~ In x l.
Proof.
  intros H Hin. induction l as [|a l IH]; [contradiction|]. cbn [memb_s] in H.
  apply orb_false_elim in H as [H1 H2]. destruct Hin as [->|Hin]; [now rewrite String.eqb_refl in H1|auto].
Qed.

Section XferSound.
  Variable ext : string -> list cval -> result cval.
  Variable op : opcode.
  Variable init_len : N -> result nat.

  Lemma xlen_sound ok ρ1 ρ0 l e n :
    (forall x, ok x = true -> lookup x ρ1 = lookup x ρ0) ->
    xlen_matches ok l e = true -> eval ext op ρ1 e = Ok (CInt n) -> xlen_denotes ρ0 l n.
  Proof.
    intros Hag Hm He. destruct l as [|x|x y|x k]; destruct e; try discriminate; cbn [xlen_matches xlen_denotes] in *.
    - destruct n0; [|discriminate]. rewrite eval_eq in He. now inversion He.
    - apply andb_prop in Hm as [Hx Hok]. apply String.eqb_eq in Hx. subst x0.
      rewrite eval_eq in He. unfold get in He. rewrite <- (Hag x Hok).
      destruct (lookup x ρ1); [|discriminate]. now inversion He.
    - destruct e1; try discriminate. destruct e2; try discriminate.
      apply andb_prop in Hm as [Hm Hoy]. apply andb_prop in Hm as [Hm Hox].
      rewrite eval_eq in He. rewrite (eval_eq _ _ ρ1 (EVar x0)), (eval_eq _ _ ρ1 (EVar x1)) in He. unfold get in He.
      destruct (lookup x0 ρ1) as [va|] eqn:La; [|discriminate].
      destruct (lookup x1 ρ1) as [vb|] eqn:Lb; [|discriminate].
      destruct va as [a| | | |]; try discriminate. destruct vb as [b| | | |]; try discriminate.
      inversion He; subst n.
      apply orb_prop in Hm as [Hm|Hm]; apply andb_prop in Hm as [A B]; apply String.eqb_eq in A, B; subst.
      + exists a, b. rewrite <- (Hag _ Hox), <- (Hag _ Hoy). auto.
      + exists b, a. rewrite <- (Hag _ Hox), <- (Hag _ Hoy). repeat split; try assumption. lia.
    - destruct e1; try discriminate; destruct e2; try discriminate.
      + apply andb_prop in Hm as [Hm Hox]. apply andb_prop in Hm as [A B]. apply String.eqb_eq in A. apply N.eqb_eq in B. subst.
        rewrite eval_eq in He. rewrite (eval_eq _ _ ρ1 (EVar x0)), (eval_eq _ _ ρ1 (EConst n0)) in He. unfold get in He.
        destruct (lookup x0 ρ1) as [va|] eqn:La; [|discriminate]. destruct va as [a| | | |]; try discriminate.
        inversion He; subst n. exists a. rewrite <- (Hag _ Hox). auto.
      + apply andb_prop in Hm as [Hm Hox]. apply andb_prop in Hm as [A B]. apply String.eqb_eq in A. apply N.eqb_eq in B. subst.
        rewrite eval_eq in He. rewrite (eval_eq _ _ ρ1 (EVar x0)), (eval_eq _ _ ρ1 (EConst n0)) in He. unfold get in He.
        destruct (lookup x0 ρ1) as [va|] eqn:La; [|discriminate]. destruct va as [a| | | |]; try discriminate.
        inversion He; subst n. exists a. rewrite <- (Hag _ Hox). split; [exact La|lia].
  Qed.

  (* C03 for every class whose regenerated constructor passes xfer_matches *)
  Theorem xfer_sound (c : ctor) (x : xout * xin) li :
    xfer_matches c x = true -> snd x = IZeros li ->
    forall G pos kw G' cm n,
      init_len (op_value op) = Ok n ->
      run_ctor ext op c init_len G pos kw = (G', Ok cm) ->
      exists ρ0 ni,
        bind_args c pos kw = Ok ρ0 /\
        (* data-in: a zero buffer exactly as long as the standard's transfer *)
        datain cm = CZeros ni /\ xlen_denotes ρ0 li ni /\
        (* data-out *)
        match fst x with
        | OZeros lo => exists no, dataout cm = CZeros no /\ xlen_denotes ρ0 lo no
        | OCaller d => lookup d ρ0 = Some (dataout cm)
        | OCallerUnless flag d =>
            exists fv, lookup flag ρ0 = Some fv /\
                       if truthy fv then dataout cm = CBytes [] else lookup d ρ0 = Some (dataout cm)
        | OParamList => True      (* see Properties/C03.v: PARAMETER LIST LENGTH = len(dataout) is part of C01 *)
        | OAta => True
        end.
  Proof.
    intros Hm Hx G pos kw G' cm n Hn Hrun. unfold xfer_matches in Hm.
    destruct (shape_of (c_body c)) as [sh|] eqn:Hsh; [|discriminate].
    destruct (mid_of (sh_mid sh)) as [mk|] eqn:Hmk; [|discriminate].
    rewrite Hx in Hm. apply andb_prop in Hm as [Hm Hout]. apply andb_prop in Hm as [Hshape Hin].
    unfold run_ctor in Hrun. destruct (bind_args c pos kw) as [ρ0|] eqn:Hb; [|inversion Hrun].
    rewrite <- (shape_of_ok _ _ Hsh) in Hrun.
    destruct (run ext op c init_len G (ρ0, cmd0) (shape_body sh)) as [G1 [[ρr c1]|e]] eqn:Er; [|inversion Hrun].
    inversion Hrun; subst G1 c1. clear Hrun.
    destruct (ctor_buffers ext op c init_len sh mk G ρ0 G' ρr cm n Hshape Hmk Hn Er)
      as (ρ1 & no & ni & Hag & Heo & Hei & Hdi & Hdo).
    set (ok := fun v => memb_s v (map fst (c_params c)) && negb (memb_s v (assigned (sh_pre sh)))) in *.
    assert (Hok : forall v, ok v = true -> lookup v ρ1 = lookup v ρ0).
    { intros v Hv. unfold ok in Hv. apply andb_prop in Hv as [_ Hv]. apply negb_true_iff in Hv.
      apply Hag. now apply memb_s_false_notin. }
    exists ρ0, ni. split; [reflexivity|]. split; [assumption|].
    split; [eapply xlen_sound; eassumption|].
    destruct (fst x) as [lo|d|flag d| |]; destruct mk as [|e]; cbn [out_matches] in Hout; try discriminate; try exact I.
    - exists no. split; [assumption|]. eapply xlen_sound; eassumption.
    - destruct e; try discriminate. apply andb_prop in Hout as [A B]. apply String.eqb_eq in A. subst x0.
      destruct Hdo as (v & Hv & Hd). rewrite eval_eq in Hv. unfold get in Hv. rewrite <- (Hok d B).
      destruct (lookup d ρ1); [|discriminate]. inversion Hv; subst. reflexivity.
    - destruct e; try discriminate. destruct c0; try discriminate. destruct e; try discriminate.
      destruct e1; try discriminate. destruct e2; try discriminate.
      apply andb_prop in Hout as [Hout Of]. apply andb_prop in Hout as [Hout Od]. apply andb_prop in Hout as [A B].
      apply String.eqb_eq in A, B. subst x0 x1.
      destruct Hdo as (v & Hv & Hd). rewrite eval_eq, evalc_eq, (eval_eq _ _ ρ1 (EVar flag)) in Hv. unfold get in Hv.
      rewrite (Hok flag Of) in Hv.
      destruct (lookup flag ρ0) as [fv|] eqn:Lf; [|discriminate]. exists fv. split; [reflexivity|].
      destruct (truthy fv).
      + rewrite eval_eq in Hv. inversion Hv; subst. congruence.
      + rewrite eval_eq in Hv. unfold get in Hv. rewrite <- (Hok d Od).
        destruct (lookup d ρ1); [|discriminate]. inversion Hv; subst. reflexivity.
  Qed.
End XferSound.

(* ---------- refusals (C17) ---------- *)

(* the constructor starts with `if <cond>: raise MissingBlocksizeException` *)
Definition blocksize_guard (c : ctor) : option cond :=
  match c_body c with
  | ([], SAssignC t cnd) :: ([(t', true)], SRaise MissingBlocksize) :: _ =>
      if String.eqb t t' then Some cnd else None
  | _ => None
  end.

Definition is_bs_zero (cnd : cond) : bool :=
  match cnd with
  | CEq (EVar x) (EConst n) => String.eqb x "blocksize" && (n =? 0)
  | _ => false
  end.
Definition is_bs_zero_unless (flag : string) (cnd : cond) : bool :=
  match cnd with
  | CAnd (CNot (CTruthy (EVar f))) (CEq (EVar x) (EConst n)) => String.eqb f flag && String.eqb x "blocksize" && (n =? 0)
  | _ => false
  end.

Lemma blocksize_guard_body c cnd : blocksize_guard c = Some cnd ->
  exists t rest, c_body c = ([], SAssignC t cnd) :: ([(t, true)], SRaise MissingBlocksize) :: rest.
Proof.
  unfold blocksize_guard. intros H.
  destruct (c_body c) as [|[g1 s1] b]; [discriminate H|].
  destruct g1; [|discriminate H]. destruct s1; try discriminate H.
  destruct b as [|[g2 s2] b]; [discriminate H|].
  destruct g2 as [|[t' bb] g2]; [discriminate H|]. destruct bb; [|discriminate H].
  destruct g2; [|discriminate H]. destruct s2; try discriminate H. destruct e; try discriminate H.
  destruct (String.eqb_spec x t') as [->|]; [|discriminate H]. inversion H; subst. eauto.
Qed.

Section Refuse.
  Variable ext : string -> list cval -> result cval.
  Variable op : opcode.
  Variable init_len : N -> result nat.

  (* a block transfer requested without a block size is refused before anything is constructed *)
  Theorem blocksize_refused c cnd :
    blocksize_guard c = Some cnd -> is_bs_zero cnd = true ->
    forall G pos kw ρ0, bind_args c pos kw = Ok ρ0 -> lookup "blocksize" ρ0 = Some (CInt 0) ->
      run_ctor ext op c init_len G pos kw = (G, Raise MissingBlocksize).
  Proof.
    intros Hg Hz G pos kw ρ0 Hb Hl. destruct (blocksize_guard_body c cnd Hg) as (t & rest & Hbody).
    unfold run_ctor. rewrite Hb, Hbody.
    rewrite (guard_refuses ext op c init_len t cnd MissingBlocksize rest G ρ0); [reflexivity|].
    destruct cnd; try discriminate. destruct a; try discriminate. destruct b; try discriminate.
    cbn [is_bs_zero] in Hz. apply andb_prop in Hz as [A B]. apply String.eqb_eq in A. apply N.eqb_eq in B. subst x n.
    rewrite evalc_eq, (eval_eq _ _ ρ0 (EVar "blocksize")), (eval_eq _ _ ρ0 (EConst 0)). unfold get. now rewrite Hl.
  Qed.

  Theorem blocksize_refused_unless c cnd flag :
    blocksize_guard c = Some cnd -> is_bs_zero_unless flag cnd = true ->
    forall G pos kw ρ0 fv, bind_args c pos kw = Ok ρ0 -> lookup "blocksize" ρ0 = Some (CInt 0) ->
      lookup flag ρ0 = Some fv -> truthy fv = false ->
      run_ctor ext op c init_len G pos kw = (G, Raise MissingBlocksize).
  Proof.
    intros Hg Hz G pos kw ρ0 fv Hb Hl Hf Ht. destruct (blocksize_guard_body c cnd Hg) as (t & rest & Hbody).
    unfold run_ctor. rewrite Hb, Hbody.
    rewrite (guard_refuses ext op c init_len t cnd MissingBlocksize rest G ρ0); [reflexivity|].
    destruct cnd; try discriminate. destruct cnd1; try discriminate. destruct cnd1; try discriminate.
    destruct e; try discriminate. destruct cnd2; try discriminate. destruct a; try discriminate. destruct b; try discriminate.
    cbn [is_bs_zero_unless] in Hz. apply andb_prop in Hz as [Hz B]. apply andb_prop in Hz as [C A].
    apply String.eqb_eq in A, C. apply N.eqb_eq in B. subst x x0 n.
    rewrite evalc_eq, (evalc_eq _ _ ρ0 (CNot _)), (evalc_eq _ _ ρ0 (CTruthy _)), (eval_eq _ _ ρ0 (EVar flag)).
    unfold get. rewrite Hf, Ht. cbn [negb].
    rewrite evalc_eq, (eval_eq _ _ ρ0 (EVar "blocksize")), (eval_eq _ _ ρ0 (EConst 0)). unfold get. now rewrite Hl.
  Qed.

  (* an operation code without a fixed CDB length: no constructor returns a command *)
  Theorem opcode_never_ok c sh e :
    shape_of (c_body c) = Some sh -> shape_ok sh = true -> init_len (op_value op) = Raise e ->
    forall G pos kw G' cm, run_ctor ext op c init_len G pos kw <> (G', Ok cm).
  Proof.
    intros Hsh Hok Hn G pos kw G' cm Hrun. unfold run_ctor in Hrun.
    destruct (bind_args c pos kw) as [ρ0|]; [|inversion Hrun].
    rewrite <- (shape_of_ok _ _ Hsh) in Hrun.
    destruct (run ext op c init_len G (ρ0, cmd0) (shape_body sh)) as [G1 [[ρ1 c1]|e1]] eqn:Er; [|inversion Hrun].
    exact (opcode_refused ext op c init_len sh G ρ0 e Hok Hn G1 (ρ1, c1) Er).
  Qed.
End Refuse.
