(* Proofs/PyTotal3.v — READ ELEMENT STATUS, the most intricate REGENERATED decoder (a loop over element status pages, inside it a loop over
   element descriptors whose length and count come from the page header, five conditional parts per descriptor): on EVERY byte string it
   returns a value — no exception, no fuel exhaustion — within 2 len(data) + 4 units of fuel.  The proof is by invariants that only say
   which variables hold bytes / dictionaries / lists (no assumption on the bytes) and a measure that decreases in each loop: the unconsumed
   remainder.  A generic rule for `while` loops with a decreasing measure is proved first. *)
From Coq Require Import String ZArith List Bool Lia.
From PS Require Import Base.Bytes Base.Result Model.Converter Model.Py Proofs.FacadeState Proofs.PyLemmas Proofs.PyParsers Proofs.PyParsersRES Proofs.PyTotal Gen.Tables Gen.PyFuncs.
Import ListNotations.
Set Default Timeout 120.
Open Scope string_scope.
Open Scope nat_scope.

Local Arguments ba_to_int : simpl never.
Local Arguments py_slice : simpl never.
Local Arguments decode_bits : simpl never.
Local Arguments decode_total : simpl never.
Local Arguments dict_update : simpl never.
Local Arguments dict_of_decoded : simpl never.
Local Arguments run : simpl never.
Local Arguments call_with : simpl never.
Local Arguments Z.add : simpl never.
Local Arguments Z.of_N : simpl never.
Local Arguments Z.of_nat : simpl never.
Local Arguments Z.eqb : simpl never.
Local Arguments length : simpl never.
Local Arguments app : simpl never.
Local Arguments map : simpl never.
Local Arguments clip : simpl never.
Local Arguments firstn : simpl never.
Local Arguments skipn : simpl never.

(* ------------------------------------------------------------------ loops with a decreasing measure *)
Section WhileMeasure.
  Variables (T : list (string * layout)) (P : program) (c : ex) (body : list st).
  Variable Inv : env -> Prop.
  Variable mu : env -> nat.
  Variable cv : env -> pv.
  Variable m : nat.
  Hypothesis cond_ok : forall f ρ, Inv ρ -> eval (call_with P (run T P f)) ρ c = Ok (cv ρ).
  Hypothesis iter_ok : forall f ρ, m <= f -> Inv ρ -> truthy (cv ρ) = true ->
    exists ρ', exec_block T (call_with P (run T P f)) (run T P f) body ρ = ONorm ρ' /\ Inv ρ' /\ mu ρ' < mu ρ.

  Lemma while_measure : forall k f ρ, m + k <= f -> Inv ρ -> mu ρ <= k ->
    exists ρ', run T P (S f) (SWhile c body) ρ = ONorm ρ' /\ Inv ρ' /\ truthy (cv ρ') = false.
  Proof.
    induction k as [|k IH]; intros f ρ Hf HI Hmu; rewrite run_S, exec_while, (cond_ok f ρ HI); destruct (truthy (cv ρ)) eqn:Ht; eauto.
    - destruct (iter_ok f ρ ltac:(lia) HI Ht) as (ρ' & _ & _ & Hlt). lia.
    - destruct (iter_ok f ρ ltac:(lia) HI Ht) as (ρ' & -> & HI' & Hlt).
      destruct f as [|f']; [lia|]. apply IH; [lia|exact HI'|lia].
  Qed.
End WhileMeasure.

Lemma py_slice_fromZ {A} (l : list A) (z : Z) : (0 <= z)%Z -> py_slice l (Some z) None = skipn (Z.to_nat z) l.
Proof. intros H. rewrite <- (Z2Nat.id z H) at 1. apply py_slice_from. Qed.

Lemma py_slice_len_le {A} (l : list A) a b : length (py_slice l a b) <= length l.
Proof.
  unfold py_slice. destruct b as [b|]; rewrite ?firstn_length, skipn_length; lia.
Qed.

(* ------------------------------------------------------------------ READ ELEMENT STATUS *)
Definition pg_fields (D : bytes) : list (string * pv) := dict_of_decoded (decode_total D T_res_page).
Lemma pg_fields_spec D : exists p a t, lookup "pvoltag" (pg_fields D) = Some (PInt p) /\ lookup "avoltag" (pg_fields D) = Some (PInt a) /\
  lookup "element_type" (pg_fields D) = Some (PInt t).
Proof.
  unfold pg_fields, decode_total, T_res_page, T_scsi_cdb_readelementstatus__ReadElementStatus___element_status_page_bits. cbn.
  do 3 eexists. repeat split; reflexivity.
Qed.

(* what holds throughout the inner loop (and, with the last two lines, between the conditional parts of its body) *)
Definition res_I (N : nat) (D : bytes) (ρ : env) : Prop :=
  exists esd res d ed e bc rf p a t,
    lookup "data" ρ = Some (PBytes D) /\ lookup "_esd" ρ = Some (PList esd) /\ lookup "result" ρ = Some (PDict res) /\
    lookup "_d" ρ = Some (PBytes d) /\ lookup "_ed" ρ = Some (PList ed) /\ lookup "_edl" ρ = Some (PInt e) /\ (0 <= e)%Z /\
    lookup "_bc" ρ = Some (PInt bc) /\ (0 <= bc)%Z /\ lookup "_r" ρ = Some (PDict rf) /\
    lookup "pvoltag" rf = Some (PInt p) /\ lookup "avoltag" rf = Some (PInt a) /\ lookup "element_type" rf = Some (PInt t) /\
    D <> [] /\ length D <= N /\ length d <= N.
Definition res_J (N : nat) (D : bytes) (ρ : env) : Prop :=
  res_I N D ρ /\ exists rr dd, lookup "_rr" ρ = Some (PDict rr) /\ lookup "_dd" ρ = Some (PBytes dd).
Definition res_mu_in (ρ : env) : nat := match lookup "_d" ρ with Some (PBytes d) => length d | _ => 0 end.
Definition res_cv_in (ρ : env) : pv :=
  match lookup "_edl" ρ, lookup "_d" ρ with
  | Some (PInt e), Some (PBytes d) => if truthy (PInt e) then PInt (Z.of_nat (length d)) else PInt e
  | _, _ => PNone
  end.

Ltac resI H := destruct H as (esd & res & d & ed & e & bc & rf & p & a & t & HD & Hesd & Hres & Hd & Hed & Hedl & He0 & Hbc & Hbc0 & Hr & Hpv & Hav & Hty & HDne & HDN & HdN).
Ltac mkI := unfold res_I; do 10 eexists; repeat split; first [eassumption | progress lk; first [eassumption | reflexivity] | idtac].

Lemma res_in_cond N D f ρ : res_I N D ρ -> eval (call_with py_program (run all_tables py_program f)) ρ res_inner_cond = Ok (res_cv_in ρ).
Proof.
  intros H. resI H. unfold res_cv_in. rewrite Hedl, Hd.
  cbn [res_inner_cond res_inner_loop while_body fn_body nth PF_res eval]. rewrite Hedl. destruct (truthy (PInt e)); [|reflexivity].
  rewrite Hd. reflexivity.
Qed.

(* the conditional parts of the inner body keep res_J *)
Lemma res_if_voltag N D call again ρ key (flag : string) :
  (flag = "pvoltag" \/ flag = "avoltag") -> res_J N D ρ ->
  exists ρ', exec all_tables call again
    (SIf (EIndex (EVar "_r") (EConst (PStr flag)))
       [SUpdate "_rr" [] (EDict [(key, ESlice (EVar "_dd") (Some (EConst (PInt 0))) (Some (EConst (PInt 36))))]);
        SAssign "_dd" (ESlice (EVar "_dd") (Some (EConst (PInt 36))) None)] []) ρ = ONorm ρ' /\ res_J N D ρ' /\
    lookup "_d" ρ' = lookup "_d" ρ /\ lookup "_edl" ρ' = lookup "_edl" ρ.
Proof.
  intros Hflag (HI & rr & dd & Hrr & Hdd). resI HI.
  rewrite exec_if. cbn [eval]. rewrite Hr. cbn [index_eval].
  assert (Hl : exists z, lookup flag rf = Some (PInt z)) by (destruct Hflag as [-> | ->]; eauto). destruct Hl as (z & ->).
  destruct (truthy (PInt z)).
  - step. rewrite Hdd. cbn [slice_eval opt_int as_int]. unfold with_var. rewrite Hrr. cbn [update_at].
    step. rewrite Hdd. cbn [slice_eval opt_int as_int]. rewrite exec_block_nil.
    eexists. split; [reflexivity|]. split; [split; [mkI|]; do 2 eexists; split; lk; reflexivity|]. split; lk; first [reflexivity|assumption|symmetry; assumption].
  - rewrite exec_block_nil. eexists. split; [reflexivity|]. split; [split; [mkI|]; eauto|]. split; first [reflexivity|assumption|symmetry; assumption].
Qed.

Lemma res_if_type N D call again ρ (ty : Z) (tname : string) (L : layout) :
  lookup tname all_tables = Some L -> masks_nonzero L = true -> res_J N D ρ ->
  exists ρ', exec all_tables call again
    (SIf (ECmp CEq (EIndex (EVar "_r") (EConst (PStr "element_type"))) (EConst (PInt ty))) [SDecode (EVar "_d") tname "_rr"] []) ρ = ONorm ρ' /\ res_J N D ρ' /\
    lookup "_d" ρ' = lookup "_d" ρ /\ lookup "_edl" ρ' = lookup "_edl" ρ.
Proof.
  intros HT HL (HI & rr & dd & Hrr & Hdd). resI HI.
  rewrite exec_if. cbn [eval]. rewrite Hr. cbn [index_eval]. rewrite Hty. cbn [cmp_eval py_eq as_int].
  destruct (truthy (PBool (t =? ty)%Z)).
  - step. rewrite Hd, HT. rewrite decode_bits_total by exact HL. unfold with_var. rewrite Hrr. rewrite exec_block_nil.
    eexists. split; [reflexivity|]. split; [split; [mkI|]; do 2 eexists; split; lk; [reflexivity|eassumption]|]. split; lk; first [reflexivity|assumption|symmetry; assumption].
  - rewrite exec_block_nil. eexists. split; [reflexivity|]. split; [split; [mkI|]; eauto|]. split; first [reflexivity|assumption|symmetry; assumption].
Qed.

Lemma res_in_iter N D f ρ : res_I N D ρ -> truthy (res_cv_in ρ) = true ->
  exists ρ', exec_block all_tables (call_with py_program (run all_tables py_program f)) (run all_tables py_program f) res_inner_body ρ = ONorm ρ'
    /\ res_I N D ρ' /\ res_mu_in ρ' < res_mu_in ρ.
Proof.
  intros HI Hc. pose proof HI as HI0. resI HI.
  destruct res_tables as (_ & _ & Te & Tdt & Tst & Tie).
  destruct res_wf as (_ & _ & _ & _ & _ & _ & _ & We1 & _ & Wd1 & _ & Ws1 & _ & Wi1 & _).
  (* the loop condition: _edl is not zero and _d is not empty *)
  unfold res_cv_in in Hc. rewrite Hedl, Hd in Hc.
  assert (He : (e <> 0)%Z /\ d <> []).
  { cbn [truthy] in Hc. destruct (Z.eqb_spec e 0) as [->|E]; cbn [negb] in Hc.
    - change (0 =? 0)%Z with true in Hc. discriminate.
    - split; [exact E|]. intros ->. cbn [truthy] in Hc. change (Z.of_nat (length (@nil byte))) with 0%Z in Hc. change (0 =? 0)%Z with true in Hc. discriminate. }
  destruct He as [He Hdne].
  cbn [res_inner_body res_inner_loop while_body fn_body nth PF_res].
  step. step. rewrite Hd, Te. rewrite decode_bits_total by exact We1. unfold with_var. lk.
  step. rewrite Hd. cbn [slice_eval opt_int as_int].
  (* res_J holds now *)
  match goal with |- context [exec_block _ _ _ _ ?r0] => set (ρ0 := r0) end.
  assert (HJ : res_J N D ρ0).
  { subst ρ0. split; [mkI|]. do 2 eexists. split; lk; reflexivity. }
  assert (HF : lookup "_d" ρ0 = Some (PBytes d) /\ lookup "_edl" ρ0 = Some (PInt e)) by (subst ρ0; split; lk; assumption).
  clearbody ρ0.
  rewrite exec_block_cons.
  match goal with |- context [exec _ ?c ?a (SIf _ _ _) ρ0] => destruct (res_if_voltag N D c a ρ0 "primary_volume_tag" "pvoltag" (or_introl eq_refl) HJ) as (ρ1 & -> & HJ1 & F1 & G1) end.
  rewrite exec_block_cons.
  match goal with |- context [exec _ ?c ?a (SIf _ _ _) ρ1] => destruct (res_if_voltag N D c a ρ1 "alternate_volume_tag" "avoltag" (or_intror eq_refl) HJ1) as (ρ2 & -> & HJ2 & F2 & G2) end.
  rewrite exec_block_cons.
  match goal with |- context [exec _ ?c ?a (SIf _ _ _) ρ2] => destruct (res_if_type N D c a ρ2 4%Z _ _ Tdt Wd1 HJ2) as (ρ3 & -> & HJ3 & F3 & G3) end.
  rewrite exec_block_cons.
  match goal with |- context [exec _ ?c ?a (SIf _ _ _) ρ3] => destruct (res_if_type N D c a ρ3 2%Z _ _ Tst Ws1 HJ3) as (ρ4 & -> & HJ4 & F4 & G4) end.
  rewrite exec_block_cons.
  match goal with |- context [exec _ ?c ?a (SIf _ _ _) ρ4] => destruct (res_if_type N D c a ρ4 3%Z _ _ Tie Wi1 HJ4) as (ρ5 & -> & HJ5 & F5 & G5) end.
  assert (Hd5 : lookup "_d" ρ5 = Some (PBytes d)) by (rewrite F5, F4, F3, F2, F1; apply HF).
  assert (He5 : lookup "_edl" ρ5 = Some (PInt e)) by (rewrite G5, G4, G3, G2, G1; apply HF).
  assert (Hmu : res_mu_in ρ = length d) by (unfold res_mu_in; now rewrite Hd).
  rewrite Hmu.
  destruct HJ5 as (HI5 & rr & dd & Hrr & Hdd).
  clear HJ HJ1 HJ2 HJ3 HJ4 F1 F2 F3 F4 F5 G1 G2 G3 G4 G5 HF ρ0 ρ1 ρ2 ρ3 ρ4 HI0 HD Hesd Hres Hd Hed Hedl Hbc Hr Hpv Hav Hty HDne HDN Hmu Hc.
  clear esd res ed bc rf p a t Hbc0.
  pose proof HI5 as HI5'. destruct HI5' as (esd & res & d' & ed & e' & bc & rf & p & a & t & HD & Hesd & Hres & Hd' & Hed & Hedl' & _ & Hbc & Hbc0 & Hr & Hpv & Hav & Hty & HDne & HDN & _).
  rewrite Hd5 in Hd'. injection Hd' as <-. rewrite He5 in Hedl'. injection Hedl' as <-.
  step. rewrite Hrr. unfold with_var. rewrite Hed. cbn [update_at].
  step. rewrite Hd5. cbn [eval_opt eval]. lk. rewrite He5. cbn [slice_eval opt_int as_int]. rewrite py_slice_fromZ by exact He0.
  rewrite exec_block_nil. eexists. split; [reflexivity|].
  assert (Hshort : length (skipn (Z.to_nat e) d) < length d) by (apply skipn_shorter; [exact Hdne|lia]).
  split.
  - unfold res_I. exists esd, res, (skipn (Z.to_nat e) d), (ed ++ [PDict rr])%list, e, bc, rf, p, a, t.
    repeat split; lk; try assumption; try reflexivity. lia.
  - unfold res_mu_in. lk. exact Hshort.
Qed.


(* the outer loop: one element status page per iteration *)
Definition res_O (N : nat) (ρ : env) : Prop :=
  exists D esd res, lookup "data" ρ = Some (PBytes D) /\ lookup "_esd" ρ = Some (PList esd) /\ lookup "result" ρ = Some (PDict res) /\ length D <= N.
Definition res_mu_out (ρ : env) : nat := match lookup "data" ρ with Some (PBytes D) => length D | _ => 0 end.
Definition res_cv_out (ρ : env) : pv := match lookup "data" ρ with Some (PBytes D) => PInt (Z.of_nat (length D)) | _ => PNone end.

Lemma res_out_cond N f ρ : res_O N ρ -> eval (call_with py_program (run all_tables py_program f)) ρ (while_cond PF_res 5) = Ok (res_cv_out ρ).
Proof.
  intros (D & esd & res & HD & _). unfold res_cv_out. rewrite HD. cbn [while_cond fn_body nth PF_res eval]. rewrite HD. reflexivity.
Qed.

Lemma res_out_iter N f ρ : N <= f -> res_O N ρ -> truthy (res_cv_out ρ) = true ->
  exists ρ', exec_block all_tables (call_with py_program (run all_tables py_program f)) (run all_tables py_program f) res_outer_body ρ = ONorm ρ'
    /\ res_O N ρ' /\ res_mu_out ρ' < res_mu_out ρ.
Proof.
  intros Hf (D & esd & res & HD & Hesd & Hres & HDN) Hc.
  destruct res_tables as (_ & Tp & _).
  destruct res_wf as (_ & _ & _ & Wp1 & _ & Wp3 & _).
  unfold res_cv_out in Hc. rewrite HD in Hc. cbn [truthy] in Hc.
  assert (HDne : D <> []).
  { intros ->. change (Z.of_nat (length (@nil byte))) with 0%Z in Hc. change (0 =? 0)%Z with true in Hc. discriminate. }
  assert (Hmu : res_mu_out ρ = length D) by (unfold res_mu_out; now rewrite HD). rewrite Hmu. clear Hmu Hc.
  cbn [while_body fn_body nth PF_res].
  step. step. rewrite HD. cbn [slice_eval opt_int as_int].
  step. rewrite HD. cbn [slice_eval opt_int as_int].
  step. rewrite HD, Tp. rewrite decode_bits_total by exact Wp1. unfold with_var. lk.
  rewrite dict_update_nil by (unfold dict_of_decoded; rewrite map_map; cbn [fst]; rewrite decode_total_names by exact Wp1; exact Wp3).
  fold (pg_fields D). destruct (pg_fields_spec D) as (p & a & t & Hp & Ha & Ht).
  step. rewrite HD. cbn [bin_eval as_int slice_eval opt_int].
  set (bc := Z.of_N (ba_to_int (py_slice D (Some 5%Z) (Some 8%Z)))).
  set (e := Z.of_N (ba_to_int (py_slice D (Some 2%Z) (Some 4%Z)))).
  assert (Hbc0 : (0 <= bc)%Z) by apply N2Z.is_nonneg. assert (He0 : (0 <= e)%Z) by apply N2Z.is_nonneg.
  set (d0 := py_slice D (Some 8%Z) (Some (8 + bc)%Z)).
  step.
  (* the inner loop *)
  rewrite exec_block_cons, <- run_S.
  match goal with |- context [run _ _ (S f) _ ?ρ0] =>
    pose proof (while_measure all_tables py_program res_inner_cond res_inner_body (res_I N D) res_mu_in res_cv_in 0
                  (fun f ρ H => res_in_cond N D f ρ H) (fun f ρ _ H Ht => res_in_iter N D f ρ H Ht) (length d0) f ρ0) as W
  end.
  cbn [res_inner_cond res_inner_body res_inner_loop while_body fn_body nth PF_res] in W.
  pose proof (py_slice_len_le D (Some 8%Z) (Some (8 + bc)%Z)) as Hd0. fold d0 in Hd0.
  destruct W as (ρ1 & W & HI1 & _).
  { lia. }
  { unfold res_I. exists esd, res, d0, [], e, bc, (pg_fields D), p, a, t. repeat split; lk; try assumption; try reflexivity. lia. }
  { unfold res_mu_in. lk. reflexivity. }
  rewrite W. clear W.
  destruct HI1 as (esd1 & res1 & d1 & ed1 & e1 & bc1 & rf1 & p1 & a1 & t1 & HD1 & Hesd1 & Hres1 & Hd1 & Hed1 & Hedl1 & _ & Hbc1 & Hbc10 & Hr1 & _ & _ & _ & _ & _ & _).
  step. rewrite Hed1. unfold with_var. rewrite Hr1. cbn [update_at].
  step. unfold with_var. lk. rewrite Hesd1. cbn [update_at].
  step. rewrite HD1, Hbc1. cbn [bin_eval as_int slice_eval opt_int]. rewrite py_slice_fromZ by lia.
  rewrite exec_block_nil. eexists. split; [reflexivity|].
  assert (Hshort : length (skipn (Z.to_nat (8 + bc1)) D) < length D) by (apply skipn_shorter; [exact HDne|lia]).
  split.
  - unfold res_O. do 3 eexists. repeat split; lk; try reflexivity; try eassumption. lia.
  - unfold res_mu_out. lk. exact Hshort.
Qed.

(* READ ELEMENT STATUS: for EVERY byte string the decoder returns a value within 2 len(data) + 4 units of fuel *)
Theorem readelementstatus_total : forall (data : bytes) f, 2 * length data + 4 <= f ->
  exists v, call_fun all_tables py_program f RES [PBytes data] = Ok v.
Proof.
  intros data f Hf.
  destruct res_tables as (Th & _).
  destruct res_wf as (Wh1 & _ & Wh3 & _).
  unfold call_fun, call_with. rewrite res_lookup. cbn [fn_params bind_params PF_res].
  destruct f as [|[|f]]; try lia. rewrite run_S, exec_if. cbn [eval truthy].
  cbn [fn_body PF_res].
  step. step. step. cbn [lookup String.eqb Ascii.eqb Bool.eqb]. rewrite Th. rewrite decode_bits_total by exact Wh1. unfold with_var. lk.
  step. cbn [lookup String.eqb Ascii.eqb Bool.eqb slice_eval opt_int as_int].
  step. cbn [lookup String.eqb Ascii.eqb Bool.eqb slice_eval opt_int as_int bin_eval].
  set (D0 := py_slice data (Some 8%Z) _).
  pose proof (py_slice_len_le data (Some 8%Z) (Some (8 + Z.of_N (ba_to_int (py_slice data (Some 5%Z) (Some 8%Z))))%Z)) as HD0. fold D0 in HD0.
  rewrite exec_block_cons, <- run_S.
  match goal with |- context [run _ _ (S (S f)) _ ?ρ0] =>
    pose proof (while_measure all_tables py_program (while_cond PF_res 5) (while_body PF_res 5) (res_O (length data)) res_mu_out res_cv_out (length data)
                  (fun f ρ H => res_out_cond (length data) f ρ H) (fun f ρ Hm H Ht => res_out_iter (length data) f ρ Hm H Ht) (length data) (S f) ρ0) as W
  end.
  cbn [while_cond while_body fn_body nth PF_res] in W.
  destruct W as (ρ1 & W & (D1 & esd1 & res1 & HD1 & Hesd1 & Hres1 & _) & _).
  { lia. }
  { unfold res_O. do 3 eexists. repeat split; lk; try reflexivity. exact HD0. }
  { unfold res_mu_out. lk. exact HD0. }
  rewrite W. clear W.
  step. rewrite Hesd1. unfold with_var. rewrite Hres1. cbn [update_at].
  step. cbn [truthy]. eexists. reflexivity.
Qed.
