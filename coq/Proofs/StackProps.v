(* Proofs/StackProps.v — the facade-to-target stack is transparent: for every valid request, what the
   conformant target (Spec/Target.v) executes is exactly the caller's request, on both transports.
   The facade action lists, opcode tables, constructor IR and mask tables are the REGENERATED ones; each
   command form is evaluated symbolically (all argument values at once) through the IR semantics. *)
From Coq Require Import String Lia.
From PS Require Import Base.Bytes Base.Result Model.Converter Model.Command Model.Ctor Model.InitCdb Model.Facade Model.Stack.
From PS Require Import Proofs.Codec Proofs.Layout Proofs.CtorSound Proofs.CdbSpec Proofs.StackCodec.
From PS Require Import Model.Exec Model.Xfer Proofs.XferProps Spec.CdbFormats Spec.Target Gen.Tables Gen.Opcodes Gen.Ctors Gen.FacadeTbl Gen.Misc.
Set Default Timeout 120.
Open Scope string_scope.
Open Scope N_scope.

(* ---------- symbolic evaluation of the regenerated constructors ---------- *)

Ltac sym_eval T :=
  cbn -[encode_cdict encode_dict init_cdb T N.eqb N.mul zeros].
Ltac sym_eval2 T :=
  repeat (progress (cbn -[encode_cdict encode_dict init_cdb T N.eqb N.mul zeros];
                    change (0 =? 0) with true; change (1 =? 0) with false;
                    repeat match goal with |- context [N.pos ?p =? 0] => change (N.pos p =? 0) with false end)).

Lemma resolve_read10 : exists sas, resolve E_sbc "read10" =
  Some (mkOp 40 sas, C_scsi_cdb_read10__Read10, ("scsi_cdb_read10.Read10", [FOpcode; FBlocksize; FArg "lba"; FArg "tl"], [], true)).
Proof. eexists. vm_compute. reflexivity. Qed.

Lemma init_cdb_40 : init_cdb 40 = Ok 10%nat. Proof. vm_compute. reflexivity. Qed.

Lemma fwd_read10 bs lba tl rdprotect dpo fua rarc group : bs <> 0 ->
  facade_cmd E_sbc bs "read10" [("lba", CInt lba); ("tl", CInt tl)]
    [("rdprotect", CInt rdprotect); ("dpo", CInt dpo); ("fua", CInt fua); ("rarc", CInt rarc); ("group", CInt group)] =
  match encode_dict [("opcode", VI 40); ("lba", VI lba); ("tl", VI tl); ("rdprotect", VI rdprotect); ("dpo", VI dpo); ("fua", VI fua); ("rarc", VI rarc); ("group", VI group)]
              T_scsi_cdb_read10__Read10___cdb_bits (zeros 10) with
  | Ok b => Ok (mkCmd (Some b) (CZeros 0) (CZeros (bs * tl)) [])
  | Raise e => Raise e
  end.
Proof.
  intros Hbs. unfold facade_cmd. destruct resolve_read10 as [sas ->].
  unfold run_ctor, C_scsi_cdb_read10__Read10.
  sym_eval T_scsi_cdb_read10__Read10___cdb_bits.
  destruct (N.eqb_spec bs 0) as [E|_]; [contradiction|].
  sym_eval T_scsi_cdb_read10__Read10___cdb_bits.
  rewrite init_cdb_40. sym_eval T_scsi_cdb_read10__Read10___cdb_bits.
  try (rewrite init_cdb_40; sym_eval T_scsi_cdb_read10__Read10___cdb_bits).
  rewrite encode_cdict_ints by reflexivity. sym_eval T_scsi_cdb_read10__Read10___cdb_bits.
  destruct (encode_dict _ _ _); reflexivity.
Qed.

Lemma resolve_read12 : exists sas, resolve E_sbc "read12" =
  Some (mkOp 168 sas, C_scsi_cdb_read12__Read12, ("scsi_cdb_read12.Read12", [FOpcode; FBlocksize; FArg "lba"; FArg "tl"], [], true)).
Proof. eexists. vm_compute. reflexivity. Qed.

Lemma init_cdb_168 : init_cdb 168 = Ok 12%nat. Proof. vm_compute. reflexivity. Qed.

Lemma fwd_read12 bs lba tl rdprotect dpo fua rarc group : bs <> 0 ->
  facade_cmd E_sbc bs "read12" [("lba", CInt lba); ("tl", CInt tl)]
    [("rdprotect", CInt rdprotect); ("dpo", CInt dpo); ("fua", CInt fua); ("rarc", CInt rarc); ("group", CInt group)] =
  match encode_dict [("opcode", VI 168); ("lba", VI lba); ("tl", VI tl); ("rdprotect", VI rdprotect); ("dpo", VI dpo); ("fua", VI fua); ("rarc", VI rarc); ("group", VI group)]
              T_scsi_cdb_read12__Read12___cdb_bits (zeros 12) with
  | Ok b => Ok (mkCmd (Some b) (CZeros 0) (CZeros (bs * tl)) [])
  | Raise e => Raise e
  end.
Proof.
  intros Hbs. unfold facade_cmd. destruct resolve_read12 as [sas ->].
  unfold run_ctor, C_scsi_cdb_read12__Read12.
  sym_eval T_scsi_cdb_read12__Read12___cdb_bits.
  destruct (N.eqb_spec bs 0) as [E|_]; [contradiction|].
  sym_eval T_scsi_cdb_read12__Read12___cdb_bits.
  rewrite init_cdb_168. sym_eval T_scsi_cdb_read12__Read12___cdb_bits.
  try (rewrite init_cdb_168; sym_eval T_scsi_cdb_read12__Read12___cdb_bits).
  rewrite encode_cdict_ints by reflexivity. sym_eval T_scsi_cdb_read12__Read12___cdb_bits.
  destruct (encode_dict _ _ _); reflexivity.
Qed.

Lemma resolve_read16 : exists sas, resolve E_sbc "read16" =
  Some (mkOp 136 sas, C_scsi_cdb_read16__Read16, ("scsi_cdb_read16.Read16", [FOpcode; FBlocksize; FArg "lba"; FArg "tl"], [], true)).
Proof. eexists. vm_compute. reflexivity. Qed.

Lemma init_cdb_136 : init_cdb 136 = Ok 16%nat. Proof. vm_compute. reflexivity. Qed.

Lemma fwd_read16 bs lba tl rdprotect dpo fua rarc group : bs <> 0 ->
  facade_cmd E_sbc bs "read16" [("lba", CInt lba); ("tl", CInt tl)]
    [("rdprotect", CInt rdprotect); ("dpo", CInt dpo); ("fua", CInt fua); ("rarc", CInt rarc); ("group", CInt group)] =
  match encode_dict [("opcode", VI 136); ("lba", VI lba); ("tl", VI tl); ("rdprotect", VI rdprotect); ("dpo", VI dpo); ("fua", VI fua); ("rarc", VI rarc); ("group", VI group)]
              T_scsi_cdb_read16__Read16___cdb_bits (zeros 16) with
  | Ok b => Ok (mkCmd (Some b) (CZeros 0) (CZeros (bs * tl)) [])
  | Raise e => Raise e
  end.
Proof.
  intros Hbs. unfold facade_cmd. destruct resolve_read16 as [sas ->].
  unfold run_ctor, C_scsi_cdb_read16__Read16.
  sym_eval T_scsi_cdb_read16__Read16___cdb_bits.
  destruct (N.eqb_spec bs 0) as [E|_]; [contradiction|].
  sym_eval T_scsi_cdb_read16__Read16___cdb_bits.
  rewrite init_cdb_136. sym_eval T_scsi_cdb_read16__Read16___cdb_bits.
  try (rewrite init_cdb_136; sym_eval T_scsi_cdb_read16__Read16___cdb_bits).
  rewrite encode_cdict_ints by reflexivity. sym_eval T_scsi_cdb_read16__Read16___cdb_bits.
  destruct (encode_dict _ _ _); reflexivity.
Qed.

Lemma resolve_write10 : exists sas, resolve E_sbc "write10" =
  Some (mkOp 42 sas, C_scsi_cdb_write10__Write10, ("scsi_cdb_write10.Write10", [FOpcode; FBlocksize; FArg "lba"; FArg "tl"; FArg "data"], [], true)).
Proof. eexists. vm_compute. reflexivity. Qed.

Lemma init_cdb_42 : init_cdb 42 = Ok 10%nat. Proof. vm_compute. reflexivity. Qed.

Lemma fwd_write10 bs lba tl data wrprotect dpo fua group : bs <> 0 ->
  facade_cmd E_sbc bs "write10" [("lba", CInt lba); ("tl", CInt tl); ("data", CBytes data)]
    [("wrprotect", CInt wrprotect); ("dpo", CInt dpo); ("fua", CInt fua); ("group", CInt group)] =
  match encode_dict [("opcode", VI 42); ("lba", VI lba); ("tl", VI tl); ("wrprotect", VI wrprotect); ("dpo", VI dpo); ("fua", VI fua); ("group", VI group)]
              T_scsi_cdb_write10__Write10___cdb_bits (zeros 10) with
  | Ok b => Ok (mkCmd (Some b) (CBytes data) (CZeros 0) [])
  | Raise e => Raise e
  end.
Proof.
  intros Hbs. unfold facade_cmd. destruct resolve_write10 as [sas ->].
  unfold run_ctor, C_scsi_cdb_write10__Write10.
  sym_eval T_scsi_cdb_write10__Write10___cdb_bits.
  destruct (N.eqb_spec bs 0) as [E|_]; [contradiction|].
  sym_eval T_scsi_cdb_write10__Write10___cdb_bits.
  rewrite init_cdb_42. sym_eval T_scsi_cdb_write10__Write10___cdb_bits.
  try (rewrite init_cdb_42; sym_eval T_scsi_cdb_write10__Write10___cdb_bits).
  rewrite encode_cdict_ints by reflexivity. sym_eval T_scsi_cdb_write10__Write10___cdb_bits.
  destruct (encode_dict _ _ _); reflexivity.
Qed.

Lemma resolve_write12 : exists sas, resolve E_sbc "write12" =
  Some (mkOp 170 sas, C_scsi_cdb_write12__Write12, ("scsi_cdb_write12.Write12", [FOpcode; FBlocksize; FArg "lba"; FArg "tl"; FArg "data"], [], true)).
Proof. eexists. vm_compute. reflexivity. Qed.

Lemma init_cdb_170 : init_cdb 170 = Ok 12%nat. Proof. vm_compute. reflexivity. Qed.

Lemma fwd_write12 bs lba tl data wrprotect dpo fua group : bs <> 0 ->
  facade_cmd E_sbc bs "write12" [("lba", CInt lba); ("tl", CInt tl); ("data", CBytes data)]
    [("wrprotect", CInt wrprotect); ("dpo", CInt dpo); ("fua", CInt fua); ("group", CInt group)] =
  match encode_dict [("opcode", VI 170); ("lba", VI lba); ("tl", VI tl); ("wrprotect", VI wrprotect); ("dpo", VI dpo); ("fua", VI fua); ("group", VI group)]
              T_scsi_cdb_write12__Write12___cdb_bits (zeros 12) with
  | Ok b => Ok (mkCmd (Some b) (CBytes data) (CZeros 0) [])
  | Raise e => Raise e
  end.
Proof.
  intros Hbs. unfold facade_cmd. destruct resolve_write12 as [sas ->].
  unfold run_ctor, C_scsi_cdb_write12__Write12.
  sym_eval T_scsi_cdb_write12__Write12___cdb_bits.
  destruct (N.eqb_spec bs 0) as [E|_]; [contradiction|].
  sym_eval T_scsi_cdb_write12__Write12___cdb_bits.
  rewrite init_cdb_170. sym_eval T_scsi_cdb_write12__Write12___cdb_bits.
  try (rewrite init_cdb_170; sym_eval T_scsi_cdb_write12__Write12___cdb_bits).
  rewrite encode_cdict_ints by reflexivity. sym_eval T_scsi_cdb_write12__Write12___cdb_bits.
  destruct (encode_dict _ _ _); reflexivity.
Qed.

Lemma resolve_write16 : exists sas, resolve E_sbc "write16" =
  Some (mkOp 138 sas, C_scsi_cdb_write16__Write16, ("scsi_cdb_write16.Write16", [FOpcode; FBlocksize; FArg "lba"; FArg "tl"; FArg "data"], [], true)).
Proof. eexists. vm_compute. reflexivity. Qed.

Lemma init_cdb_138 : init_cdb 138 = Ok 16%nat. Proof. vm_compute. reflexivity. Qed.

Lemma fwd_write16 bs lba tl data wrprotect dpo fua group : bs <> 0 ->
  facade_cmd E_sbc bs "write16" [("lba", CInt lba); ("tl", CInt tl); ("data", CBytes data)]
    [("wrprotect", CInt wrprotect); ("dpo", CInt dpo); ("fua", CInt fua); ("group", CInt group)] =
  match encode_dict [("opcode", VI 138); ("lba", VI lba); ("tl", VI tl); ("wrprotect", VI wrprotect); ("dpo", VI dpo); ("fua", VI fua); ("group", VI group)]
              T_scsi_cdb_write16__Write16___cdb_bits (zeros 16) with
  | Ok b => Ok (mkCmd (Some b) (CBytes data) (CZeros 0) [])
  | Raise e => Raise e
  end.
Proof.
  intros Hbs. unfold facade_cmd. destruct resolve_write16 as [sas ->].
  unfold run_ctor, C_scsi_cdb_write16__Write16.
  sym_eval T_scsi_cdb_write16__Write16___cdb_bits.
  destruct (N.eqb_spec bs 0) as [E|_]; [contradiction|].
  sym_eval T_scsi_cdb_write16__Write16___cdb_bits.
  rewrite init_cdb_138. sym_eval T_scsi_cdb_write16__Write16___cdb_bits.
  try (rewrite init_cdb_138; sym_eval T_scsi_cdb_write16__Write16___cdb_bits).
  rewrite encode_cdict_ints by reflexivity. sym_eval T_scsi_cdb_write16__Write16___cdb_bits.
  destruct (encode_dict _ _ _); reflexivity.
Qed.

Lemma resolve_writesame10 : exists sas, resolve E_sbc "writesame10" =
  Some (mkOp 65 sas, C_scsi_cdb_writesame10__WriteSame10, ("scsi_cdb_writesame10.WriteSame10", [FOpcode; FBlocksize; FArg "lba"; FArg "nb"; FArg "data"], [], true)).
Proof. eexists. vm_compute. reflexivity. Qed.

Lemma init_cdb_65 : init_cdb 65 = Ok 10%nat. Proof. vm_compute. reflexivity. Qed.

Lemma fwd_writesame10 bs lba nb data wrprotect anchor unmap group : bs <> 0 ->
  facade_cmd E_sbc bs "writesame10" [("lba", CInt lba); ("nb", CInt nb); ("data", CBytes data)]
    [("wrprotect", CInt wrprotect); ("anchor", CInt anchor); ("unmap", CInt unmap); ("group", CInt group)] =
  match encode_dict [("opcode", VI 65); ("lba", VI lba); ("nb", VI nb); ("wrprotect", VI wrprotect); ("anchor", VI anchor); ("unmap", VI unmap); ("group", VI group)]
              T_scsi_cdb_writesame10__WriteSame10___cdb_bits (zeros 10) with
  | Ok b => Ok (mkCmd (Some b) (CBytes data) (CZeros 0) [])
  | Raise e => Raise e
  end.
Proof.
  intros Hbs. unfold facade_cmd. destruct resolve_writesame10 as [sas ->].
  unfold run_ctor, C_scsi_cdb_writesame10__WriteSame10.
  sym_eval T_scsi_cdb_writesame10__WriteSame10___cdb_bits.
  destruct (N.eqb_spec bs 0) as [E|_]; [contradiction|].
  sym_eval T_scsi_cdb_writesame10__WriteSame10___cdb_bits.
  rewrite init_cdb_65. sym_eval T_scsi_cdb_writesame10__WriteSame10___cdb_bits.
  try (rewrite init_cdb_65; sym_eval T_scsi_cdb_writesame10__WriteSame10___cdb_bits).
  rewrite encode_cdict_ints by reflexivity. sym_eval T_scsi_cdb_writesame10__WriteSame10___cdb_bits.
  destruct (encode_dict _ _ _); reflexivity.
Qed.

Lemma resolve_synchronizecache10 : exists sas, resolve E_sbc "synchronizecache10" =
  Some (mkOp 53 sas, C_scsi_cdb_synchronize_cache10__SynchronizeCache10, ("scsi_cdb_synchronize_cache10.SynchronizeCache10", [FOpcode; FArg "lba"; FArg "numblks"], [], true)).
Proof. eexists. vm_compute. reflexivity. Qed.

Lemma init_cdb_53 : init_cdb 53 = Ok 10%nat. Proof. vm_compute. reflexivity. Qed.

Lemma fwd_synchronizecache10 bs lba numblks immed group : facade_cmd E_sbc bs "synchronizecache10" [("lba", CInt lba); ("numblks", CInt numblks)]
    [("immed", CInt immed); ("group", CInt group)] =
  match encode_dict [("opcode", VI 53); ("lba", VI lba); ("numblks", VI numblks); ("immed", VI immed); ("group", VI group)]
              T_scsi_cdb_synchronize_cache10__SynchronizeCache10___cdb_bits (zeros 10) with
  | Ok b => Ok (mkCmd (Some b) (CZeros 0) (CZeros 0) [])
  | Raise e => Raise e
  end.
Proof.
  unfold facade_cmd. destruct resolve_synchronizecache10 as [sas ->].
  unfold run_ctor, C_scsi_cdb_synchronize_cache10__SynchronizeCache10.
  sym_eval T_scsi_cdb_synchronize_cache10__SynchronizeCache10___cdb_bits.
  rewrite init_cdb_53. sym_eval T_scsi_cdb_synchronize_cache10__SynchronizeCache10___cdb_bits.
  try (rewrite init_cdb_53; sym_eval T_scsi_cdb_synchronize_cache10__SynchronizeCache10___cdb_bits).
  rewrite encode_cdict_ints by reflexivity. sym_eval T_scsi_cdb_synchronize_cache10__SynchronizeCache10___cdb_bits.
  destruct (encode_dict _ _ _); reflexivity.
Qed.

Lemma resolve_synchronizecache16 : exists sas, resolve E_sbc "synchronizecache16" =
  Some (mkOp 145 sas, C_scsi_cdb_synchronize_cache16__SynchronizeCache16, ("scsi_cdb_synchronize_cache16.SynchronizeCache16", [FOpcode; FArg "lba"; FArg "numblks"], [], true)).
Proof. eexists. vm_compute. reflexivity. Qed.

Lemma init_cdb_145 : init_cdb 145 = Ok 16%nat. Proof. vm_compute. reflexivity. Qed.

Lemma fwd_synchronizecache16 bs lba numblks immed group : facade_cmd E_sbc bs "synchronizecache16" [("lba", CInt lba); ("numblks", CInt numblks)]
    [("immed", CInt immed); ("group", CInt group)] =
  match encode_dict [("opcode", VI 145); ("lba", VI lba); ("numblks", VI numblks); ("immed", VI immed); ("group", VI group)]
              T_scsi_cdb_synchronize_cache16__SynchronizeCache16___cdb_bits (zeros 16) with
  | Ok b => Ok (mkCmd (Some b) (CZeros 0) (CZeros 0) [])
  | Raise e => Raise e
  end.
Proof.
  unfold facade_cmd. destruct resolve_synchronizecache16 as [sas ->].
  unfold run_ctor, C_scsi_cdb_synchronize_cache16__SynchronizeCache16.
  sym_eval T_scsi_cdb_synchronize_cache16__SynchronizeCache16___cdb_bits.
  rewrite init_cdb_145. sym_eval T_scsi_cdb_synchronize_cache16__SynchronizeCache16___cdb_bits.
  try (rewrite init_cdb_145; sym_eval T_scsi_cdb_synchronize_cache16__SynchronizeCache16___cdb_bits).
  rewrite encode_cdict_ints by reflexivity. sym_eval T_scsi_cdb_synchronize_cache16__SynchronizeCache16___cdb_bits.
  destruct (encode_dict _ _ _); reflexivity.
Qed.

Lemma resolve_writesame16 : exists sas, resolve E_sbc "writesame16" =
  Some (mkOp 147 sas, C_scsi_cdb_writesame16__WriteSame16, ("scsi_cdb_writesame16.WriteSame16", [FOpcode; FBlocksize; FArg "lba"; FArg "nb"; FArg "data"], [], true)).
Proof. eexists. vm_compute. reflexivity. Qed.
Lemma init_cdb_147 : init_cdb 147 = Ok 16%nat. Proof. vm_compute. reflexivity. Qed.

Lemma fwd_writesame16 bs lba nb data wrprotect anchor unmap group : bs <> 0 ->
  facade_cmd E_sbc bs "writesame16" [("lba", CInt lba); ("nb", CInt nb); ("data", CBytes data)]
    [("wrprotect", CInt wrprotect); ("anchor", CInt anchor); ("unmap", CInt unmap); ("ndob", CInt 0); ("group", CInt group)] =
  match encode_dict [("opcode", VI 147); ("lba", VI lba); ("nb", VI nb); ("wrprotect", VI wrprotect); ("anchor", VI anchor); ("unmap", VI unmap); ("ndob", VI 0); ("group", VI group)]
              T_scsi_cdb_writesame16__WriteSame16___cdb_bits (zeros 16) with
  | Ok b => Ok (mkCmd (Some b) (CBytes data) (CZeros 0) [])
  | Raise e => Raise e
  end.
Proof.
  intros Hbs. destruct bs as [|p]; [contradiction|].
  unfold facade_cmd. destruct resolve_writesame16 as [sas ->].
  unfold run_ctor, C_scsi_cdb_writesame16__WriteSame16.
  sym_eval2 T_scsi_cdb_writesame16__WriteSame16___cdb_bits.
  rewrite init_cdb_147. sym_eval2 T_scsi_cdb_writesame16__WriteSame16___cdb_bits.
  rewrite init_cdb_147.
  rewrite encode_cdict_ints by reflexivity. sym_eval2 T_scsi_cdb_writesame16__WriteSame16___cdb_bits.
  destruct (encode_dict _ _ _); reflexivity.
Qed.

(* NDOB = 1: no data-out buffer whatever `data` is, and the block size is not needed *)
Lemma fwd_writesame16_ndob bs lba nb anydata wrprotect anchor unmap group :
  facade_cmd E_sbc bs "writesame16" [("lba", CInt lba); ("nb", CInt nb); ("data", anydata)]
    [("wrprotect", CInt wrprotect); ("anchor", CInt anchor); ("unmap", CInt unmap); ("ndob", CInt 1); ("group", CInt group)] =
  match encode_dict [("opcode", VI 147); ("lba", VI lba); ("nb", VI nb); ("wrprotect", VI wrprotect); ("anchor", VI anchor); ("unmap", VI unmap); ("ndob", VI 1); ("group", VI group)]
              T_scsi_cdb_writesame16__WriteSame16___cdb_bits (zeros 16) with
  | Ok b => Ok (mkCmd (Some b) (CBytes []) (CZeros 0) [])
  | Raise e => Raise e
  end.
Proof.
  unfold facade_cmd. destruct resolve_writesame16 as [sas ->].
  unfold run_ctor, C_scsi_cdb_writesame16__WriteSame16.
  sym_eval2 T_scsi_cdb_writesame16__WriteSame16___cdb_bits.
  rewrite init_cdb_147. sym_eval2 T_scsi_cdb_writesame16__WriteSame16___cdb_bits.
  rewrite init_cdb_147.
  rewrite encode_cdict_ints by reflexivity. sym_eval2 T_scsi_cdb_writesame16__WriteSame16___cdb_bits.
  destruct (encode_dict _ _ _); reflexivity.
Qed.

Lemma resolve_readcapacity10 : exists sas, resolve E_sbc "readcapacity10" =
  Some (mkOp 37 sas, C_scsi_cdb_readcapacity10__ReadCapacity10, ("scsi_cdb_readcapacity10.ReadCapacity10", [], [("opcode", FOpcode)], true)).
Proof. eexists. vm_compute. reflexivity. Qed.
Lemma init_cdb_37 : init_cdb 37 = Ok 10%nat. Proof. vm_compute. reflexivity. Qed.

Lemma fwd_readcapacity10 bs :
  facade_cmd E_sbc bs "readcapacity10" [] [] =
  match encode_dict [("opcode", VI 37)] T_scsi_cdb_readcapacity10__ReadCapacity10___cdb_bits (zeros 10) with
  | Ok b => Ok (mkCmd (Some b) (CZeros 0) (CZeros 8) [])
  | Raise e => Raise e
  end.
Proof.
  unfold facade_cmd. destruct resolve_readcapacity10 as [sas ->].
  unfold run_ctor, C_scsi_cdb_readcapacity10__ReadCapacity10.
  sym_eval T_scsi_cdb_readcapacity10__ReadCapacity10___cdb_bits.
  rewrite init_cdb_37. sym_eval T_scsi_cdb_readcapacity10__ReadCapacity10___cdb_bits.
  rewrite init_cdb_37.
  rewrite encode_cdict_ints by reflexivity. sym_eval T_scsi_cdb_readcapacity10__ReadCapacity10___cdb_bits.
  destruct (encode_dict _ _ _); reflexivity.
Qed.

Lemma resolve_readcapacity16 : exists sas, lookup "READ_CAPACITY_16" sas = Some 16 /\ resolve E_sbc "readcapacity16" =
  Some (mkOp 158 sas, C_scsi_cdb_readcapacity16__ReadCapacity16, ("scsi_cdb_readcapacity16.ReadCapacity16", [], [("opcode", FOpcode)], true)).
Proof. eexists. split; [|vm_compute; reflexivity]. vm_compute. reflexivity. Qed.
Lemma init_cdb_158 : init_cdb 158 = Ok 16%nat. Proof. vm_compute. reflexivity. Qed.

Lemma fwd_readcapacity16 bs alloclen :
  facade_cmd E_sbc bs "readcapacity16" [] [("alloclen", CInt alloclen)] =
  match encode_dict [("opcode", VI 158); ("service_action", VI 16); ("alloc_len", VI alloclen)]
                    T_scsi_cdb_readcapacity16__ReadCapacity16___cdb_bits (zeros 16) with
  | Ok b => Ok (mkCmd (Some b) (CZeros 0) (CZeros alloclen) [])
  | Raise e => Raise e
  end.
Proof.
  unfold facade_cmd. destruct resolve_readcapacity16 as [sas [Hsa ->]].
  unfold run_ctor, C_scsi_cdb_readcapacity16__ReadCapacity16.
  sym_eval T_scsi_cdb_readcapacity16__ReadCapacity16___cdb_bits.
  rewrite init_cdb_158. sym_eval T_scsi_cdb_readcapacity16__ReadCapacity16___cdb_bits.
  rewrite Hsa. sym_eval T_scsi_cdb_readcapacity16__ReadCapacity16___cdb_bits.
  rewrite init_cdb_158.
  rewrite encode_cdict_ints by reflexivity. sym_eval T_scsi_cdb_readcapacity16__ReadCapacity16___cdb_bits.
  destruct (encode_dict _ _ _); reflexivity.
Qed.

Lemma resolve_inquiry : exists sas, resolve E_sbc "inquiry" =
  Some (mkOp 18 sas, C_scsi_cdb_inquiry__Inquiry, ("scsi_cdb_inquiry.Inquiry", [FOpcode],
        [("evpd", FArg "evpd"); ("page_code", FArg "page_code"); ("alloclen", FArg "alloclen")], false)).
Proof. eexists. vm_compute. reflexivity. Qed.
Lemma init_cdb_18 : init_cdb 18 = Ok 6%nat. Proof. vm_compute. reflexivity. Qed.

Lemma fwd_inquiry bs evpd page_code alloclen :
  facade_cmd E_sbc bs "inquiry" [("evpd", CInt evpd); ("page_code", CInt page_code); ("alloclen", CInt alloclen)] [] =
  match encode_dict [("opcode", VI 18); ("evpd", VI evpd); ("page_code", VI page_code); ("alloc_len", VI alloclen)]
                    T_scsi_cdb_inquiry__Inquiry___cdb_bits (zeros 6) with
  | Ok b => Ok (mkCmd (Some b) (CZeros 0) (CZeros alloclen) [("_evpd", CInt evpd)])
  | Raise e => Raise e
  end.
Proof.
  unfold facade_cmd. destruct resolve_inquiry as [sas ->].
  unfold run_ctor, C_scsi_cdb_inquiry__Inquiry.
  sym_eval T_scsi_cdb_inquiry__Inquiry___cdb_bits.
  rewrite init_cdb_18. sym_eval T_scsi_cdb_inquiry__Inquiry___cdb_bits.
  rewrite init_cdb_18.
  rewrite encode_cdict_ints by reflexivity. sym_eval T_scsi_cdb_inquiry__Inquiry___cdb_bits.
  destruct (encode_dict _ _ _); reflexivity.
Qed.

(* ---------- one call, end to end ---------- *)

Definition target_ok (t : target) : Prop :=
  t_bs t <> 0 /\ 1 <= t_nblk t /\ forall a, length (t_disk t a) = N.to_nat (t_bs t).

Lemma read_blocks_length disk bs lba n :
  (forall a, length (disk a) = bs) -> length (read_blocks disk lba n) = (n * bs)%nat.
Proof.
  intros H. revert lba. induction n as [|n IH]; intros lba; [reflexivity|].
  cbn [read_blocks]. rewrite app_length, H, IH. reflexivity.
Qed.

Lemma fill_exact space resp : length resp = space -> fill space resp = resp.
Proof.
  intros H. unfold fill. rewrite <- H, firstn_all, Nat.sub_diag. cbn [zeros repeat]. apply app_nil_r.
Qed.

Lemma fill_nil : fill 0 [] = [].
Proof. reflexivity. Qed.

Ltac widths :=
  repeat match goal with
         | |- context [width_of ?n ?L ?k] =>
             let w := eval vm_compute in (width_of n L k) in change (width_of n L k) with w
         end; cbv beta iota.

Ltac ranges := apply valid_dict_ranges; [vm_compute; reflexivity | cbn [ranges_ok]; widths; repeat split; (assumption || (vm_compute; reflexivity))].

Lemma wire_read tr b n ats : wire tr (mkCmd (Some b) (CZeros 0) (CZeros n) ats) = Some (b, [], N.to_nat n).
Proof.
  unfold wire. cbn [cdb dataout datain cval_bytes]. change (zeros (N.to_nat 0)) with (@nil N). rewrite zeros_length.
  destruct tr; [now rewrite sgio_args_checked|].
  rewrite iscsi_xfer_spec. cbn [length]. change (N.of_nat 0 =? 0) with true. cbn [negb]. rewrite N2Nat.id.
  destruct (N.eqb_spec n 0) as [->|Hn]; cbn [negb]; [reflexivity|].
  change (String.eqb "SCSI_XFER_READ" "SCSI_XFER_WRITE") with false. change (String.eqb "SCSI_XFER_READ" "SCSI_XFER_READ") with true.
  cbv iota. now rewrite Nat.min_id.
Qed.

Lemma wire_write tr b data : wire tr (mkCmd (Some b) (CBytes data) (CZeros 0) []) = Some (b, data, 0%nat).
Proof.
  unfold wire. cbn [cdb dataout datain cval_bytes]. change (zeros (N.to_nat 0)) with (@nil N).
  destruct tr; [now rewrite sgio_args_checked|].
  rewrite iscsi_xfer_spec. cbn [length]. change (N.of_nat 0 =? 0) with true. cbn [negb].
  destruct data as [|x data]; [reflexivity|].
  assert (H : (N.of_nat (length (x :: data)) =? 0) = false) by (apply N.eqb_neq; cbn [length]; lia).
  rewrite H. cbn [negb]. change (String.eqb "SCSI_XFER_WRITE" "SCSI_XFER_WRITE") with true. cbv iota.
  now rewrite Nat2N.id, firstn_all.
Qed.

Lemma step_read10 tr t lba tl rdprotect dpo fua rarc group :
  target_ok t -> lba < 2 ^ 32 -> tl < 2 ^ 16 -> rdprotect < 2 ^ 3 -> dpo < 2 ^ 1 -> fua < 2 ^ 1 -> rarc < 2 ^ 1 -> group < 2 ^ 5 -> lba + tl <= t_nblk t ->
  stack_call tr (t_bs t) t "read10" [("lba", CInt lba); ("tl", CInt tl)]
    [("rdprotect", CInt rdprotect); ("dpo", CInt dpo); ("fua", CInt fua); ("rarc", CInt rarc); ("group", CInt group)]
  = (t, Ok (read_blocks (t_disk t) lba (N.to_nat tl))).
Proof.
  intros (Hbs & Hn & Hlen) Hlba Htl Hrdprotect Hdpo Hfua Hrarc Hgroup Hrange.
  unfold stack_call. rewrite fwd_read10 by assumption.
  destruct (encode_rd 10 T_scsi_cdb_read10__Read10___cdb_bits
              [("opcode", VI 40); ("lba", VI lba); ("tl", VI tl); ("rdprotect", VI rdprotect); ("dpo", VI dpo); ("fua", VI fua); ("rarc", VI rarc); ("group", VI group)]
              [("opcode", 0, 7, 8); ("lba", 2, 7, 32); ("tl", 7, 7, 16)])
    as (b & E & Lb & Ob & Hrd); [vm_compute; reflexivity | vm_compute; reflexivity | ranges |].
  rewrite E, wire_read. unfold t_exec. rewrite Lb.
  rewrite (Hrd "opcode" 0 7 8 40) by (cbn; auto 10).
  change (t_dispatch t 40 10 b []) with (if 1 <=? t_nblk t then t_read t (rd b 2 7 32) (rd b 7 7 16) else (t, TCheck)).
  rewrite (Hrd "lba" 2 7 32 lba), (Hrd "tl" 7 7 16 tl) by (cbn; auto 10).
  apply N.leb_le in Hn. rewrite Hn.
  unfold t_read. apply N.leb_le in Hrange. rewrite Hrange.
  rewrite fill_exact; [reflexivity|].
  rewrite (read_blocks_length _ (N.to_nat (t_bs t))) by assumption. lia.
Qed.

Lemma step_read12 tr t lba tl rdprotect dpo fua rarc group :
  target_ok t -> lba < 2 ^ 32 -> tl < 2 ^ 32 -> rdprotect < 2 ^ 3 -> dpo < 2 ^ 1 -> fua < 2 ^ 1 -> rarc < 2 ^ 1 -> group < 2 ^ 5 -> lba + tl <= t_nblk t ->
  stack_call tr (t_bs t) t "read12" [("lba", CInt lba); ("tl", CInt tl)]
    [("rdprotect", CInt rdprotect); ("dpo", CInt dpo); ("fua", CInt fua); ("rarc", CInt rarc); ("group", CInt group)]
  = (t, Ok (read_blocks (t_disk t) lba (N.to_nat tl))).
Proof.
  intros (Hbs & Hn & Hlen) Hlba Htl Hrdprotect Hdpo Hfua Hrarc Hgroup Hrange.
  unfold stack_call. rewrite fwd_read12 by assumption.
  destruct (encode_rd 12 T_scsi_cdb_read12__Read12___cdb_bits
              [("opcode", VI 168); ("lba", VI lba); ("tl", VI tl); ("rdprotect", VI rdprotect); ("dpo", VI dpo); ("fua", VI fua); ("rarc", VI rarc); ("group", VI group)]
              [("opcode", 0, 7, 8); ("lba", 2, 7, 32); ("tl", 6, 7, 32)])
    as (b & E & Lb & Ob & Hrd); [vm_compute; reflexivity | vm_compute; reflexivity | ranges |].
  rewrite E, wire_read. unfold t_exec. rewrite Lb.
  rewrite (Hrd "opcode" 0 7 8 168) by (cbn; auto 10).
  change (t_dispatch t 168 12 b []) with (if 1 <=? t_nblk t then t_read t (rd b 2 7 32) (rd b 6 7 32) else (t, TCheck)).
  rewrite (Hrd "lba" 2 7 32 lba), (Hrd "tl" 6 7 32 tl) by (cbn; auto 10).
  apply N.leb_le in Hn. rewrite Hn.
  unfold t_read. apply N.leb_le in Hrange. rewrite Hrange.
  rewrite fill_exact; [reflexivity|].
  rewrite (read_blocks_length _ (N.to_nat (t_bs t))) by assumption. lia.
Qed.

Lemma step_read16 tr t lba tl rdprotect dpo fua rarc group :
  target_ok t -> lba < 2 ^ 64 -> tl < 2 ^ 32 -> rdprotect < 2 ^ 3 -> dpo < 2 ^ 1 -> fua < 2 ^ 1 -> rarc < 2 ^ 1 -> group < 2 ^ 5 -> lba + tl <= t_nblk t ->
  stack_call tr (t_bs t) t "read16" [("lba", CInt lba); ("tl", CInt tl)]
    [("rdprotect", CInt rdprotect); ("dpo", CInt dpo); ("fua", CInt fua); ("rarc", CInt rarc); ("group", CInt group)]
  = (t, Ok (read_blocks (t_disk t) lba (N.to_nat tl))).
Proof.
  intros (Hbs & Hn & Hlen) Hlba Htl Hrdprotect Hdpo Hfua Hrarc Hgroup Hrange.
  unfold stack_call. rewrite fwd_read16 by assumption.
  destruct (encode_rd 16 T_scsi_cdb_read16__Read16___cdb_bits
              [("opcode", VI 136); ("lba", VI lba); ("tl", VI tl); ("rdprotect", VI rdprotect); ("dpo", VI dpo); ("fua", VI fua); ("rarc", VI rarc); ("group", VI group)]
              [("opcode", 0, 7, 8); ("lba", 2, 7, 64); ("tl", 10, 7, 32)])
    as (b & E & Lb & Ob & Hrd); [vm_compute; reflexivity | vm_compute; reflexivity | ranges |].
  rewrite E, wire_read. unfold t_exec. rewrite Lb.
  rewrite (Hrd "opcode" 0 7 8 136) by (cbn; auto 10).
  change (t_dispatch t 136 16 b []) with (if 1 <=? t_nblk t then t_read t (rd b 2 7 64) (rd b 10 7 32) else (t, TCheck)).
  rewrite (Hrd "lba" 2 7 64 lba), (Hrd "tl" 10 7 32 tl) by (cbn; auto 10).
  apply N.leb_le in Hn. rewrite Hn.
  unfold t_read. apply N.leb_le in Hrange. rewrite Hrange.
  rewrite fill_exact; [reflexivity|].
  rewrite (read_blocks_length _ (N.to_nat (t_bs t))) by assumption. lia.
Qed.

Lemma step_write10 tr t lba tl data wrprotect dpo fua group :
  target_ok t -> lba < 2 ^ 32 -> tl < 2 ^ 16 -> wrprotect < 2 ^ 3 -> dpo < 2 ^ 1 -> fua < 2 ^ 1 -> group < 2 ^ 5 -> lba + tl <= t_nblk t -> N.of_nat (length data) = tl * t_bs t ->
  stack_call tr (t_bs t) t "write10" [("lba", CInt lba); ("tl", CInt tl); ("data", CBytes data)]
    [("wrprotect", CInt wrprotect); ("dpo", CInt dpo); ("fua", CInt fua); ("group", CInt group)]
  = (mkT (t_bs t) (t_nblk t) (t_ident t) (fun a => if covers lba tl a then block_of (t_bs t) data (a - lba) else t_disk t a), Ok []).
Proof.
  intros (Hbs & Hn & Hlen) Hlba Htl Hwrprotect Hdpo Hfua Hgroup Hrange Hdata.
  unfold stack_call. rewrite fwd_write10 by assumption.
  destruct (encode_rd 10 T_scsi_cdb_write10__Write10___cdb_bits
              [("opcode", VI 42); ("lba", VI lba); ("tl", VI tl); ("wrprotect", VI wrprotect); ("dpo", VI dpo); ("fua", VI fua); ("group", VI group)]
              [("opcode", 0, 7, 8); ("lba", 2, 7, 32); ("tl", 7, 7, 16)])
    as (b & E & Lb & Ob & Hrd); [vm_compute; reflexivity | vm_compute; reflexivity | ranges |].
  rewrite E, wire_write. unfold t_exec. rewrite Lb.
  rewrite (Hrd "opcode" 0 7 8 42) by (cbn; auto 10).
  change (t_dispatch t 42 10 b data) with (if 1 <=? t_nblk t then t_write t (rd b 2 7 32) (rd b 7 7 16) data else (t, TCheck)).
  rewrite (Hrd "lba" 2 7 32 lba), (Hrd "tl" 7 7 16 tl) by (cbn; auto 10).
  apply N.leb_le in Hn. rewrite Hn.
  unfold t_write. apply N.leb_le in Hrange. rewrite Hrange. apply N.eqb_eq in Hdata. rewrite Hdata.
  reflexivity.
Qed.

Lemma step_write12 tr t lba tl data wrprotect dpo fua group :
  target_ok t -> lba < 2 ^ 32 -> tl < 2 ^ 32 -> wrprotect < 2 ^ 3 -> dpo < 2 ^ 1 -> fua < 2 ^ 1 -> group < 2 ^ 5 -> lba + tl <= t_nblk t -> N.of_nat (length data) = tl * t_bs t ->
  stack_call tr (t_bs t) t "write12" [("lba", CInt lba); ("tl", CInt tl); ("data", CBytes data)]
    [("wrprotect", CInt wrprotect); ("dpo", CInt dpo); ("fua", CInt fua); ("group", CInt group)]
  = (mkT (t_bs t) (t_nblk t) (t_ident t) (fun a => if covers lba tl a then block_of (t_bs t) data (a - lba) else t_disk t a), Ok []).
Proof.
  intros (Hbs & Hn & Hlen) Hlba Htl Hwrprotect Hdpo Hfua Hgroup Hrange Hdata.
  unfold stack_call. rewrite fwd_write12 by assumption.
  destruct (encode_rd 12 T_scsi_cdb_write12__Write12___cdb_bits
              [("opcode", VI 170); ("lba", VI lba); ("tl", VI tl); ("wrprotect", VI wrprotect); ("dpo", VI dpo); ("fua", VI fua); ("group", VI group)]
              [("opcode", 0, 7, 8); ("lba", 2, 7, 32); ("tl", 6, 7, 32)])
    as (b & E & Lb & Ob & Hrd); [vm_compute; reflexivity | vm_compute; reflexivity | ranges |].
  rewrite E, wire_write. unfold t_exec. rewrite Lb.
  rewrite (Hrd "opcode" 0 7 8 170) by (cbn; auto 10).
  change (t_dispatch t 170 12 b data) with (if 1 <=? t_nblk t then t_write t (rd b 2 7 32) (rd b 6 7 32) data else (t, TCheck)).
  rewrite (Hrd "lba" 2 7 32 lba), (Hrd "tl" 6 7 32 tl) by (cbn; auto 10).
  apply N.leb_le in Hn. rewrite Hn.
  unfold t_write. apply N.leb_le in Hrange. rewrite Hrange. apply N.eqb_eq in Hdata. rewrite Hdata.
  reflexivity.
Qed.

Lemma step_write16 tr t lba tl data wrprotect dpo fua group :
  target_ok t -> lba < 2 ^ 64 -> tl < 2 ^ 32 -> wrprotect < 2 ^ 3 -> dpo < 2 ^ 1 -> fua < 2 ^ 1 -> group < 2 ^ 5 -> lba + tl <= t_nblk t -> N.of_nat (length data) = tl * t_bs t ->
  stack_call tr (t_bs t) t "write16" [("lba", CInt lba); ("tl", CInt tl); ("data", CBytes data)]
    [("wrprotect", CInt wrprotect); ("dpo", CInt dpo); ("fua", CInt fua); ("group", CInt group)]
  = (mkT (t_bs t) (t_nblk t) (t_ident t) (fun a => if covers lba tl a then block_of (t_bs t) data (a - lba) else t_disk t a), Ok []).
Proof.
  intros (Hbs & Hn & Hlen) Hlba Htl Hwrprotect Hdpo Hfua Hgroup Hrange Hdata.
  unfold stack_call. rewrite fwd_write16 by assumption.
  destruct (encode_rd 16 T_scsi_cdb_write16__Write16___cdb_bits
              [("opcode", VI 138); ("lba", VI lba); ("tl", VI tl); ("wrprotect", VI wrprotect); ("dpo", VI dpo); ("fua", VI fua); ("group", VI group)]
              [("opcode", 0, 7, 8); ("lba", 2, 7, 64); ("tl", 10, 7, 32)])
    as (b & E & Lb & Ob & Hrd); [vm_compute; reflexivity | vm_compute; reflexivity | ranges |].
  rewrite E, wire_write. unfold t_exec. rewrite Lb.
  rewrite (Hrd "opcode" 0 7 8 138) by (cbn; auto 10).
  change (t_dispatch t 138 16 b data) with (if 1 <=? t_nblk t then t_write t (rd b 2 7 64) (rd b 10 7 32) data else (t, TCheck)).
  rewrite (Hrd "lba" 2 7 64 lba), (Hrd "tl" 10 7 32 tl) by (cbn; auto 10).
  apply N.leb_le in Hn. rewrite Hn.
  unfold t_write. apply N.leb_le in Hrange. rewrite Hrange. apply N.eqb_eq in Hdata. rewrite Hdata.
  reflexivity.
Qed.

Lemma step_writesame10 tr t lba nb data wrprotect anchor unmap group :
  target_ok t -> lba < 2 ^ 32 -> nb < 2 ^ 16 -> wrprotect < 2 ^ 3 -> anchor < 2 ^ 1 -> unmap < 2 ^ 1 -> group < 2 ^ 5 -> 1 <= nb -> lba + nb <= t_nblk t -> N.of_nat (length data) = t_bs t ->
  stack_call tr (t_bs t) t "writesame10" [("lba", CInt lba); ("nb", CInt nb); ("data", CBytes data)]
    [("wrprotect", CInt wrprotect); ("anchor", CInt anchor); ("unmap", CInt unmap); ("group", CInt group)]
  = (mkT (t_bs t) (t_nblk t) (t_ident t) (fun a => if covers lba nb a then data else t_disk t a), Ok []).
Proof.
  intros (Hbs & Hn & Hlen) Hlba Hnb Hwrprotect Hanchor Hunmap Hgroup Hnz Hrange Hdata.
  unfold stack_call. rewrite fwd_writesame10 by assumption.
  destruct (encode_rd 10 T_scsi_cdb_writesame10__WriteSame10___cdb_bits
              [("opcode", VI 65); ("lba", VI lba); ("nb", VI nb); ("wrprotect", VI wrprotect); ("anchor", VI anchor); ("unmap", VI unmap); ("group", VI group)]
              [("opcode", 0, 7, 8); ("lba", 2, 7, 32); ("nb", 7, 7, 16)])
    as (b & E & Lb & Ob & Hrd); [vm_compute; reflexivity | vm_compute; reflexivity | ranges |].
  rewrite E, wire_write. unfold t_exec. rewrite Lb.
  rewrite (Hrd "opcode" 0 7 8 65) by (cbn; auto 10).
  change (t_dispatch t 65 10 b data) with (if 1 <=? t_nblk t then t_write_same t (rd b 2 7 32) (rd b 7 7 16) data else (t, TCheck)).
  rewrite (Hrd "lba" 2 7 32 lba), (Hrd "nb" 7 7 16 nb) by (cbn; auto 10).
  apply N.leb_le in Hn. rewrite Hn.
  unfold t_write_same. apply N.leb_le in Hrange. rewrite Hrange. apply N.eqb_eq in Hdata. rewrite Hdata.
  apply N.leb_le in Hnz. rewrite Hnz. reflexivity.
Qed.

Lemma step_synchronizecache10 tr t lba numblks immed group :
  target_ok t -> lba < 2 ^ 32 -> numblks < 2 ^ 16 -> immed < 2 ^ 1 -> group < 2 ^ 5 -> lba + numblks <= t_nblk t ->
  stack_call tr (t_bs t) t "synchronizecache10" [("lba", CInt lba); ("numblks", CInt numblks)]
    [("immed", CInt immed); ("group", CInt group)]
  = (t, Ok []).
Proof.
  intros (Hbs & Hn & Hlen) Hlba Hnumblks Himmed Hgroup Hrange.
  unfold stack_call. rewrite fwd_synchronizecache10.
  destruct (encode_rd 10 T_scsi_cdb_synchronize_cache10__SynchronizeCache10___cdb_bits
              [("opcode", VI 53); ("lba", VI lba); ("numblks", VI numblks); ("immed", VI immed); ("group", VI group)]
              [("opcode", 0, 7, 8); ("lba", 2, 7, 32); ("numblks", 7, 7, 16)])
    as (b & E & Lb & Ob & Hrd); [vm_compute; reflexivity | vm_compute; reflexivity | ranges |].
  rewrite E, wire_read. unfold t_exec. rewrite Lb.
  rewrite (Hrd "opcode" 0 7 8 53) by (cbn; auto 10).
  change (t_dispatch t 53 10 b []) with (if 1 <=? t_nblk t then t_sync t (rd b 2 7 32) (rd b 7 7 16) else (t, TCheck)).
  rewrite (Hrd "lba" 2 7 32 lba), (Hrd "numblks" 7 7 16 numblks) by (cbn; auto 10).
  apply N.leb_le in Hn. rewrite Hn.
  unfold t_sync. apply N.leb_le in Hrange. rewrite Hrange. reflexivity.
Qed.

Lemma step_synchronizecache16 tr t lba numblks immed group :
  target_ok t -> lba < 2 ^ 64 -> numblks < 2 ^ 32 -> immed < 2 ^ 1 -> group < 2 ^ 5 -> lba + numblks <= t_nblk t ->
  stack_call tr (t_bs t) t "synchronizecache16" [("lba", CInt lba); ("numblks", CInt numblks)]
    [("immed", CInt immed); ("group", CInt group)]
  = (t, Ok []).
Proof.
  intros (Hbs & Hn & Hlen) Hlba Hnumblks Himmed Hgroup Hrange.
  unfold stack_call. rewrite fwd_synchronizecache16.
  destruct (encode_rd 16 T_scsi_cdb_synchronize_cache16__SynchronizeCache16___cdb_bits
              [("opcode", VI 145); ("lba", VI lba); ("numblks", VI numblks); ("immed", VI immed); ("group", VI group)]
              [("opcode", 0, 7, 8); ("lba", 2, 7, 64); ("numblks", 10, 7, 32)])
    as (b & E & Lb & Ob & Hrd); [vm_compute; reflexivity | vm_compute; reflexivity | ranges |].
  rewrite E, wire_read. unfold t_exec. rewrite Lb.
  rewrite (Hrd "opcode" 0 7 8 145) by (cbn; auto 10).
  change (t_dispatch t 145 16 b []) with (if 1 <=? t_nblk t then t_sync t (rd b 2 7 64) (rd b 10 7 32) else (t, TCheck)).
  rewrite (Hrd "lba" 2 7 64 lba), (Hrd "numblks" 10 7 32 numblks) by (cbn; auto 10).
  apply N.leb_le in Hn. rewrite Hn.
  unfold t_sync. apply N.leb_le in Hrange. rewrite Hrange. reflexivity.
Qed.

Lemma step_writesame16 tr t lba nb data wrprotect anchor unmap group :
  target_ok t -> lba < 2 ^ 64 -> nb < 2 ^ 32 -> wrprotect < 2 ^ 3 -> anchor < 2 ^ 1 -> unmap < 2 ^ 1 -> group < 2 ^ 5 ->
  1 <= nb -> lba + nb <= t_nblk t -> N.of_nat (length data) = t_bs t ->
  stack_call tr (t_bs t) t "writesame16" [("lba", CInt lba); ("nb", CInt nb); ("data", CBytes data)]
    [("wrprotect", CInt wrprotect); ("anchor", CInt anchor); ("unmap", CInt unmap); ("ndob", CInt 0); ("group", CInt group)]
  = (mkT (t_bs t) (t_nblk t) (t_ident t) (fun a => if covers lba nb a then data else t_disk t a), Ok []).
Proof.
  intros (Hbs & Hn & Hlen) Hlba Hnb Hwrprotect Hanchor Hunmap Hgroup Hnz Hrange Hdata.
  unfold stack_call. rewrite fwd_writesame16 by assumption.
  destruct (encode_rd 16 T_scsi_cdb_writesame16__WriteSame16___cdb_bits
              [("opcode", VI 147); ("lba", VI lba); ("nb", VI nb); ("wrprotect", VI wrprotect); ("anchor", VI anchor); ("unmap", VI unmap); ("ndob", VI 0); ("group", VI group)]
              [("opcode", 0, 7, 8); ("lba", 2, 7, 64); ("nb", 10, 7, 32); ("ndob", 1, 0, 1)])
    as (b & E & Lb & Ob & Hrd); [vm_compute; reflexivity | vm_compute; reflexivity | ranges |].
  rewrite E, wire_write. unfold t_exec. rewrite Lb.
  rewrite (Hrd "opcode" 0 7 8 147) by (cbn; auto 10).
  change (t_dispatch t 147 16 b data) with
    (if 1 <=? t_nblk t then
       if rd b 1 0 1 =? 1
       then match data with
            | [] => t_write_same t (rd b 2 7 64) (rd b 10 7 32) (zeros (N.to_nat (t_bs t)))
            | _ => (t, TCheck)
            end
       else t_write_same t (rd b 2 7 64) (rd b 10 7 32) data
     else (t, TCheck)).
  rewrite (Hrd "lba" 2 7 64 lba), (Hrd "nb" 10 7 32 nb), (Hrd "ndob" 1 0 1 0) by (cbn; auto 10).
  change (0 =? 1) with false. cbv iota.
  apply N.leb_le in Hn. rewrite Hn.
  unfold t_write_same. apply N.leb_le in Hrange. rewrite Hrange. apply N.eqb_eq in Hdata. rewrite Hdata.
  apply N.leb_le in Hnz. rewrite Hnz. reflexivity.
Qed.

Lemma step_writesame16_ndob tr t lba nb anydata wrprotect anchor unmap group :
  target_ok t -> lba < 2 ^ 64 -> nb < 2 ^ 32 -> wrprotect < 2 ^ 3 -> anchor < 2 ^ 1 -> unmap < 2 ^ 1 -> group < 2 ^ 5 ->
  1 <= nb -> lba + nb <= t_nblk t ->
  stack_call tr (t_bs t) t "writesame16" [("lba", CInt lba); ("nb", CInt nb); ("data", anydata)]
    [("wrprotect", CInt wrprotect); ("anchor", CInt anchor); ("unmap", CInt unmap); ("ndob", CInt 1); ("group", CInt group)]
  = (mkT (t_bs t) (t_nblk t) (t_ident t) (fun a => if covers lba nb a then zeros (N.to_nat (t_bs t)) else t_disk t a), Ok []).
Proof.
  intros (Hbs & Hn & Hlen) Hlba Hnb Hwrprotect Hanchor Hunmap Hgroup Hnz Hrange.
  unfold stack_call. rewrite fwd_writesame16_ndob.
  destruct (encode_rd 16 T_scsi_cdb_writesame16__WriteSame16___cdb_bits
              [("opcode", VI 147); ("lba", VI lba); ("nb", VI nb); ("wrprotect", VI wrprotect); ("anchor", VI anchor); ("unmap", VI unmap); ("ndob", VI 1); ("group", VI group)]
              [("opcode", 0, 7, 8); ("lba", 2, 7, 64); ("nb", 10, 7, 32); ("ndob", 1, 0, 1)])
    as (b & E & Lb & Ob & Hrd); [vm_compute; reflexivity | vm_compute; reflexivity | ranges |].
  rewrite E, wire_write. unfold t_exec. rewrite Lb.
  rewrite (Hrd "opcode" 0 7 8 147) by (cbn; auto 10).
  change (t_dispatch t 147 16 b []) with
    (if 1 <=? t_nblk t then
       if rd b 1 0 1 =? 1
       then t_write_same t (rd b 2 7 64) (rd b 10 7 32) (zeros (N.to_nat (t_bs t)))
       else t_write_same t (rd b 2 7 64) (rd b 10 7 32) []
     else (t, TCheck)).
  rewrite (Hrd "lba" 2 7 64 lba), (Hrd "nb" 10 7 32 nb), (Hrd "ndob" 1 0 1 1) by (cbn; auto 10).
  change (1 =? 1) with true. cbv iota.
  apply N.leb_le in Hn. rewrite Hn.
  unfold t_write_same. apply N.leb_le in Hrange. rewrite Hrange.
  rewrite zeros_length, N2Nat.id, N.eqb_refl.
  apply N.leb_le in Hnz. rewrite Hnz. reflexivity.
Qed.

Lemma readcap10_length t : length (readcap10_data t) = 8%nat.
Proof. unfold readcap10_data. now rewrite app_length, !int_to_ba_length. Qed.

Lemma step_readcapacity10 tr t :
  target_ok t ->
  stack_call tr (t_bs t) t "readcapacity10" [] [] = (t, Ok (readcap10_data t)).
Proof.
  intros (Hbs & Hn & Hlen).
  unfold stack_call. rewrite fwd_readcapacity10.
  destruct (encode_rd 10 T_scsi_cdb_readcapacity10__ReadCapacity10___cdb_bits [("opcode", VI 37)] [("opcode", 0, 7, 8)])
    as (b & E & Lb & Ob & Hrd); [vm_compute; reflexivity | vm_compute; reflexivity | ranges |].
  rewrite E, wire_read. unfold t_exec. rewrite Lb.
  rewrite (Hrd "opcode" 0 7 8 37) by (cbn; auto 10).
  change (t_dispatch t 37 10 b []) with (if 1 <=? t_nblk t then (t, TGood (readcap10_data t)) else (t, TCheck)).
  apply N.leb_le in Hn. rewrite Hn.
  rewrite fill_exact; [reflexivity|]. now rewrite readcap10_length.
Qed.

Lemma fill_truncate alloc d : fill (N.to_nat alloc) (truncate alloc d) = fill (N.to_nat alloc) d.
Proof.
  unfold fill, truncate. rewrite firstn_firstn, Nat.min_id, firstn_length. f_equal. f_equal. lia.
Qed.

Lemma step_readcapacity16 tr t alloclen :
  target_ok t -> alloclen < 2 ^ 32 ->
  stack_call tr (t_bs t) t "readcapacity16" [] [("alloclen", CInt alloclen)]
  = (t, Ok (fill (N.to_nat alloclen) (readcap16_data t))).
Proof.
  intros (Hbs & Hn & Hlen) Halloclen.
  unfold stack_call. rewrite fwd_readcapacity16.
  destruct (encode_rd 16 T_scsi_cdb_readcapacity16__ReadCapacity16___cdb_bits
              [("opcode", VI 158); ("service_action", VI 16); ("alloc_len", VI alloclen)]
              [("opcode", 0, 7, 8); ("service_action", 1, 4, 5); ("alloc_len", 10, 7, 32)])
    as (b & E & Lb & Ob & Hrd); [vm_compute; reflexivity | vm_compute; reflexivity | ranges |].
  rewrite E, wire_read. unfold t_exec. rewrite Lb.
  rewrite (Hrd "opcode" 0 7 8 158) by (cbn; auto 10).
  change (t_dispatch t 158 16 b []) with
    (if 1 <=? t_nblk t then
       if rd b 1 4 5 =? 16 then (t, TGood (truncate (rd b 10 7 32) (readcap16_data t))) else (t, TCheck)
     else (t, TCheck)).
  rewrite (Hrd "service_action" 1 4 5 16), (Hrd "alloc_len" 10 7 32 alloclen) by (cbn; auto 10).
  change (16 =? 16) with true. cbv iota.
  apply N.leb_le in Hn. rewrite Hn. now rewrite fill_truncate.
Qed.

Lemma step_inquiry tr t alloclen :
  target_ok t -> alloclen < 2 ^ 16 ->
  stack_call tr (t_bs t) t "inquiry" [("evpd", CInt 0); ("page_code", CInt 0); ("alloclen", CInt alloclen)] []
  = (t, Ok (fill (N.to_nat alloclen) (t_ident t))).
Proof.
  intros (Hbs & Hn & Hlen) Halloclen.
  unfold stack_call. rewrite fwd_inquiry.
  destruct (encode_rd 6 T_scsi_cdb_inquiry__Inquiry___cdb_bits
              [("opcode", VI 18); ("evpd", VI 0); ("page_code", VI 0); ("alloc_len", VI alloclen)]
              [("opcode", 0, 7, 8); ("evpd", 1, 0, 1); ("alloc_len", 3, 7, 16)])
    as (b & E & Lb & Ob & Hrd); [vm_compute; reflexivity | vm_compute; reflexivity | ranges |].
  rewrite E, wire_read. unfold t_exec. rewrite Lb.
  rewrite (Hrd "opcode" 0 7 8 18) by (cbn; auto 10).
  change (t_dispatch t 18 6 b []) with
    (if 1 <=? t_nblk t then
       if rd b 1 0 1 =? 0 then (t, TGood (truncate (rd b 3 7 16) (t_ident t))) else (t, TCheck)
     else (t, TCheck)).
  rewrite (Hrd "evpd" 1 0 1 0), (Hrd "alloc_len" 3 7 16 alloclen) by (cbn; auto 10).
  change (0 =? 0) with true. cbv iota.
  apply N.leb_le in Hn. rewrite Hn. now rewrite fill_truncate.
Qed.

(* ---------- requests, their validity, and what they mean for the medium ---------- *)

Inductive form := F10 | F12 | F16.

Record rflags := mkRF { rf_prot : N; rf_dpo : N; rf_fua : N; rf_rarc : N; rf_group : N }.
Record wflags := mkWF { wf_prot : N; wf_dpo : N; wf_fua : N; wf_group : N }.
Record sflags := mkSF { sf_prot : N; sf_anchor : N; sf_unmap : N; sf_group : N }.

Inductive req :=
| RRead (f : form) (lba tl : N) (fl : rflags)
| RWrite (f : form) (lba tl : N) (data : bytes) (fl : wflags)
| RWriteSame10 (lba nb : N) (blk : bytes) (fl : sflags)
| RWriteSame16 (lba nb : N) (blk : bytes) (fl : sflags)
| RWriteSame16Ndob (lba nb : N) (anydata : cval) (fl : sflags)      (* NDOB = 1: zero blocks *)
| RSync10 (lba n immed group : N)
| RSync16 (lba n immed group : N)
| RCapacity10
| RCapacity16 (alloclen : N)
| RInquiry (alloclen : N).

Definition ci (k : string) (v : N) : string * cval := (k, CInt v).

Definition call_of (r : req) : call :=
  match r with
  | RRead f lba tl fl =>
      (match f with F10 => "read10" | F12 => "read12" | F16 => "read16" end,
       [ci "lba" lba; ci "tl" tl],
       [ci "rdprotect" (rf_prot fl); ci "dpo" (rf_dpo fl); ci "fua" (rf_fua fl); ci "rarc" (rf_rarc fl); ci "group" (rf_group fl)])
  | RWrite f lba tl data fl =>
      (match f with F10 => "write10" | F12 => "write12" | F16 => "write16" end,
       [ci "lba" lba; ci "tl" tl; ("data", CBytes data)],
       [ci "wrprotect" (wf_prot fl); ci "dpo" (wf_dpo fl); ci "fua" (wf_fua fl); ci "group" (wf_group fl)])
  | RWriteSame10 lba nb blk fl =>
      ("writesame10", [ci "lba" lba; ci "nb" nb; ("data", CBytes blk)],
       [ci "wrprotect" (sf_prot fl); ci "anchor" (sf_anchor fl); ci "unmap" (sf_unmap fl); ci "group" (sf_group fl)])
  | RWriteSame16 lba nb blk fl =>
      ("writesame16", [ci "lba" lba; ci "nb" nb; ("data", CBytes blk)],
       [ci "wrprotect" (sf_prot fl); ci "anchor" (sf_anchor fl); ci "unmap" (sf_unmap fl); ci "ndob" 0; ci "group" (sf_group fl)])
  | RWriteSame16Ndob lba nb anydata fl =>
      ("writesame16", [ci "lba" lba; ci "nb" nb; ("data", anydata)],
       [ci "wrprotect" (sf_prot fl); ci "anchor" (sf_anchor fl); ci "unmap" (sf_unmap fl); ci "ndob" 1; ci "group" (sf_group fl)])
  | RSync10 lba n immed group => ("synchronizecache10", [ci "lba" lba; ci "numblks" n], [ci "immed" immed; ci "group" group])
  | RSync16 lba n immed group => ("synchronizecache16", [ci "lba" lba; ci "numblks" n], [ci "immed" immed; ci "group" group])
  | RCapacity10 => ("readcapacity10", [], [])
  | RCapacity16 alloclen => ("readcapacity16", [], [ci "alloclen" alloclen])
  | RInquiry alloclen => ("inquiry", [ci "evpd" 0; ci "page_code" 0; ci "alloclen" alloclen], [])
  end.

Definition lba_bits (f : form) : N := match f with F16 => 64 | _ => 32 end.
Definition tl_bits (f : form) : N := match f with F10 => 16 | _ => 32 end.

(* a request the command form can express and the medium can satisfy *)
Definition valid_req (bs nblk : N) (r : req) : Prop :=
  match r with
  | RRead f lba tl fl =>
      lba < 2 ^ lba_bits f /\ tl < 2 ^ tl_bits f /\ lba + tl <= nblk /\
      rf_prot fl < 2 ^ 3 /\ rf_dpo fl < 2 ^ 1 /\ rf_fua fl < 2 ^ 1 /\ rf_rarc fl < 2 ^ 1 /\ rf_group fl < 2 ^ 5
  | RWrite f lba tl data fl =>
      lba < 2 ^ lba_bits f /\ tl < 2 ^ tl_bits f /\ lba + tl <= nblk /\ N.of_nat (length data) = tl * bs /\
      wf_prot fl < 2 ^ 3 /\ wf_dpo fl < 2 ^ 1 /\ wf_fua fl < 2 ^ 1 /\ wf_group fl < 2 ^ 5
  | RWriteSame10 lba nb blk fl =>
      lba < 2 ^ 32 /\ nb < 2 ^ 16 /\ 1 <= nb /\ lba + nb <= nblk /\ N.of_nat (length blk) = bs /\
      sf_prot fl < 2 ^ 3 /\ sf_anchor fl < 2 ^ 1 /\ sf_unmap fl < 2 ^ 1 /\ sf_group fl < 2 ^ 5
  | RWriteSame16 lba nb blk fl =>
      lba < 2 ^ 64 /\ nb < 2 ^ 32 /\ 1 <= nb /\ lba + nb <= nblk /\ N.of_nat (length blk) = bs /\
      sf_prot fl < 2 ^ 3 /\ sf_anchor fl < 2 ^ 1 /\ sf_unmap fl < 2 ^ 1 /\ sf_group fl < 2 ^ 5
  | RWriteSame16Ndob lba nb _ fl =>
      lba < 2 ^ 64 /\ nb < 2 ^ 32 /\ 1 <= nb /\ lba + nb <= nblk /\
      sf_prot fl < 2 ^ 3 /\ sf_anchor fl < 2 ^ 1 /\ sf_unmap fl < 2 ^ 1 /\ sf_group fl < 2 ^ 5
  | RSync10 lba n immed group => lba < 2 ^ 32 /\ n < 2 ^ 16 /\ lba + n <= nblk /\ immed < 2 ^ 1 /\ group < 2 ^ 5
  | RSync16 lba n immed group => lba < 2 ^ 64 /\ n < 2 ^ 32 /\ lba + n <= nblk /\ immed < 2 ^ 1 /\ group < 2 ^ 5
  | RCapacity10 => True
  | RCapacity16 alloclen => alloclen < 2 ^ 32
  | RInquiry alloclen => alloclen < 2 ^ 16
  end.

(* the write a request performs on the medium, if any *)
Definition write_of (bs : N) (r : req) : option wr :=
  match r with
  | RWrite _ lba tl data _ => Some (Wr lba tl data)
  | RWriteSame10 lba nb blk _ | RWriteSame16 lba nb blk _ => Some (WrSame lba nb blk)
  | RWriteSame16Ndob lba nb _ _ => Some (WrSame lba nb (zeros (N.to_nat bs)))
  | _ => None
  end.

Definition apply_wr (bs : N) (disk : N -> bytes) (w : wr) : N -> bytes :=
  match w with
  | Wr lba n data => fun a => if covers lba n a then block_of bs data (a - lba) else disk a
  | WrSame lba n blk => fun a => if covers lba n a then blk else disk a
  end.

(* the abstract meaning of a request: no CDB, no transport — the medium before, the medium after, the data returned *)
Definition meaning (t : target) (r : req) : target * result bytes :=
  (match write_of (t_bs t) r with
   | Some w => mkT (t_bs t) (t_nblk t) (t_ident t) (apply_wr (t_bs t) (t_disk t) w)
   | None => t
   end,
   Ok (match r with
       | RRead _ lba tl _ => read_blocks (t_disk t) lba (N.to_nat tl)
       | RCapacity10 => readcap10_data t
       | RCapacity16 alloclen => fill (N.to_nat alloclen) (readcap16_data t)
       | RInquiry alloclen => fill (N.to_nat alloclen) (t_ident t)
       | _ => []
       end)).

(* the stack is transparent: one call *)
Theorem stack_call_meaning tr t r :
  target_ok t -> valid_req (t_bs t) (t_nblk t) r ->
  (let '(name, args, kw) := call_of r in stack_call tr (t_bs t) t name args kw) = meaning t r.
Proof.
  intros Hok Hv. destruct r as [f lba tl fl|f lba tl data fl|lba nb blk fl|lba nb blk fl|lba nb anyd fl|lba n im g|lba n im g| |al|al];
    cbn [call_of valid_req meaning write_of apply_wr ci] in *.
  - destruct Hv as (H1 & H2 & H3 & H4 & H5 & H6 & H7 & H8). destruct f; cbn [lba_bits tl_bits] in *.
    + now apply step_read10. + now apply step_read12. + now apply step_read16.
  - destruct Hv as (H1 & H2 & H3 & H4 & H5 & H6 & H7 & H8). destruct f; cbn [lba_bits tl_bits] in *.
    + now apply step_write10. + now apply step_write12. + now apply step_write16.
  - destruct Hv as (H1 & H2 & H3 & H4 & H5 & H6 & H7 & H8 & H9). now apply step_writesame10.
  - destruct Hv as (H1 & H2 & H3 & H4 & H5 & H6 & H7 & H8 & H9). now apply step_writesame16.
  - destruct Hv as (H1 & H2 & H3 & H4 & H5 & H6 & H7 & H8). now apply step_writesame16_ndob.
  - destruct Hv as (H1 & H2 & H3 & H4 & H5). now apply step_synchronizecache10.
  - destruct Hv as (H1 & H2 & H3 & H4 & H5). now apply step_synchronizecache16.
  - now apply step_readcapacity10.
  - now apply step_readcapacity16.
  - now apply step_inquiry.
Qed.

(* ---------- histories ---------- *)

Fixpoint meaning_run (t : target) (h : list req) : target * list (result bytes) :=
  match h with
  | [] => (t, [])
  | r :: h' => let '(t1, o) := meaning t r in let '(t2, os) := meaning_run t1 h' in (t2, o :: os)
  end.

Lemma block_of_length bs data i :
  (i + 1) * bs <= N.of_nat (length data) -> length (block_of bs data i) = N.to_nat bs.
Proof.
  intros H. unfold block_of. rewrite slice_length by lia. lia.
Qed.

Lemma meaning_ok t r : target_ok t -> valid_req (t_bs t) (t_nblk t) r ->
  target_ok (fst (meaning t r)) /\ t_bs (fst (meaning t r)) = t_bs t /\ t_nblk (fst (meaning t r)) = t_nblk t
  /\ t_ident (fst (meaning t r)) = t_ident t.
Proof.
  intros (Hbs & Hn & Hlen) Hv. unfold meaning. cbn [fst].
  destruct (write_of (t_bs t) r) as [w|] eqn:Hw; [|repeat split; assumption].
  cbn [t_bs t_nblk t_ident t_disk]. repeat split; try assumption.
  intros a. destruct r; cbn [write_of] in Hw; try discriminate; inversion Hw; subst w; cbn [apply_wr valid_req t_disk t_bs] in *.
  - destruct (covers lba tl a) eqn:Hc; [|apply Hlen].
    apply block_of_length. destruct Hv as (_ & _ & _ & Hd & _). unfold covers in Hc.
    apply andb_prop in Hc as [Ha Hb]. apply N.leb_le in Ha. apply N.ltb_lt in Hb. rewrite Hd. nia.
  - destruct (covers lba nb a); [|apply Hlen]. destruct Hv as (_ & _ & _ & _ & Hd & _). lia.
  - destruct (covers lba nb a); [|apply Hlen]. destruct Hv as (_ & _ & _ & _ & Hd & _). lia.
  - destruct (covers lba nb a); [|apply Hlen]. apply zeros_length.
Qed.

(* the stack is transparent: every history, either transport *)
Theorem stack_run_meaning tr : forall h t,
  target_ok t -> Forall (valid_req (t_bs t) (t_nblk t)) h ->
  stack_run tr (t_bs t) t (map call_of h) = meaning_run t h.
Proof.
  induction h as [|r h IH]; intros t Hok Hv; [reflexivity|].
  inversion Hv as [|? ? Hr Hh]; subst.
  cbn [map stack_run meaning_run].
  pose proof (stack_call_meaning tr t r Hok Hr) as Hs.
  destruct (call_of r) as [[name args] kw]. rewrite Hs.
  destruct (meaning_ok t r Hok Hr) as (Hok1 & Hbs1 & Hn1 & _).
  destruct (meaning t r) as [t1 o]. cbn [fst] in *.
  rewrite <- Hbs1. rewrite IH; [reflexivity|assumption|]. now rewrite Hbs1, Hn1.
Qed.

Corollary transports_agree h t :
  target_ok t -> Forall (valid_req (t_bs t) (t_nblk t)) h ->
  stack_run SGIO (t_bs t) t (map call_of h) = stack_run ISCSI (t_bs t) t (map call_of h).
Proof. intros Hok Hv. now rewrite !stack_run_meaning. Qed.

(* ---------- the medium holds, for each block, the data last written to it ---------- *)

Fixpoint writes_of (bs : N) (h : list req) : list wr :=
  match h with
  | [] => []
  | r :: h' => match write_of bs r with Some w => w :: writes_of bs h' | None => writes_of bs h' end
  end.

Lemma latest_snoc bs init ws w a :
  latest bs init (rev (ws ++ [w])) a = apply_wr bs (latest bs init (rev ws)) w a.
Proof. rewrite rev_app_distr. cbn [rev app latest]. destruct w; reflexivity. Qed.

Lemma meaning_run_disk : forall h t,
  (forall a, t_disk (fst (meaning_run t h)) a = fold_left (apply_wr (t_bs t)) (writes_of (t_bs t) h) (t_disk t) a)
  /\ t_bs (fst (meaning_run t h)) = t_bs t.
Proof.
  induction h as [|r h IH]; intros t; [split; reflexivity|].
  cbn [meaning_run writes_of].
  destruct (meaning t r) as [t1 o] eqn:Hm.
  assert (Ht1 : t1 = match write_of (t_bs t) r with
                     | Some w => mkT (t_bs t) (t_nblk t) (t_ident t) (apply_wr (t_bs t) (t_disk t) w)
                     | None => t end) by (unfold meaning in Hm; inversion Hm; reflexivity).
  destruct (IH t1) as [H1 H2]. destruct (meaning_run t1 h) as [t2 os]. cbn [fst] in *.
  destruct (write_of (t_bs t) r) as [w|]; subst t1; cbn [t_bs t_disk] in *; (split; [|assumption]).
  - intros a. rewrite H1. reflexivity.
  - assumption.
Qed.

Lemma fold_apply_latest bs : forall ws init a,
  fold_left (apply_wr bs) ws init a = latest bs init (rev ws) a.
Proof.
  intros ws. induction ws as [|w ws IH] using rev_ind; intros init a; [reflexivity|].
  rewrite fold_left_app. cbn [fold_left]. rewrite latest_snoc.
  destruct w; cbn [apply_wr]; destruct (covers _ _ a); try reflexivity; apply IH.
Qed.

(* after any history, block a holds what the most recent write covering it put there, else its initial contents *)
Theorem medium_is_latest h t a :
  t_disk (fst (meaning_run t h)) a = latest (t_bs t) (t_disk t) (rev (writes_of (t_bs t) h)) a.
Proof. destruct (meaning_run_disk h t) as [H _]. rewrite H. apply fold_apply_latest. Qed.

Lemma read_blocks_ext d1 d2 : (forall a, d1 a = d2 a) -> forall n lba, read_blocks d1 lba n = read_blocks d2 lba n.
Proof. intros H n. induction n as [|n IH]; intros lba; [reflexivity|]. cbn [read_blocks]. now rewrite H, IH. Qed.

(* a READ after any history returns, block by block, the data last written *)
Theorem read_returns_latest h t f lba tl fl :
  snd (meaning (fst (meaning_run t h)) (RRead f lba tl fl)) =
  Ok (read_blocks (latest (t_bs t) (t_disk t) (rev (writes_of (t_bs t) h))) lba (N.to_nat tl)).
Proof.
  unfold meaning. cbn [snd]. f_equal. apply read_blocks_ext. intros a. apply medium_is_latest.
Qed.

(* ---------- READ CAPACITY: the decoded geometry (through the regenerated data-in tables) ---------- *)

Lemma decode1_u32 data o : bytes_ok data -> (N.to_nat o + 4 <= length data)%nat ->
  decode1 data (Mask 4294967295 o) = Ok (VI (ba_to_int (slice data (N.to_nat o) (N.to_nat o + 4)))).
Proof.
  intros Hok Hlen. unfold decode1. change (ctz 4294967295) with (Some 0). change (nbytes 4294967295) with 4%nat. cbv beta iota zeta.
  rewrite !N.shiftr_0_r. change 4294967295 with (N.ones 32). rewrite N.land_ones.
  rewrite N.mod_small; [reflexivity|].
  pose proof (ba_to_int_bound (slice data (N.to_nat o) (N.to_nat o + 4)) (bytes_ok_slice _ _ _ Hok)) as B.
  rewrite slice_length in B by lia. replace (N.to_nat o + 4 - N.to_nat o)%nat with 4%nat in B by lia. exact B.
Qed.

Lemma decode1_u64 data o : bytes_ok data -> (N.to_nat o + 8 <= length data)%nat ->
  decode1 data (Mask 18446744073709551615 o) = Ok (VI (ba_to_int (slice data (N.to_nat o) (N.to_nat o + 8)))).
Proof.
  intros Hok Hlen. unfold decode1. change (ctz 18446744073709551615) with (Some 0). change (nbytes 18446744073709551615) with 8%nat. cbv beta iota zeta.
  rewrite !N.shiftr_0_r. change 18446744073709551615 with (N.ones 64). rewrite N.land_ones.
  rewrite N.mod_small; [reflexivity|].
  pose proof (ba_to_int_bound (slice data (N.to_nat o) (N.to_nat o + 8)) (bytes_ok_slice _ _ _ Hok)) as B.
  rewrite slice_length in B by lia. replace (N.to_nat o + 8 - N.to_nat o)%nat with 8%nat in B by lia. exact B.
Qed.

Lemma slice_app_l (a b : bytes) n : length a = n -> slice (a ++ b)%list 0 n = a.
Proof. intros H. unfold slice. cbn [skipn]. rewrite Nat.sub_0_r, <- H, firstn_app, Nat.sub_diag, firstn_all. cbn [firstn]. apply app_nil_r. Qed.

Lemma slice_app_r (a b c : bytes) n m : length a = n -> length b = (m - n)%nat -> (n <= m)%nat -> slice (a ++ b ++ c)%list n m = b.
Proof.
  intros Ha Hb Hnm. unfold slice. rewrite <- Ha, skipn_app, skipn_all, Nat.sub_diag. cbn [skipn app].
  rewrite Ha, <- Hb, firstn_app, Nat.sub_diag, firstn_all. cbn [firstn]. apply app_nil_r.
Qed.

Theorem capacity10_decodes t : t_bs t < 2 ^ 32 -> 1 <= t_nblk t -> t_nblk t <= 2 ^ 32 ->
  decode_bits (readcap10_data t) T_scsi_cdb_readcapacity10__ReadCapacity10___datain_bits =
  Ok [("returned_lba", VI (t_nblk t - 1)); ("block_length", VI (t_bs t))].
Proof.
  intros Hbs H1 Hn. unfold T_scsi_cdb_readcapacity10__ReadCapacity10___datain_bits. cbn [decode_bits].
  assert (Hok : bytes_ok (readcap10_data t)) by (unfold readcap10_data; apply bytes_ok_app; split; apply int_to_ba_ok).
  rewrite !decode1_u32 by (assumption || (rewrite readcap10_length; cbn; lia)).
  unfold readcap10_data. change (N.to_nat 0) with 0%nat. change (N.to_nat 4) with 4%nat. cbn [Nat.add].
  rewrite slice_app_l by apply int_to_ba_length.
  rewrite <- (app_nil_r (int_to_ba (t_bs t) 4)) at 1.
  rewrite (slice_app_r _ _ [] 4 8) by (rewrite ?int_to_ba_length; lia).
  rewrite !ba_to_int_to_ba. change (N.of_nat 4) with 4. change (256 ^ 4) with (2 ^ 32).
  rewrite N.min_l by lia. rewrite !N.mod_small by lia. reflexivity.
Qed.

Lemma readcap16_length t : length (readcap16_data t) = 32%nat.
Proof. unfold readcap16_data. now rewrite !app_length, !int_to_ba_length, zeros_length. Qed.

Theorem capacity16_decodes t : t_bs t < 2 ^ 32 -> 1 <= t_nblk t -> t_nblk t <= 2 ^ 64 ->
  exists f1 f2,
    lookup "returned_lba" T_scsi_cdb_readcapacity16__ReadCapacity16___datain_bits = Some f1 /\
    lookup "block_length" T_scsi_cdb_readcapacity16__ReadCapacity16___datain_bits = Some f2 /\
    decode1 (readcap16_data t) f1 = Ok (VI (t_nblk t - 1)) /\ decode1 (readcap16_data t) f2 = Ok (VI (t_bs t)).
Proof.
  intros Hbs H1 Hn. eexists. eexists. split; [vm_compute; reflexivity|]. split; [vm_compute; reflexivity|].
  assert (Hok : bytes_ok (readcap16_data t)).
  { unfold readcap16_data. apply bytes_ok_app. split; [apply int_to_ba_ok|]. apply bytes_ok_app. split; [apply int_to_ba_ok|apply bytes_ok_zeros]. }
  rewrite decode1_u64, decode1_u32 by (assumption || (rewrite readcap16_length; cbn; lia)).
  unfold readcap16_data. change (N.to_nat 0) with 0%nat. change (N.to_nat 8) with 8%nat. cbn [Nat.add].
  rewrite slice_app_l by apply int_to_ba_length.
  rewrite (slice_app_r _ _ _ 8 12) by (rewrite ?int_to_ba_length; lia).
  rewrite !ba_to_int_to_ba. change (N.of_nat 8) with 8. change (N.of_nat 4) with 4.
  change (256 ^ 8) with (2 ^ 64). change (256 ^ 4) with (2 ^ 32).
  rewrite !N.mod_small by lia. split; reflexivity.
Qed.
