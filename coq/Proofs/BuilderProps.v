(* Proofs/BuilderProps.v — parameter data the library composes: values land at the standard's positions, length
   fields read back as the number of bytes that follow, iSCSI names are padded to a multiple of four. *)
From Coq Require Import String Lia.
From PS Require Import Base.Bytes Base.Result Model.Converter Model.Parser Model.ParserInst Model.CorrUtil.
From PS Require Import Proofs.Codec Proofs.Layout Proofs.ParserProps Spec.RespFormats Spec.ParamRules Gen.Tables Gen.Builders.
Set Default Timeout 60.
Open Scope string_scope.
Open Scope N_scope.

(* ---------- (1) encode puts each supplied value where the standard's reader finds it ---------- *)

Theorem encode_places_standard n L flds d :
  wf_layout n L = true -> fields_ok L flds = true -> valid_dict n L d = true ->
  exists r, encode_dict d L (zeros n) = Ok r /\ length r = n /\
    forall k b m w x, In (k, b, m, w) flds -> In (k, VI x) d -> std_read r b m w = x.
Proof.
  intros Hwf Hf Hvd.
  destruct (valid_dict_parts _ _ _ Hvd) as (Hnd & Hvals).
  destruct (encode_dict_bits n L d (zeros n) (zeros_length n) (bytes_ok_zeros n) Hvals) as (r & E & Lr & Or & _).
  exists r. split; [assumption|]. split; [assumption|].
  intros k b m w x Hin Hd.
  unfold fields_ok in Hf. rewrite forallb_forall in Hf. specialize (Hf _ Hin). unfold field_ok in Hf.
  destruct (lookup k L) as [f|] eqn:Hl; [|discriminate].
  destruct (decode_encode_field n L d (zeros n) k f Hwf Hvd (zeros_length n) (bytes_ok_zeros n) (lookup_In _ _ _ Hl))
    as (r2 & E2 & _ & _ & Hdec & _).
  rewrite E in E2. inversion E2; subst r2. specialize (Hdec (VI x) Hd (ba_to_int_zeros n)).
  destruct f as [mk o|u o len].
  - rewrite (decode1_std r mk o b m w Hf) in Hdec. now inversion Hdec.
  - cbn [decode1] in Hdec. discriminate.
Qed.

Definition param_format_ok (name : string) : bool :=
  match lookup name resp_formats with
  | Some (names, n, flds) =>
      match layout_of names with
      | Some L => wf_layout n L && fields_ok L flds
      | None => false
      end
  | None => false
  end.

Definition param_formats_ok : bool := forallb param_format_ok param_formats.

Theorem param_formats_sound : param_formats_ok = true ->
  forall name, In name param_formats ->
  exists names n flds L, lookup name resp_formats = Some (names, n, flds) /\ layout_of names = Some L /\
    forall d, valid_dict n L d = true ->
    exists r, encode_dict d L (zeros n) = Ok r /\ length r = n /\
      forall k b m w x, In (k, b, m, w) flds -> In (k, VI x) d -> std_read r b m w = x.
Proof.
  intros H name Hin. unfold param_formats_ok in H. rewrite forallb_forall in H. specialize (H _ Hin).
  unfold param_format_ok in H. destruct (lookup name resp_formats) as [[[names n] flds]|] eqn:E1; [|discriminate].
  destruct (layout_of names) as [L|] eqn:E2; [|discriminate]. apply andb_prop in H as [Hwf Hf].
  exists names, n, flds, L. split; [reflexivity|]. split; [exact E2|].
  intros d Hvd. now apply encode_places_standard.
Qed.

(* ---------- (2) length fields ---------- *)

(* X[a:b] = scsi_int_to_ba(len(X) - c, b - a) *)
Definition store_len (r : bytes) (a b c : nat) : bytes :=
  (firstn a r ++ int_to_ba (N.of_nat (length r - c)) (b - a) ++ skipn b r)%list.

Lemma store_len_spec r a b c : (a <= b <= length r)%nat -> N.of_nat (length r - c) < 256 ^ N.of_nat (b - a) ->
  length (store_len r a b c) = length r /\
  ba_to_int (slice (store_len r a b c) a b) = N.of_nat (length r - c).
Proof.
  intros Hab Hfit. unfold store_len. split.
  - rewrite !app_length, firstn_length, int_to_ba_length, skipn_length. lia.
  - unfold slice. rewrite skipn_app, skipn_all2 by (rewrite firstn_length; lia).
    rewrite firstn_length. replace (a - Nat.min a (length r))%nat with 0%nat by lia. cbn [skipn app].
    rewrite firstn_app, int_to_ba_length, Nat.sub_diag. cbn [firstn].
    rewrite app_nil_r, <- (int_to_ba_length (N.of_nat (length r - c)) (b - a)) at 1. rewrite firstn_all.
    rewrite ba_to_int_to_ba. now apply N.mod_small.
Qed.

Definition triple_eqb (x y : nat * nat * nat) : bool :=
  let '(a, b, c) := x in let '(a', b', c') := y in Nat.eqb a a' && Nat.eqb b b' && Nat.eqb c c'.

(* every builder the specification names stores exactly the standard's length, and no builder stores any other *)
Definition length_stores_ok : bool :=
  forallb (fun r => existsb (fun s => String.eqb (fst s) (fst r) && triple_eqb (snd s) (snd r)) length_stores) length_rules
  && forallb (fun s => existsb (fun r => String.eqb (fst s) (fst r) && triple_eqb (snd s) (snd r)) length_rules) length_stores
  && match unknown_builders with [] => true | _ => false end.

(* ---------- (3) iSCSI name padding ---------- *)

Lemma pad4_len_spec n : pad4_len n mod 4 = 0 /\ n + 1 <= pad4_len n /\ pad4_len n <= n + 4.
Proof.
  unfold pad4_len. destruct (N.eqb_spec ((n + 1) mod 4) 0) as [E|E].
  - split; [assumption|]. split; lia.
  - pose proof (N.mod_upper_bound (n + 1) 4 ltac:(discriminate)) as B.
    pose proof (N.div_mod (n + 1) 4 ltac:(discriminate)) as D.
    set (m := (n + 1) mod 4) in *. set (q := (n + 1) / 4) in *.
    split; [|split; lia].
    replace (n + 1 + (4 - m)) with ((q + 1) * 4) by lia.
    apply N.mod_mul. discriminate.
Qed.
