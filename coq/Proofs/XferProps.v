(* Proofs/XferProps.v — what the regenerated transfer set-up of ISCSIDevice.execute computes, for all buffer lengths. *)
From Coq Require Import String Lia.
From PS Require Import Base.Bytes Base.Result Model.Exec Model.Xfer Gen.Misc.
Open Scope string_scope.
Open Scope N_scope.

(* the regenerated transfer set-up: data-out takes precedence, then data-in, else no transfer *)
Lemma iscsi_xfer_spec lo li :
  iscsi_xfer lo li = Some (if negb (lo =? 0) then ("SCSI_XFER_WRITE", lo)
                           else if negb (li =? 0) then ("SCSI_XFER_READ", li) else ("SCSI_XFER_NONE", 0)).
Proof.
  unfold iscsi_xfer, iscsi_xfer_prog, iscsi_xfer_vars. cbn -[N.eqb].
  destruct (lo =? 0); destruct (li =? 0); reflexivity.
Qed.

Lemma sgio_args_checked : sgio_args_ok = true. Proof. vm_compute. reflexivity. Qed.

