(* Proofs/StackCodec.v — what a standards-conformant target reads out of a CDB that encode_dict built:
   generic lemmas linking the library's mask tables to Spec/Target.v's positional reader [rd]. *)
From Coq Require Import String Lia.
From PS Require Import Base.Bytes Base.Result Model.Converter Proofs.Codec Proofs.Layout Proofs.CdbSpec.
From PS Require Import Spec.CdbFormats Spec.Target.
Set Default Timeout 60.
Open Scope string_scope.
Open Scope N_scope.

Lemma rd_tgt_field r s b m w g :
  sgeom (length r) (F s b m w) = Some g -> rd r b m w = tgt_field r g.
Proof.
  unfold sgeom, rd, tgt_field. cbn [sf_byte sf_msb sf_width].
  destruct ((b <? N.of_nat (length r)) && (m <? 8) &&
            (w <=? 8 * (N.of_nat (length r) - b - 1) + m + 1) && (1 <=? w)); [|discriminate].
  intros H. inversion H. reflexivity.
Qed.

(* a standard position (key of the library's table, byte, msb, width) *)
Definition pos := (string * N * N * N)%type.

Definition ogeom_eqb (a b : option geom) : bool :=
  match a, b with Some x, Some y => geom_eqb x y | _, _ => false end.

Definition field_at (n : nat) (L : layout) (p : pos) : bool :=
  let '(k, b, m, w) := p in
  match lookup k L with
  | Some (Mask mk o) => ogeom_eqb (geom_of n (Mask mk o)) (sgeom n (F Opcode b m w))
  | _ => false
  end.

Definition fields_at (n : nat) (L : layout) (ps : list pos) : bool := forallb (field_at n L) ps.

(* the CDB exists, has the right length, and the target reads every listed field back *)
Theorem encode_rd n L d ps :
  wf_layout n L = true -> fields_at n L ps = true -> valid_dict n L d = true ->
  exists r, encode_dict d L (zeros n) = Ok r /\ length r = n /\ bytes_ok r /\
    forall k b m w x, In (k, b, m, w) ps -> In (k, VI x) d -> rd r b m w = x.
Proof.
  intros Hwf Hps Hvd.
  destruct (valid_dict_parts _ _ _ Hvd) as (Hnd & Hvals).
  destruct (encode_dict_bits n L d (zeros n) (zeros_length n) (bytes_ok_zeros n) Hvals) as (r & E & Lr & Or & Br).
  exists r. split; [assumption|]. split; [assumption|]. split; [assumption|].
  intros k b m w x Hin Hd.
  unfold fields_at in Hps. rewrite forallb_forall in Hps. specialize (Hps _ Hin).
  unfold field_at in Hps. destruct (lookup k L) as [f|] eqn:Hl; [|discriminate].
  destruct f as [mk o|]; [|discriminate].
  destruct (geom_of n (Mask mk o)) as [g|] eqn:Hg; [|discriminate].
  destruct (sgeom n (F Opcode b m w)) as [g'|] eqn:Hs; [|discriminate].
  cbn [ogeom_eqb] in Hps. apply geom_eqb_eq in Hps. subst g'.
  rewrite <- Lr in Hs. rewrite (rd_tgt_field r Opcode b m w g Hs).
  destruct (decode_encode_field n L d (zeros n) k (Mask mk o) Hwf Hvd (zeros_length n) (bytes_ok_zeros n)
              (lookup_In _ _ _ Hl)) as (r2 & E2 & _ & _ & Hdec & _).
  rewrite E in E2. inversion E2; subst r2.
  specialize (Hdec (VI x) Hd (ba_to_int_zeros n)).
  destruct (decode1_bits n r (Mask mk o) g Hg Lr Or) as (v' & x' & D & Vx & _ & Bits).
  rewrite Hdec in D. inversion D; subst v'. cbn [vint] in Vx. inversion Vx; subst x'.
  unfold tgt_field. symmetry. now apply bits_divmod.
Qed.

(* validity of a dictionary of integers from per-key width bounds *)
Definition width_of (n : nat) (L : layout) (k : string) : option N :=
  match lookup k L with
  | Some (Mask mk o) => match geom_of n (Mask mk o) with Some g => Some (g_w g) | None => None end
  | _ => None
  end.

Fixpoint ranges_ok (n : nat) (L : layout) (d : list (string * value)) : Prop :=
  match d with
  | [] => True
  | (k, VI x) :: d' => match width_of n L k with Some w => x < 2 ^ w | None => False end /\ ranges_ok n L d'
  | (k, VB _) :: d' => False
  end.

Lemma valid_dict_ranges n L d :
  nodupb (map fst d) = true -> ranges_ok n L d -> valid_dict n L d = true.
Proof.
  intros Hnd Hr. unfold valid_dict. rewrite Hnd. cbn [andb].
  clear Hnd. induction d as [|[k v] d IH]; [reflexivity|].
  cbn [ranges_ok] in Hr. destruct v as [x|bb]; [|contradiction]. destruct Hr as [Hk Hr].
  cbn [forallb]. rewrite (IH Hr), andb_true_r.
  unfold val_okb. cbn [fst snd]. unfold width_of in Hk.
  destruct (lookup k L) as [f|]; [|contradiction].
  destruct f as [mk o|u o len]; [|contradiction].
  destruct (geom_of n (Mask mk o)) as [g|] eqn:Hg; [|contradiction].
  cbn [vint]. now apply N.ltb_lt.
Qed.
