(* Proofs/CdbSpec.v — from the decidable check [ctor_matches c spec] on a regenerated constructor
   to the C01 statement for ALL arguments: the CDB has the SAM length and carries each argument,
   the operation code and the service action at the standard's byte/bit position, every other bit
   zero. *)
From Coq Require Import String.
From PS Require Import Base.Bytes Base.Result Model.Converter Model.Command Model.Ctor Model.CorrUtil.
From PS Require Import Proofs.Codec Proofs.Layout Proofs.CtorSound Spec.CdbFormats.
Set Default Timeout 60.
Open Scope string_scope.
Open Scope N_scope.

(* ---------- standard position -> bit range of the big-endian integer of an n-byte CDB ---------- *)

Definition sgeom (n : nat) (sf : sfield) : option geom :=
  let hi := 8 * (N.of_nat n - sf_byte sf - 1) + sf_msb sf + 1 in      (* one above the field's top bit *)
  if (sf_byte sf <? N.of_nat n) && (sf_msb sf <? 8) && (sf_width sf <=? hi) && (1 <=? sf_width sf)
  then Some (mkGeom (hi - sf_width sf) (sf_width sf)) else None.

(* what a standards-conformant target reads at that position *)
Definition tgt_field (r : bytes) (g : geom) : N := (ba_to_int r / 2 ^ g_lo g) mod 2 ^ g_w g.

Definition geom_eqb (a b : geom) : bool := (g_lo a =? g_lo b) && (g_w a =? g_w b).

(* ---------- splitting a body into the recognised shape ---------- *)

Fixpoint split_init (body : list gstmt) : option (list gstmt * iexpr * iexpr * list gstmt) :=
  match body with
  | [] => None
  | (g, s) :: b' =>
      match g, s with
      | [], SInit eo ei => Some ([], eo, ei, b')
      | _, _ => match split_init b' with
                | Some (pre, eo, ei, rest) => Some ((g, s) :: pre, eo, ei, rest)
                | None => None
                end
      end
  end.

Fixpoint split_last (rest : list gstmt) : option (list gstmt * list (string * iexpr)) :=
  match rest with
  | [] => None
  | (g, s) :: r' =>
      match r' with
      | [] => match g, s with
              | [], SBuild O kvs => Some ([], kvs)
              | _, _ => None
              end
      | _ => match split_last r' with
             | Some (mid, kvs) => Some ((g, s) :: mid, kvs)
             | None => None
             end
      end
  end.

Definition shape_of (body : list gstmt) : option shape :=
  match split_init body with
  | None => None
  | Some (pre, eo, ei, rest) =>
      match split_last rest with
      | None => None
      | Some (mid, kvs) => Some (mkShape pre eo ei mid kvs)
      end
  end.

Lemma split_init_ok body : forall pre eo ei rest,
  split_init body = Some (pre, eo, ei, rest) -> body = (pre ++ ([], SInit eo ei) :: rest)%list.
Proof.
  induction body as [|[g s] b IH]; intros pre eo ei rest H; cbn [split_init] in H; [discriminate|].
  destruct g as [|g0 g']; [destruct s|];
    try (destruct (split_init b) as [[[[p1 e1] e2] r1]|] eqn:E; [|discriminate];
         inversion H; subst; cbn [app]; f_equal; now apply IH).
  inversion H; subst. reflexivity.
Qed.

Lemma split_last_ok rest : forall mid kvs,
  split_last rest = Some (mid, kvs) -> rest = (mid ++ [([], SBuild 0 kvs)])%list.
Proof.
  induction rest as [|[g s] r IH]; intros mid kvs H; cbn [split_last] in H; [discriminate|].
  destruct r as [|x r'].
  - destruct g; [|discriminate]. destruct s; try discriminate. destruct npos; [|discriminate].
    inversion H; subst. reflexivity.
  - destruct (split_last (x :: r')) as [[m k]|] eqn:E; [|discriminate].
    inversion H; subst. cbn [app]. f_equal. now apply IH.
Qed.

Lemma shape_of_ok body sh : shape_of body = Some sh -> shape_body sh = body.
Proof.
  unfold shape_of. destruct (split_init body) as [[[[pre eo] ei] rest]|] eqn:E1; [|discriminate].
  destruct (split_last rest) as [[mid kvs]|] eqn:E2; [|discriminate].
  intros H; inversion H; subst. unfold shape_body. cbn [sh_pre sh_eo sh_ei sh_mid sh_kvs].
  rewrite (split_init_ok _ _ _ _ _ E1), (split_last_ok _ _ _ E2). reflexivity.
Qed.

(* ---------- the decidable check ---------- *)

Definition src_matches (params unassigned : list string) (s : src) (e : iexpr) : bool :=
  match s, e with
  | Arg x, EVar y => String.eqb x y && memb_s x params && memb_s x unassigned
  | Opcode, EOpValue => true
  | SAct n, ESA m => String.eqb n m
  | Const k, EConst j => k =? j
  | ParamListLen, ELen _ => true
  | Fn fn x, ECall fn' [y] => String.eqb fn fn' && String.eqb x y && memb_s x params && memb_s x unassigned
  | _, _ => false
  end.

Definition kv_ok (n : nat) (L : layout) (params unassigned : list string) (fields : list sfield)
           (kv : string * iexpr) : bool :=
  match lookup (fst kv) L with
  | None => false                      (* the value would silently not reach the CDB *)
  | Some f =>
      match geom_of n f with
      | None => false
      | Some g => existsb (fun sf => src_matches params unassigned (sf_src sf) (snd kv)
                                     && match sgeom n sf with Some g' => geom_eqb g g' | None => false end) fields
      end
  end.

Definition field_covered (n : nat) (L : layout) (params unassigned : list string)
           (kvs : list (string * iexpr)) (sf : sfield) : bool :=
  existsb (fun kv => src_matches params unassigned (sf_src sf) (snd kv)
                     && match lookup (fst kv) L with
                        | Some f => match geom_of n f, sgeom n sf with
                                    | Some g, Some g' => geom_eqb g g'
                                    | _, _ => false
                                    end
                        | None => false
                        end) kvs.

Definition ctor_matches (c : ctor) (sp : cdb_spec) : bool :=
  match shape_of (c_body c) with
  | None => false
  | Some sh =>
      let n := sp_len sp in
      let params := map fst (c_params c) in
      let asg := assigned (sh_pre sh ++ sh_mid sh) in
      let unassigned := filter (fun x => negb (memb_s x asg)) params in
      shape_ok sh && wf_layout n (c_bits c) && nodupb (map fst (sh_kvs sh))
      && forallb (kv_ok n (c_bits c) params unassigned (sp_fields sp)) (sh_kvs sh)
      && forallb (field_covered n (c_bits c) params unassigned (sh_kvs sh)) (sp_fields sp)
  end.

(* what the source of a standard field denotes, given the caller's bound arguments and the opcode *)
Definition src_denotes (ρ0 : env) (op : opcode) (s : src) (v : N) : Prop :=
  match s with
  | Arg x => lookup x ρ0 = Some (CInt v)
  | Opcode => v = op_value op
  | SAct n => lookup n (op_sa op) = Some v
  | Const k => v = k
  | ParamListLen => True
  | Fn _ _ => True
  end.

(* ---------- helper lemmas ---------- *)

Lemma eval_kvs_keys ext op ρ kvs d : eval_kvs ext op ρ kvs = Ok d -> map fst d = map fst kvs.
Proof.
  revert d; induction kvs as [|[k e] kvs IH]; intros d H; cbn [eval_kvs] in H.
  - inversion H; reflexivity.
  - destruct (eval ext op ρ e); [|discriminate]. destruct (eval_kvs ext op ρ kvs); [|discriminate].
    inversion H; subst. cbn [map fst]. f_equal. now apply IH.
Qed.

Lemma eval_kvs_In ext op ρ kvs d k e : eval_kvs ext op ρ kvs = Ok d -> In (k, e) kvs ->
  exists v, In (k, v) d /\ eval ext op ρ e = Ok v.
Proof.
  revert d; induction kvs as [|[k1 e1] kvs IH]; intros d H Hin; [contradiction|].
  cbn [eval_kvs] in H. destruct (eval ext op ρ e1) as [v1|] eqn:E1; [|discriminate].
  destruct (eval_kvs ext op ρ kvs) as [d1|] eqn:E2; [|discriminate]. inversion H; subst.
  destruct Hin as [E|Hin].
  - inversion E; subst. exists v1. split; [now left|assumption].
  - destruct (IH d1 eq_refl Hin) as (v & Hv & Ev). exists v. split; [now right|assumption].
Qed.

Lemma ints_In d k v : all_ints d = true -> In (k, v) d -> exists n, v = CInt n /\ In (k, VI n) (ints d).
Proof.
  intros Ha Hin. unfold all_ints in Ha. rewrite forallb_forall in Ha. specialize (Ha _ Hin). cbn [snd] in Ha.
  destruct v; try discriminate. exists n. split; [reflexivity|].
  unfold ints. apply in_map_iff. exists (k, CInt n). split; [reflexivity|assumption].
Qed.

Lemma ints_keys d : map fst (ints d) = map fst d.
Proof. unfold ints. rewrite map_map. apply map_ext. intros [k v]; reflexivity. Qed.

Lemma geom_eqb_eq a b : geom_eqb a b = true -> a = b.
Proof.
  destruct a, b. unfold geom_eqb. simpl. intros H. apply andb_prop in H as [A B].
  apply N.eqb_eq in A, B. now subst.
Qed.

Lemma filter_unassigned x params asg :
  memb_s x (filter (fun y => negb (memb_s y asg)) params) = true -> ~ In x asg.
Proof.
  intros H Hin. apply memb_s_In in H. apply filter_In in H as [_ H].
  apply negb_true_iff in H.
  assert (M : memb_s x asg = true).
  { clear H. induction asg as [|a asg IH]; [contradiction|]. cbn [memb_s].
    destruct Hin as [->|Hin]; [now rewrite String.eqb_refl|]. rewrite (IH Hin). apply orb_true_r. }
  congruence.
Qed.

(* ---------- the theorem ---------- *)

Section Main.
  Variable ext : string -> list cval -> result cval.
  Variable init_len : N -> result nat.

  Theorem cdb_format_sound (c : ctor) (sp : cdb_spec) :
    ctor_matches c sp = true ->
    forall op G pos kw G' cm,
      init_len (op_value op) = Ok (sp_len sp) ->
      run_ctor ext op c init_len G pos kw = (G', Ok cm) ->
      exists ρ0 d r,
        bind_args c pos kw = Ok ρ0 /\ cdb cm = Some r /\ G' = G /\
        (* d: the values handed to build_cdb.  When they are integers within their fields' widths: *)
        (all_ints d = true -> valid_dict (sp_len sp) (c_bits c) (ints d) = true ->
           length r = sp_len sp /\ bytes_ok r /\
           encode_dict (ints d) (c_bits c) (zeros (sp_len sp)) = Ok r /\
           (* every field the standard defines carries its source's value at the standard's position *)
           (forall sf, In sf (sp_fields sp) ->
              exists g v, sgeom (sp_len sp) sf = Some g /\ tgt_field r g = v /\ src_denotes ρ0 op (sf_src sf) v) /\
           (* and every other bit is zero *)
           (forall j, (forall sf g, In sf (sp_fields sp) -> sgeom (sp_len sp) sf = Some g -> in_field g j = false) ->
              N.testbit (ba_to_int r) j = false)).
  Proof.
    intros Hm op G pos kw G' cm Hlen Hrun.
    unfold ctor_matches in Hm. destruct (shape_of (c_body c)) as [sh|] eqn:Hsh; [|discriminate].
    apply andb_prop in Hm as [Hm Hcov]. apply andb_prop in Hm as [Hm Hkvs].
    apply andb_prop in Hm as [Hm Hnd]. apply andb_prop in Hm as [Hshape Hwf].
    set (params := map fst (c_params c)) in *.
    set (asg := assigned (sh_pre sh ++ sh_mid sh)) in *.
    set (unas := filter (fun x => negb (memb_s x asg)) params) in *.
    unfold run_ctor in Hrun. destruct (bind_args c pos kw) as [ρ0|] eqn:Hb; [|inversion Hrun].
    rewrite <- (shape_of_ok _ _ Hsh) in Hrun.
    destruct (run ext op c init_len G (ρ0, cmd0) (shape_body sh)) as [G1 [[ρ1 c1]|e]] eqn:Er; [|inversion Hrun].
    inversion Hrun; subst G1 c1. clear Hrun.
    destruct (ctor_shape_sound ext op c init_len sh G ρ0 G' ρ1 cm (sp_len sp) Hshape Hlen Er)
      as (ρb & d & r & Hev & Hagree & Hcdb & Henc & HG).
    exists ρ0, d, r. split; [reflexivity|]. split; [assumption|]. split; [assumption|].
    intros Hints Hvalid.
    assert (Hkeys : map fst d = map fst (sh_kvs sh)) by (eapply eval_kvs_keys; eassumption).
    rewrite (encode_cdict_ints d (c_bits c) (zeros (sp_len sp)) Hints) in Henc.
    destruct (valid_dict_parts _ _ _ Hvalid) as (Hndd & Hvals).
    destruct (encode_dict_bits (sp_len sp) (c_bits c) (ints d) (zeros (sp_len sp)) (zeros_length (sp_len sp)) (bytes_ok_zeros (sp_len sp)) Hvals)
      as (r' & E' & Lr & Or & Br).
    rewrite Henc in E'. inversion E'; subst r'. clear E'.
    split; [assumption|]. split; [assumption|]. split; [assumption|]. split.
    - (* standard fields *)
      intros sf Hsf. rewrite forallb_forall in Hcov. specialize (Hcov sf Hsf).
      unfold field_covered in Hcov. apply existsb_exists in Hcov as ([key e] & Hkv & Hc).
      cbn [fst snd] in Hc. apply andb_prop in Hc as [Hsrc Hg].
      destruct (lookup key (c_bits c)) as [f|] eqn:Hl; [|discriminate].
      destruct (geom_of (sp_len sp) f) as [g|] eqn:Hgf; [|discriminate].
      destruct (sgeom (sp_len sp) sf) as [g'|] eqn:Hgs; [|discriminate].
      apply geom_eqb_eq in Hg. subst g'.
      destruct (eval_kvs_In ext op ρb _ d key e Hev Hkv) as (v & Hvd & Hve).
      destruct (ints_In d key v Hints Hvd) as (x & -> & Hxi).
      exists g, (tgt_field r g). split; [reflexivity|]. split; [reflexivity|].
      (* the decoded integer at that position is x *)
      assert (Hx : tgt_field r g = x).
      { destruct (decode_encode_field (sp_len sp) (c_bits c) (ints d) (zeros (sp_len sp)) key f Hwf Hvalid (zeros_length (sp_len sp)) (bytes_ok_zeros (sp_len sp))
                    (lookup_In _ _ _ Hl)) as (r2 & E2 & _ & _ & Hdec & _).
        rewrite Henc in E2. inversion E2; subst r2.
        specialize (Hdec (VI x) Hxi (ba_to_int_zeros (sp_len sp))).
        destruct (decode1_bits (sp_len sp) r f g Hgf Lr Or) as (v' & x' & D & Vx & _ & Bits).
        rewrite Hdec in D. inversion D; subst v'.
        destruct f as [m o|u o len]; cbn [vint] in Vx; [|discriminate]. inversion Vx; subst x'.
        unfold tgt_field. symmetry. now apply bits_divmod. }
      rewrite Hx.
      (* what the source denotes *)
      unfold src_matches in Hsrc. destruct (sf_src sf) as [y| |nm|k| |fn y]; destruct e; try discriminate; cbn [src_denotes]; try exact I.
      + apply andb_prop in Hsrc as [Hsrc Hun]. apply andb_prop in Hsrc as [Hxy _]. apply String.eqb_eq in Hxy. subst x0.
        rewrite eval_eq in Hve. unfold get in Hve.
        rewrite <- (Hagree y (filter_unassigned y params asg Hun)).
        destruct (lookup y ρb); [|discriminate]. now inversion Hve.
      + rewrite eval_eq in Hve. now inversion Hve.
      + apply String.eqb_eq in Hsrc. subst name. rewrite eval_eq in Hve.
        destruct (lookup nm (op_sa op)); [|discriminate]. now inversion Hve.
      + apply N.eqb_eq in Hsrc. rewrite eval_eq in Hve. inversion Hve. congruence.
    - (* all other bits zero *)
      intros j Hj. rewrite Br, ba_to_int_zeros, N.bits_0.
      apply apply_writes_untouched. intros [k v] f g Hin Hl Hg. cbn [fst] in Hl.
      assert (Hk : In k (map fst (sh_kvs sh))).
      { rewrite <- Hkeys, <- ints_keys. change k with (fst (k, v)). now apply in_map. }
      apply in_map_iff in Hk as ([k' e] & Ek & Hkv). cbn [fst] in Ek. subst k'.
      rewrite forallb_forall in Hkvs. specialize (Hkvs _ Hkv). unfold kv_ok in Hkvs. cbn [fst snd] in Hkvs.
      rewrite Hl, Hg in Hkvs. apply existsb_exists in Hkvs as (sf & Hsf & Hc).
      apply andb_prop in Hc as [_ Hc]. destruct (sgeom (sp_len sp) sf) as [g'|] eqn:Hgs; [|discriminate].
      apply geom_eqb_eq in Hc. subst g'. eapply Hj; eassumption.
  Qed.

  Lemma ctor_matches_wf c sp : ctor_matches c sp = true -> wf_layout (sp_len sp) (c_bits c) = true.
  Proof.
    unfold ctor_matches. destruct (shape_of (c_body c)); [|discriminate]. intros Hm.
    apply andb_prop in Hm as [Hm _]. apply andb_prop in Hm as [Hm _]. apply andb_prop in Hm as [Hm _].
    apply andb_prop in Hm as [_ Hwf]. exact Hwf.
  Qed.
End Main.
