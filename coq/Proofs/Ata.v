(* Proofs/Ata.v — SAT transfer rules for the two ATA PASS-THROUGH constructors: a complete sweep of the
   flag space (T_LENGTH x BYT_BLOK x T_TYPE x T_DIR x block size x extra_tl x data present x COUNT in {0, 5, 256} x FEATURES in {0, 3})
   evaluated inside the kernel on the REGENERATED constructor IR.  The remaining arguments (protocol, lba,
   command, ...) are fixed: the sweep is finite and says so.  COUNT / FEATURES 0 matter: the SAT length is the unsigned number in the
   field, so 0 announces no data at all (it is NOT the ATA "0 means 256 sectors" rule). *)
From Coq Require Import String.
From PS Require Import Base.Bytes Base.Result Model.Converter Model.Command Model.Ctor Model.InitCdb Model.CorrUtil.
From PS Require Import Spec.CdbFormats.
Open Scope string_scope.
Open Scope N_scope.

Record ata_flags := mkAF { af_tlen : N; af_bb : N; af_tt : N; af_dir : N; af_bs : N; af_extra : option N; af_data : option bytes; af_cnt : N; af_feat : N }.

Definition all_flags : list ata_flags :=
  flat_map (fun tl => flat_map (fun bb => flat_map (fun tt => flat_map (fun dir => flat_map (fun bs =>
  flat_map (fun ex => flat_map (fun da => flat_map (fun cnt => map (fun ft => mkAF tl bb tt dir bs ex da cnt ft) [0; 3]) [0; 5; 256])
    [None; Some [1; 2; 3]])
    [None; Some 7]) [0; 512; 4096]) [0; 1]) [0; 1]) [0; 1]) [0; 1; 2; 3].

Definition ata_kw (f : ata_flags) : list (string * cval) :=
  [("protocal", CInt 4); ("t_length", CInt (af_tlen f)); ("byte_block", CInt (af_bb f)); ("t_dir", CInt (af_dir f));
   ("t_type", CInt (af_tt f)); ("off_line", CInt 0); ("fetures", CInt (af_feat f)); ("count", CInt (af_cnt f)); ("lba", CInt 0);
   ("command", CInt 236); ("blocksize", CInt (af_bs f));
   ("extra_tl", match af_extra f with Some n => CInt n | None => CNone end);
   ("data", match af_data f with Some b => CBytes b | None => CNone end)].

(* what SAT-3 prescribes for these flags: Some (out_len, in_len), or None = refused (no block size) *)
Definition ata_expected (f : ata_flags) : option (N * N) :=
  if negb (af_tlen f =? 0) && negb (af_bb f =? 0) && negb (af_tt f =? 0) && (af_bs f =? 0) then None else
  let n := ata_count (af_tlen f) (af_feat f) (af_cnt f) (af_extra f) * ata_unit (af_bb f) (af_tt f) (af_tlen f) (af_bs f) in
  if af_dir f =? 0 then Some (n, 0) else Some (0, n).

Definition buf_is (v : cval) (n : N) (data : option bytes) (is_data_dir : bool) : bool :=
  let dflt := match v with CZeros m => m =? n | _ => false end in
  match data, is_data_dir with
  | Some b, true =>
      match b with
      | [] => dflt
      | _ => match v with CBytes b' => bytes_eqb b b' | _ => false end   (* the caller's data *)
      end
  | _, _ => dflt
  end.

Definition ata_case_ok (c : ctor) (opv : N) (f : ata_flags) : bool :=
  match snd (run_ctor (fun _ _ => Ok (CInt 0)) (mkOp opv []) c init_cdb G0 [] (ata_kw f)), ata_expected f with
  | Raise MissingBlocksize, None => true
  | Ok cm, Some (no, ni) =>
      buf_is (dataout cm) no (af_data f) (af_dir f =? 0) && buf_is (datain cm) ni (af_data f) (negb (af_dir f =? 0))
  | _, _ => false
  end.

Definition ata_ok (c : ctor) (opv : N) : bool := forallb (ata_case_ok c opv) all_flags.

Lemma ata_ok_sound c opv : ata_ok c opv = true -> forall f, In f all_flags -> ata_case_ok c opv f = true.
Proof. unfold ata_ok. intros H f Hf. rewrite forallb_forall in H. now apply H. Qed.
