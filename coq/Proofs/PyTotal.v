(* Proofs/PyTotal.v — what the REGENERATED decoder bodies (Gen/PyFuncs.v) do on EVERY byte string, under Model/Py.v: they return (they do
   not raise, they do not run out of fuel) after at most len/stride + c loop iterations, and the result is the list of the successive
   stride-sized pieces of the announced part of the buffer, each decoded with the library's table.  This is C11 (termination within work
   proportional to the buffer, for hostile input) and the all-input generalisation of the C04 exactness theorems. *)
From Coq Require Import String ZArith List Bool Lia DecimalString.
From PS Require Import Base.Bytes Base.Result Model.Converter Model.Py Proofs.FacadeState Proofs.PyLemmas Proofs.PyParsers Gen.Tables Gen.PyFuncs.
Import ListNotations.
Set Default Timeout 120.
Open Scope string_scope.
Open Scope nat_scope.

Local Arguments ba_to_int : simpl never.
Local Arguments py_slice : simpl never.
Local Arguments decode_bits : simpl never.
Local Arguments decode_total : simpl never.
Local Arguments dict_update : simpl never.
Local Arguments dict_of_decoded : simpl never.
Local Arguments run : simpl never.
Local Arguments call_with : simpl never.
Local Arguments Z.add : simpl never.
Local Arguments Z.of_N : simpl never.
Local Arguments Z.of_nat : simpl never.
Local Arguments Z.eqb : simpl never.
Local Arguments length : simpl never.
Local Arguments app : simpl never.
Local Arguments map : simpl never.
Local Arguments clip : simpl never.
Local Arguments firstn : simpl never.
Local Arguments skipn : simpl never.

Ltac lk := repeat (rewrite lookup_set_same || rewrite lookup_set_other by (let H := fresh in intro H; discriminate H)).
Ltac step := rewrite exec_block_cons; cbn [exec exec_simple eval eval_list eval_opt]; lk.

(* the successive k-sized pieces of a list (the last one may be shorter) *)
Fixpoint chunks (fuel k : nat) (l : bytes) : list bytes :=
  match fuel with
  | O => []
  | S f => match l with [] => [] | _ => firstn k l :: chunks f k (skipn k l) end
  end.

Lemma chunks_nil fuel k : chunks fuel k [] = [].
Proof. destruct fuel; reflexivity. Qed.

Lemma chunks_cons fuel k l : l <> [] -> chunks (S fuel) k l = firstn k l :: chunks fuel k (skipn k l).
Proof. destruct l; [congruence|reflexivity]. Qed.

Lemma chunks_length fuel k l : length (chunks fuel k l) <= fuel.
Proof.
  revert l. induction fuel as [|f IH]; intros l; [reflexivity|]. destruct l as [|a l]; [rewrite chunks_nil; change (length (@nil bytes)) with 0; lia|].
  rewrite chunks_cons by discriminate. change (length (firstn k (a :: l) :: chunks f k (skipn k (a :: l)))) with (S (length (chunks f k (skipn k (a :: l))))).
  specialize (IH (skipn k (a :: l))). lia.
Qed.

Lemma py_slice_to {A} (l : list A) (k : nat) : py_slice l None (Some (Z.of_nat k)) = firstn k l.
Proof.
  unfold py_slice, clip. destruct (Z.ltb_spec (Z.of_nat k) 0); [lia|]. change (skipn 0 l) with l. rewrite Nat.sub_0_r.
  destruct (Nat.le_gt_cases k (length l)).
  - f_equal. lia.
  - replace (Z.to_nat (Z.min (Z.of_nat k) (Z.of_nat (length l)))) with (length l) by lia. rewrite firstn_all. symmetry. apply firstn_all2. lia.
Qed.

Lemma py_slice_from {A} (l : list A) (k : nat) : py_slice l (Some (Z.of_nat k)) None = skipn k l.
Proof.
  unfold py_slice, clip. destruct (Z.ltb_spec (Z.of_nat k) 0); [lia|].
  destruct (Nat.le_gt_cases k (length l)).
  - f_equal. lia.
  - replace (Z.to_nat (Z.min (Z.of_nat k) (Z.of_nat (length l)))) with (length l) by lia. rewrite skipn_all. symmetry. apply skipn_all2. lia.
Qed.

(* ---------------------------------------------------------------- GET LBA STATUS, every input *)
Notation PF_gls := PF_scsi_cdb_getlbastatus_GetLBAStatus_unmarshall_datain.

Definition gls_inv_all (total : list bytes) (ds : list bytes) (ρ : env) : Prop :=
  exists rest done, ds = chunks (length rest) 16 rest /\ total = (done ++ ds)%list /\
    lookup "_data" ρ = Some (PBytes rest) /\ lookup "_lbas" ρ = Some (PList (map gls_desc done)) /\ lookup "result" ρ = Some (PDict []).

Lemma skipn_shorter (l : bytes) k : l <> [] -> 1 <= k -> length (skipn k l) < length l.
Proof. intros Hl Hk. rewrite skipn_length. destruct l; [congruence|]. change (length (n :: l)) with (S (length l)). lia. Qed.

Lemma chunks_more_fuel k l : 1 <= k -> forall f1 f2, length l <= f1 -> length l <= f2 -> chunks f1 k l = chunks f2 k l.
Proof.
  intros Hk f1. revert l. induction f1 as [|f1 IH]; intros l f2 H1 H2.
  - destruct l; [now rewrite !chunks_nil|]. change (length (n :: l)) with (S (length l)) in H1. lia.
  - destruct l as [|a l]; [now rewrite !chunks_nil|]. destruct f2 as [|f2]; [change (length (a :: l)) with (S (length l)) in H2; lia|].
    rewrite !chunks_cons by discriminate. f_equal.
    pose proof (skipn_shorter (a :: l) k ltac:(discriminate) Hk). apply IH; lia.
Qed.

Theorem getlbastatus_total : forall (data : bytes) f, length data + 3 <= f ->
  let announced := py_slice data (Some 8%Z) (Some (Z.of_N (ba_to_int (py_slice data None (Some 4%Z))) + 4)%Z) in
  call_fun all_tables py_program f GLS [PBytes data] = Ok (PDict [("lbas", PList (map gls_desc (chunks (length announced) 16 announced)))]).
Proof.
  intros data f Hf announced.
  unfold call_fun, call_with. rewrite gls_lookup. cbn [fn_params bind_params PF_gls].
  destruct f as [|[|f]]; try lia. rewrite run_S, exec_if. cbn [eval truthy].
  cbn [fn_body PF_gls].
  step. step. cbn [lookup String.eqb Ascii.eqb Bool.eqb slice_eval opt_int as_int bin_eval]. fold announced.
  step.
  rewrite exec_block_cons, <- run_S.
  assert (Hal : length announced <= length data).
  { unfold announced, py_slice. destruct (clip (length data) 8); rewrite firstn_length, ?skipn_length; lia. }
  pose proof (while_consumes all_tables py_program (ELen (EVar "_data")) (while_body PF_gls 3) _ (gls_inv_all (chunks (length announced) 16 announced)) 0) as W.
  match goal with |- context [run _ _ _ (SWhile _ _) ?r0] =>
    destruct (W) with (ds := chunks (length announced) 16 announced) (f := S f) (ρ := r0) as (ρ' & Hrun & Hinv) end.
  - (* the condition is true exactly while pieces remain *)
    intros f0 ds ρ (rest & done & Hds & Htot & Hd & Hl & Hr). cbn [eval]. rewrite Hd. cbn [len_eval]. eexists. split; [reflexivity|]. cbn [truthy].
    destruct rest as [|a rest]; [rewrite Hds, chunks_nil; reflexivity|].
    change (length (a :: rest)) with (S (length rest)) in *. rewrite Hds. rewrite chunks_cons by discriminate.
    destruct (Z.eqb_spec (Z.of_nat (S (length rest))) 0); [lia|reflexivity].
  - (* one iteration *)
    intros f0 d ds ρ _ (rest & done & Hds & Htot & Hd & Hl & Hr).
    destruct rest as [|a rest]; [rewrite chunks_nil in Hds; discriminate|].
    change (length (a :: rest)) with (S (length rest)) in Hds. rewrite chunks_cons in Hds by discriminate. injection Hds as -> ->.
    cbn [while_body fn_body nth PF_gls].
    step. step. rewrite Hd. cbn [slice_eval opt_int as_int]. rewrite gls_table. change 16%Z with (Z.of_nat 16). rewrite py_slice_to.
    rewrite decode_bits_total by apply gls_wf. unfold with_var. lk.
    rewrite dict_update_nil by (unfold dict_of_decoded; rewrite map_map; cbn [fst]; rewrite decode_total_names by apply gls_wf; apply gls_wf).
    step. unfold with_var. lk. rewrite Hl. cbn [update_at].
    step. rewrite Hd. cbn [slice_eval opt_int as_int]. change 16%Z with (Z.of_nat 16). rewrite py_slice_from.
    rewrite exec_block_nil. eexists. split; [reflexivity|].
    exists (skipn 16 (a :: rest)), (done ++ [firstn 16 (a :: rest)])%list. repeat split; lk.
    + apply chunks_more_fuel; [lia| |lia]. pose proof (skipn_shorter (a :: rest) 16 ltac:(discriminate) ltac:(lia)) as H.
      change (length (a :: rest)) with (S (length rest)) in H. lia.
    + rewrite Htot, <- app_assoc. reflexivity.
    + reflexivity.
    + rewrite map_app. reflexivity.
    + exact Hr.
  - pose proof (chunks_length (length announced) 16 announced). lia.
  - exists announced, []. repeat split; lk; reflexivity.
  - cbn [while_body while_cond fn_body nth PF_gls] in Hrun. rewrite Hrun. clear Hrun.
    destruct Hinv as (rest & done & Hds & Htot & Hd & Hl & Hr).
    (* nothing remains: all pieces are in _lbas, in order *)
    rewrite app_nil_r in Htot. subst done.
    step. unfold with_var. rewrite Hr, Hl. cbn [update_at dict_update fold_left dict_set fst snd].
    step. cbn [truthy]. reflexivity.
Qed.

(* ---------------------------------------------------------------- PERSISTENT RESERVE IN / READ KEYS, every input *)
Definition prk_inv_all (total : list bytes) (res : pv) (ds : list bytes) (ρ : env) : Prop :=
  exists rest done, ds = chunks (length rest) 8 rest /\ total = (done ++ ds)%list /\
    lookup "data" ρ = Some (PBytes rest) /\ lookup "keys" ρ = Some (PList (map prk_key done)) /\ lookup "result" ρ = Some res.

Theorem read_keys_total : forall (data : bytes) f, length data + 3 <= f ->
  let announced := py_slice data (Some 8%Z) (Some (Z.of_N (ba_to_int (py_slice data (Some 4%Z) (Some 8%Z))) + 8)%Z) in
  call_fun all_tables py_program f PRK [PBytes data] =
  Ok (PDict [("pr_generation", PInt (Z.of_N (ba_to_int (py_slice data None (Some 4%Z)))));
             ("reservation_keys", PList (map prk_key (chunks (length announced) 8 announced)))]).
Proof.
  intros data f Hf announced.
  unfold call_fun, call_with. rewrite prk_lookup. cbn [fn_params bind_params PF_prk].
  destruct f as [|[|f]]; try lia. rewrite run_S, exec_if. cbn [eval truthy].
  cbn [fn_body PF_prk].
  step. step. cbn [lookup String.eqb Ascii.eqb Bool.eqb slice_eval opt_int as_int]. unfold with_var. lk. cbn [update_at set_item].
  step. cbn [lookup String.eqb Ascii.eqb Bool.eqb slice_eval opt_int as_int].
  step. cbn [lookup String.eqb Ascii.eqb Bool.eqb slice_eval opt_int as_int bin_eval]. fold announced.
  step.
  rewrite exec_block_cons, <- run_S.
  assert (Hal : length announced <= length data).
  { unfold announced, py_slice. destruct (clip (length data) 8); rewrite firstn_length, ?skipn_length; lia. }
  set (res := PDict (dict_set [] "pr_generation" (PInt (Z.of_N (ba_to_int (py_slice data None (Some 4%Z))))))).
  pose proof (while_consumes all_tables py_program (ELen (EVar "data")) (while_body PF_prk 5) _ (prk_inv_all (chunks (length announced) 8 announced) res) 0) as W.
  match goal with |- context [run _ _ _ (SWhile _ _) ?r0] =>
    destruct (W) with (ds := chunks (length announced) 8 announced) (f := S f) (ρ := r0) as (ρ' & Hrun & Hinv) end.
  - intros f0 ds ρ (rest & done & Hds & Htot & Hd & Hl & Hr). cbn [eval]. rewrite Hd. cbn [len_eval]. eexists. split; [reflexivity|]. cbn [truthy].
    destruct rest as [|a rest]; [rewrite Hds, chunks_nil; reflexivity|].
    change (length (a :: rest)) with (S (length rest)) in *. rewrite Hds. rewrite chunks_cons by discriminate.
    destruct (Z.eqb_spec (Z.of_nat (S (length rest))) 0); [lia|reflexivity].
  - intros f0 d ds ρ _ (rest & done & Hds & Htot & Hd & Hl & Hr).
    destruct rest as [|a rest]; [rewrite chunks_nil in Hds; discriminate|].
    change (length (a :: rest)) with (S (length rest)) in Hds. rewrite chunks_cons in Hds by discriminate. injection Hds as -> ->.
    cbn [while_body fn_body nth PF_prk].
    step. rewrite Hd. cbn [slice_eval opt_int as_int]. change 8%Z with (Z.of_nat 8). rewrite py_slice_to.
    step. rewrite Hd. cbn [slice_eval opt_int as_int]. change 8%Z with (Z.of_nat 8). rewrite py_slice_from.
    step. unfold with_var. lk. rewrite Hl. cbn [update_at].
    rewrite exec_block_nil. eexists. split; [reflexivity|].
    exists (skipn 8 (a :: rest)), (done ++ [firstn 8 (a :: rest)])%list. repeat split; lk.
    + apply chunks_more_fuel; [lia| |lia]. pose proof (skipn_shorter (a :: rest) 8 ltac:(discriminate) ltac:(lia)) as H.
      change (length (a :: rest)) with (S (length rest)) in H. lia.
    + rewrite Htot, <- app_assoc. reflexivity.
    + reflexivity.
    + rewrite map_app. reflexivity.
    + exact Hr.
  - pose proof (chunks_length (length announced) 8 announced). lia.
  - exists announced, []. repeat split; lk; reflexivity.
  - cbn [while_body while_cond fn_body nth PF_prk] in Hrun. rewrite Hrun. clear Hrun.
    destruct Hinv as (rest & done & Hds & Htot & Hd & Hl & Hr). rewrite app_nil_r in Htot. subst done.
    step. rewrite Hl. unfold with_var. rewrite Hr. unfold res. cbn [update_at set_item dict_set String.eqb Ascii.eqb Bool.eqb].
    step. reflexivity.
Qed.

(* ---------------------------------------------------------------- REPORT LUNS, every input *)
Definition RL := "scsi_cdb_report_luns.ReportLuns.unmarshall_datain".
Notation PF_rl := PF_scsi_cdb_report_luns_ReportLuns_unmarshall_datain.
Definition T_rl := T_scsi_cdb_report_luns__ReportLuns___datain_bits.

Lemma rl_lookup : lookup RL py_program = Some PF_rl.
Proof. vm_compute. reflexivity. Qed.
Lemma rl_table : lookup "scsi_cdb_report_luns.ReportLuns._datain_bits" all_tables = Some T_rl.
Proof. vm_compute. reflexivity. Qed.
Lemma rl_wf : masks_nonzero T_rl = true /\ names_distinct (map fst T_rl) = true.
Proof. vm_compute. split; reflexivity. Qed.

(* the decimal text of a number is never empty, so "lun<N>" is never "lun" *)
Lemma z_to_string_nonempty z : z_to_string z <> "".
Proof.
  unfold z_to_string, NilZero.string_of_int. destruct (Z.to_int z) as [d|d].
  - unfold NilZero.string_of_uint. destruct d; discriminate.
  - discriminate.
Qed.

Lemma str_app_nil (s : string) : (s ++ "")%string = s.
Proof. induction s as [|c s IH]; [reflexivity|]. cbn. now rewrite IH. Qed.

Lemma lun_key_neq (s : string) : s <> "" -> String.eqb ("lun" ++ s) "lun" = false.
Proof. intros H. destruct s; [congruence|]. reflexivity. Qed.

Definition rl_value (d : bytes) : pv := PInt (Z.of_N (N.land (N.shiftr (ba_to_int (slice d 0 (0 + nbytes 18446744073709551615))) 0) (N.shiftr 18446744073709551615 0))).
Definition rl_entry (i : nat) (d : bytes) : pv := PDict [("lun" ++ z_to_string (Z.of_nat i), rl_value d)].

Fixpoint rl_entries (i : nat) (ds : list bytes) : list pv :=
  match ds with [] => [] | d :: r => rl_entry i d :: rl_entries (S i) r end.

Lemma rl_entries_app i a b : rl_entries i (a ++ b)%list = (rl_entries i a ++ rl_entries (i + length a) b)%list.
Proof.
  revert i. induction a as [|d a IH]; intros i.
  - change (length (@nil bytes)) with 0. now rewrite Nat.add_0_r.
  - change ((d :: a) ++ b)%list with (d :: (a ++ b))%list. cbn [rl_entries]. rewrite IH. change (length (d :: a)) with (S (length a)).
    replace (S i + length a) with (i + S (length a)) by lia. reflexivity.
Qed.

Definition rl_inv_all (total : list bytes) (ds : list bytes) (ρ : env) : Prop :=
  exists rest done, ds = chunks (length rest) 8 rest /\ total = (done ++ ds)%list /\
    lookup "_data" ρ = Some (PBytes rest) /\ lookup "_luns" ρ = Some (PList (rl_entries 0 done)) /\
    lookup "_count" ρ = Some (PInt (Z.of_nat (length done))) /\ lookup "result" ρ = Some (PDict []).

Theorem reportluns_total : forall (data : bytes) f, length data + 3 <= f ->
  let announced := py_slice data (Some 8%Z) (Some (Z.of_N (ba_to_int (py_slice data None (Some 4%Z))) + 8)%Z) in
  call_fun all_tables py_program f RL [PBytes data] = Ok (PDict [("luns", PList (rl_entries 0 (chunks (length announced) 8 announced)))]).
Proof.
  intros data f Hf announced.
  unfold call_fun, call_with. rewrite rl_lookup. cbn [fn_params bind_params PF_rl].
  destruct f as [|[|f]]; try lia. rewrite run_S, exec_if. cbn [eval truthy].
  cbn [fn_body PF_rl].
  step. step. cbn [lookup String.eqb Ascii.eqb Bool.eqb slice_eval opt_int as_int bin_eval]. fold announced.
  step. step.
  rewrite exec_block_cons, <- run_S.
  assert (Hal : length announced <= length data).
  { unfold announced, py_slice. destruct (clip (length data) 8); rewrite firstn_length, ?skipn_length; lia. }
  pose proof (while_consumes all_tables py_program (ELen (EVar "_data")) (while_body PF_rl 4) _ (rl_inv_all (chunks (length announced) 8 announced)) 0) as W.
  match goal with |- context [run _ _ _ (SWhile _ _) ?r0] =>
    destruct (W) with (ds := chunks (length announced) 8 announced) (f := S f) (ρ := r0) as (ρ' & Hrun & Hinv) end.
  - intros f0 ds ρ (rest & done & Hds & Htot & Hd & Hl & Hc & Hr). cbn [eval]. rewrite Hd. cbn [len_eval]. eexists. split; [reflexivity|]. cbn [truthy].
    destruct rest as [|a rest]; [rewrite Hds, chunks_nil; reflexivity|].
    change (length (a :: rest)) with (S (length rest)) in *. rewrite Hds. rewrite chunks_cons by discriminate.
    destruct (Z.eqb_spec (Z.of_nat (S (length rest))) 0); [lia|reflexivity].
  - intros f0 d ds ρ _ (rest & done & Hds & Htot & Hd & Hl & Hc & Hr).
    destruct rest as [|a rest]; [rewrite chunks_nil in Hds; discriminate|].
    change (length (a :: rest)) with (S (length rest)) in Hds. rewrite chunks_cons in Hds by discriminate. injection Hds as -> ->.
    cbn [while_body fn_body nth PF_rl].
    step. step. rewrite Hd. cbn [slice_eval opt_int as_int]. rewrite rl_table. change 8%Z with (Z.of_nat 8). rewrite py_slice_to.
    rewrite decode_bits_total by apply rl_wf. unfold with_var. lk.
    rewrite dict_update_nil by (unfold dict_of_decoded; rewrite map_map; cbn [fst]; rewrite decode_total_names by apply rl_wf; apply rl_wf).
    (* the decoded dictionary has exactly the key "lun" *)
    assert (Hdt : dict_of_decoded (decode_total (firstn 8 (a :: rest)) T_rl) = [("lun", rl_value (firstn 8 (a :: rest)))]) by reflexivity.
    rewrite Hdt.
    set (x := rl_value (firstn 8 (a :: rest))).
    step. rewrite Hc. cbn [fmt_eval]. rewrite str_app_nil.
    set (k := "lun" ++ z_to_string (Z.of_nat (length done))).
    assert (Hk : String.eqb k "lun" = false) by (apply lun_key_neq, z_to_string_nonempty).
    step. cbn [index_eval lookup String.eqb Ascii.eqb Bool.eqb]. unfold with_var. lk. cbn [update_at set_item dict_set]. rewrite Hk.
    rewrite exec_block_cons, exec_if. cbn [eval]. lk. cbn [cmp_eval py_eq]. rewrite Hk. cbn [truthy].
    step. unfold with_var. lk. cbn [lookup String.eqb Ascii.eqb Bool.eqb dict_remove]. rewrite exec_block_nil.
    step. unfold with_var. lk. rewrite Hl. cbn [update_at].
    step. rewrite Hd. cbn [slice_eval opt_int as_int]. change 8%Z with (Z.of_nat 8). rewrite py_slice_from.
    step. rewrite Hc. cbn [bin_eval as_int].
    rewrite exec_block_nil. eexists. split; [reflexivity|].
    exists (skipn 8 (a :: rest)), (done ++ [firstn 8 (a :: rest)])%list. repeat split; lk.
    + apply chunks_more_fuel; [lia| |lia]. pose proof (skipn_shorter (a :: rest) 8 ltac:(discriminate) ltac:(lia)) as H.
      change (length (a :: rest)) with (S (length rest)) in H. lia.
    + rewrite Htot, <- app_assoc. reflexivity.
    + reflexivity.
    + rewrite rl_entries_app. cbn [rl_entries]. rewrite Nat.add_0_l. reflexivity.
    + rewrite app_length. change (length [firstn 8 (a :: rest)]) with 1. f_equal. f_equal. lia.
    + exact Hr.
  - pose proof (chunks_length (length announced) 8 announced). lia.
  - exists announced, []. repeat split; lk; reflexivity.
  - cbn [while_body while_cond fn_body nth PF_rl] in Hrun. rewrite Hrun. clear Hrun.
    destruct Hinv as (rest & done & Hds & Htot & Hd & Hl & Hc & Hr). rewrite app_nil_r in Htot. subst done.
    step. unfold with_var. rewrite Hr, Hl. cbn [update_at dict_update fold_left dict_set fst snd].
    step. cbn [truthy]. reflexivity.
Qed.

(* the pieces of a concatenation of k-byte strings are those strings *)
Lemma chunks_concat (k : nat) (ds : list bytes) : 1 <= k -> Forall (fun d => length d = k) ds ->
  forall fuel, length (concat ds) <= fuel -> chunks fuel k (concat ds) = ds.
Proof.
  intros Hk H. induction H as [|d ds Hd Hall IH]; intros fuel Hf.
  - change (concat []) with (@nil N). apply chunks_nil.
  - change (concat (d :: ds)) with (d ++ concat ds)%list in *. rewrite app_length in Hf.
    destruct fuel as [|fuel]; [lia|]. rewrite chunks_cons by (destruct d; [change (length (@nil N)) with 0 in Hd; lia|discriminate]).
    rewrite firstn_app. replace (k - length d) with 0 by lia. rewrite firstn_O, app_nil_r, firstn_all2 by lia.
    rewrite skipn_app. replace (k - length d) with 0 by lia. rewrite skipn_all2 by lia. change (skipn 0 (concat ds)) with (concat ds). change ([] ++ concat ds)%list with (concat ds).
    f_equal. apply IH. lia.
Qed.

(* ---------------------------------------------------------------- plain table decoders, every input *)
Definition plain_body (tname : string) : list st :=
  [SAssign "result" (EDict []); SDecode (EVar "data") tname "result"; SReturn (EVar "result")].

Theorem plain_decoder_total : forall (name tname : string) (F : fundef) (T : layout),
  lookup name py_program = Some F -> fn_params F = [("data", None)] -> fn_body F = plain_body tname ->
  lookup tname all_tables = Some T -> masks_nonzero T = true -> names_distinct (map fst T) = true ->
  forall (data : bytes) f, 1 <= f ->
  call_fun all_tables py_program f name [PBytes data] = Ok (PDict (dict_of_decoded (decode_total data T))).
Proof.
  intros name tname F T HF Hp Hb HT Hm Hd data f Hf. destruct f as [|f]; [lia|].
  unfold call_fun, call_with. rewrite HF, Hp. cbn [bind_params]. rewrite run_S, exec_if. cbn [eval truthy]. rewrite Hb. unfold plain_body.
  step. step. cbn [lookup String.eqb Ascii.eqb Bool.eqb]. rewrite HT. rewrite decode_bits_total by exact Hm. unfold with_var. lk.
  rewrite dict_update_nil by (unfold dict_of_decoded; rewrite map_map; cbn [fst]; rewrite decode_total_names by exact Hm; exact Hd).
  step. reflexivity.
Qed.

Definition T_rc10 := T_scsi_cdb_readcapacity10__ReadCapacity10___datain_bits.
Definition T_rc16 := T_scsi_cdb_readcapacity16__ReadCapacity16___datain_bits.

Theorem readcapacity10_total : forall (data : bytes) f, 1 <= f ->
  call_fun all_tables py_program f "scsi_cdb_readcapacity10.ReadCapacity10.unmarshall_datain" [PBytes data]
  = Ok (PDict (dict_of_decoded (decode_total data T_rc10))).
Proof.
  apply (plain_decoder_total _ "scsi_cdb_readcapacity10.ReadCapacity10._datain_bits" PF_scsi_cdb_readcapacity10_ReadCapacity10_unmarshall_datain);
    vm_compute; reflexivity.
Qed.

Theorem readcapacity16_total : forall (data : bytes) f, 1 <= f ->
  call_fun all_tables py_program f "scsi_cdb_readcapacity16.ReadCapacity16.unmarshall_datain" [PBytes data]
  = Ok (PDict (dict_of_decoded (decode_total data T_rc16))).
Proof.
  apply (plain_decoder_total _ "scsi_cdb_readcapacity16.ReadCapacity16._datain_bits" PF_scsi_cdb_readcapacity16_ReadCapacity16_unmarshall_datain);
    vm_compute; reflexivity.
Qed.
